#!/venv/bin/python
"""Run every registered check against every behaviour-preserving change in /verif/benign/<id>/patch.diff (scratch copy of
/repo/canopen + patch; never /repo itself).  Every check must stay at exit 0: anything else is a false alarm of the machinery.

usage: tools/benignrun.py [--verbose] [id ...]
"""
import json, os, shutil, subprocess, sys, tempfile
from concurrent.futures import ThreadPoolExecutor
V = os.path.dirname(os.path.dirname(os.path.abspath(__file__)))
root = os.environ.get("BENIGN_DIR", os.path.join(V, "benign"))
props = sorted(p[:-3].upper() for p in os.listdir(os.path.join(V, "sa/rules")) if p.startswith("c") and p[1:3].isdigit())
ids = [a for a in sys.argv[1:] if not a.startswith("--")] or sorted(d for d in os.listdir(root) if os.path.isdir(os.path.join(root, d)))


def one(bid):
    d = tempfile.mkdtemp(prefix="verif-benign.")
    try:
        shutil.copytree("/repo/canopen", os.path.join(d, "canopen"))
        r = subprocess.run(["patch", "-p1", "-s", "-i", os.path.join(root, bid, "patch.diff")], cwd=d, capture_output=True, text=True)
        if r.returncode:
            return bid, "APPLY-FAIL", [], [], [r.stdout[:200]]
        viol, err, det = [], [], []
        if os.environ.get("BENIGN_SLOW") != "1":
            # one load of the patched tree, one forked child per property (tools/allcheck.py)
            r = subprocess.run(["/venv/bin/python", os.path.join(V, "tools", "allcheck.py"), d, "--jobs", "2"] + props,
                               capture_output=True, text=True, env=dict(os.environ, VERIF_NO_EVIDENCE="1"))
            cur, rc = None, 0
            for l in r.stdout.splitlines():
                if l.startswith("== "):
                    cur, rc = l.split()[1], int(l.split("rc=")[1])
                    if rc == 1:
                        viol.append(cur)
                    elif rc:
                        err.append(cur)
                elif rc == 1 and l.startswith("  rule=") or rc not in (0, 1) and l.startswith("ANALYSIS"):
                    det.append(l.strip()[:260])
            if r.returncode or cur is None:
                err.append("allcheck")
                det.append((r.stderr or r.stdout)[-300:])
            return bid, ("quiet" if not viol and not err else "FALSE-ALARM"), viol, err, det[:6]
        viol, err, det = [], [], []
        for p in props:
            r = subprocess.run(["/venv/bin/python", os.path.join(V, "check"), p, "--repo", d], capture_output=True, text=True, env=dict(os.environ, VERIF_NO_EVIDENCE="1"))
            if r.returncode == 1:
                viol.append(p)
                det += [l.strip()[:260] for l in r.stdout.splitlines() if l.startswith("  rule=")][:3]
            elif r.returncode == 2:
                err.append(p)
                det += [l.strip()[:260] for l in r.stdout.splitlines() if l.startswith("ANALYSIS")][:3]
        return bid, ("quiet" if not viol and not err else "FALSE-ALARM"), viol, err, det
    finally:
        shutil.rmtree(d, ignore_errors=True)


with ThreadPoolExecutor(8) as ex:
    res = list(ex.map(one, ids))
bad = 0
for bid, verdict, viol, err, det in res:
    print(f"{bid:10s} {verdict:12s} violation={','.join(viol) or '-'} analysis-error={','.join(err) or '-'}")
    if verdict != "quiet":
        bad += 1
        if "--verbose" in sys.argv:
            for l in det:
                print("      " + l)
print(f"{len(res) - bad}/{len(res)} benign changes leave all {len(props)} checks quiet")
