#!/venv/bin/python
"""Development aid (NOT part of any registered check): find syntactic variants of /repo that
   (a) leave the property's static check silent and (b) still pass the repository's test suite.
Those are the candidates worth reading when looking for clauses the rules do not state yet.

usage: tools/triage_silent.py C02 [C05 ...]      (writes /tmp/triage_<id>.txt)
"""
import importlib, os, shutil, subprocess, sys, tempfile
from concurrent.futures import ProcessPoolExecutor, ThreadPoolExecutor
V = os.path.dirname(os.path.dirname(os.path.abspath(__file__)))
sys.path.insert(0, V); sys.dont_write_bytecode = True
from sa.loader import Repo  # noqa
from sa.report import Checker  # noqa
from sa import selftest  # noqa


def suite_passes(args):
    rel, src, desc = args
    d = tempfile.mkdtemp(prefix="verif-mut.")
    try:
        shutil.copytree("/repo/canopen", os.path.join(d, "canopen"))
        shutil.copytree("/repo/test", os.path.join(d, "test"))
        with open(os.path.join(d, rel), "w") as fh:
            fh.write(src)
        r = subprocess.run(["/venv/bin/python", "-m", "pytest", "-q", "-x", "-p", "no:cacheprovider", "--timeout=60", "test"], cwd=d,
                           capture_output=True, text=True, timeout=600)
        return desc, r.returncode == 0
    except Exception as e:  # noqa
        return desc, False
    finally:
        shutil.rmtree(d, ignore_errors=True)


def main():
    for prop in sys.argv[1:]:
        repo = Repo("/repo")
        mod = importlib.import_module(f"sa.rules.{prop.lower()}")
        chk = Checker(prop, repo, "thorough")
        mod.run(chk)
        variants = []
        for key in sorted(chk.analysed_functions):
            rel, qual = key.split(":", 1)
            m = repo.by_rel.get(rel)
            if m is None:
                continue
            for desc, src in selftest.breaking_variants(m.src, qual):
                variants.append((prop, "/repo", rel, src, f"{key}: {desc}"))
        with ProcessPoolExecutor(16) as ex:
            res = list(ex.map(selftest._evaluate, variants, chunksize=8))
        silent = [(v[2], v[3], v[4]) for v, r in zip(variants, res) if r[0] == "silent"]
        print(f"{prop}: {len(variants)} variants, {len(silent)} silent; running the test suite on the silent ones ...", flush=True)
        with ThreadPoolExecutor(16) as ex:
            out = list(ex.map(suite_passes, silent))
        surv = [d for d, ok in out if ok]
        with open(f"/tmp/triage_{prop}.txt", "w") as fh:
            fh.write("\n".join(x.replace("\n", " ") for x in surv))
        print(f"{prop}: {len(surv)} silent variants also pass the test suite -> /tmp/triage_{prop}.txt", flush=True)


if __name__ == "__main__":
    main()
