#!/venv/bin/python
"""Development aid: run several properties' checks on one tree with ONE load/canonicalisation of the tree.

usage: tools/allcheck.py <repo-dir> [--jobs N] [Cxx ...]       (default: all twenty)
The tree is loaded once; each property is then decided in a forked child (so that no rule can disturb another through the shared
Repo object).  Prints, per property, `== Cxx rc=<exit code>` followed by the check's own output.  Never writes evidence.
"""
import importlib
import io
import os
import sys
import time
import traceback

HERE = os.path.dirname(os.path.dirname(os.path.abspath(__file__)))
sys.path.insert(0, HERE)
sys.dont_write_bytecode = True
os.environ["VERIF_NO_EVIDENCE"] = "1"

from sa.loader import Repo, AnalysisError  # noqa: E402
from sa.report import Checker, finish  # noqa: E402


def child(repo, prop):
    started = time.time()
    try:
        mod = importlib.import_module(f"sa.rules.{prop.lower()}")
        chk = Checker(prop, repo, "quick")
        mod.run(chk)
        return finish(chk, started, mod.EXPLANATION, mod.ASSUMPTIONS, {})
    except AnalysisError as e:
        print(f"ANALYSIS-ERROR property={prop} rule={e.rule} {e.msg}")
        return 2
    except Exception:  # noqa
        print(f"ANALYSIS-ERROR property={prop} internal error of the checker:\n{traceback.format_exc()}")
        return 2


def main():
    args = [a for a in sys.argv[1:]]
    jobs = 4
    if "--jobs" in args:
        i = args.index("--jobs")
        jobs = int(args[i + 1])
        del args[i:i + 2]
    root = args[0]
    props = [a.upper() for a in args[1:]] or [f"C{i:02d}" for i in range(1, 21)]
    try:
        repo = Repo(root)
    except AnalysisError as e:
        for p in props:
            print(f"== {p} rc=2\nANALYSIS-ERROR property={p} rule={e.rule} {e.msg}")
        return 0
    except Exception:  # noqa
        tb = traceback.format_exc()
        for p in props:
            print(f"== {p} rc=2\nANALYSIS-ERROR property={p} loader: {tb}")
        return 0
    pending = list(props)
    running = {}
    outs = {}
    tmpdir = os.environ.get("TMPDIR", "/tmp")
    while pending or running:
        while pending and len(running) < jobs:
            p = pending.pop(0)
            path = os.path.join(tmpdir, f"allcheck.{os.getpid()}.{p}.out")
            pid = os.fork()
            if pid == 0:
                fd = os.open(path, os.O_WRONLY | os.O_CREAT | os.O_TRUNC)
                os.dup2(fd, 1)
                os.dup2(fd, 2)
                sys.stdout = io.TextIOWrapper(os.fdopen(1, "wb", closefd=False), write_through=True)
                rc = child(repo, p)
                sys.stdout.flush()
                os._exit(rc)
            running[pid] = (p, path)
        pid, status = os.wait()
        p, path = running.pop(pid)
        rc = os.waitstatus_to_exitcode(status)
        with open(path) as fh:
            outs[p] = (rc, fh.read())
        os.unlink(path)
    for p in props:
        rc, text = outs[p]
        print(f"== {p} rc={rc}")
        sys.stdout.write(text)
    return 0


if __name__ == "__main__":
    sys.exit(main())
