#!/bin/bash
# usage: trypatch.sh <patch.diff|-R:commit> <prop> [<prop>...]   -- run checks on a scratch copy of /repo with the patch applied
set -u
P="$1"; shift
D=$(mktemp -d /tmp/verif-scratch.XXXXXX)
mkdir -p "$D/r" && cp -r /repo/canopen "$D/r/canopen"
if [[ "$P" == -R:* ]]; then
  (cd /repo && git diff "${P#-R:}~1" "${P#-R:}" -- canopen) | (cd "$D/r" && patch -R -p1 -s) || { echo "reverse apply failed"; rm -rf "$D"; exit 3; }
else
  (cd "$D/r" && patch -p1 -s < "$P") || { echo "apply failed"; rm -rf "$D"; exit 3; }
fi
rc=0
for p in "$@"; do
  VERIF_NO_EVIDENCE=1 /venv/bin/python /verif/check "$p" --repo "$D/r" | grep -v '^replaying' | sed "s#$D/r/##g" | grep -E "VIOLATION|rule=|ANALYSIS|KNOWN|^C[0-9]+ " | cut -c1-400
done
rm -rf "$D"
