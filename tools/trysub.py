#!/venv/bin/python
"""Development aid: run checks on a scratch copy of /repo with one literal text substitution applied.
usage: tools/trysub.py <rel-file> <old> <new> <prop>...   (old must occur; use @N suffix on old to pick the N-th occurrence, 1-based)
"""
import os, shutil, subprocess, sys, tempfile
rel, old, new, props = sys.argv[1], sys.argv[2], sys.argv[3], sys.argv[4:]
nth = 1
if "@@" in old:
    old, k = old.rsplit("@@", 1); nth = int(k)
d = tempfile.mkdtemp(prefix="verif-sub.")
try:
    shutil.copytree("/repo/canopen", os.path.join(d, "canopen"))
    p = os.path.join(d, rel)
    s = open(p).read()
    parts = s.split(old)
    if len(parts) <= nth:
        sys.exit(f"`{old}` occurs {len(parts)-1} times")
    s = old.join(parts[:nth]) + new + old.join(parts[nth:])
    open(p, "w").write(s)
    import ast; ast.parse(s)
    for pr in props:
        r = subprocess.run([os.path.join(os.path.dirname(os.path.dirname(os.path.abspath(__file__))), "check"), pr, "--repo", d],
                           capture_output=True, text=True, env=dict(os.environ, VERIF_NO_EVIDENCE="1"))
        lines = [l for l in r.stdout.splitlines() if l.startswith(("VIOLATION", "ANALYSIS", "  ", "BAD", "UNK")) or "violated" in l]
        print(f"--- {pr} rc={r.returncode}")
        print("\n".join(lines[:12]))
finally:
    shutil.rmtree(d, ignore_errors=True)
