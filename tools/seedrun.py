#!/venv/bin/python
"""Run the registered checks against every seeded change (scratch copy of /repo/canopen + patch; never /repo itself).

usage: tools/seedrun.py [--own] [--verbose] [seed-id ...]     (--own: only the owning property's check)
Prints one line per seed: which properties' checks fire (exit 1), which say ANALYSIS-ERROR (exit 2).
"""
import json, os, shutil, subprocess, sys, tempfile
from concurrent.futures import ThreadPoolExecutor
V = os.path.dirname(os.path.dirname(os.path.abspath(__file__)))
man = json.load(open(os.path.join(V, "MANIFEST.json")))
props = [c["property_id"] for c in man["checks"]]
extra = [p[:-3].upper() for p in os.listdir(os.path.join(V, "sa/rules")) if p.startswith("c") and p[1:3].isdigit()]
props = sorted(set(props) | set(extra))
seeds = [a for a in sys.argv[1:] if not a.startswith("--")] or sorted(d for d in os.listdir(os.path.join(V, "seeded")) if os.path.isdir(os.path.join(V, "seeded", d)))

def one(seed):
    d = tempfile.mkdtemp(prefix="verif-seed.")
    try:
        shutil.copytree("/repo/canopen", os.path.join(d, "canopen"))
        r = subprocess.run(["patch", "-p1", "-s", "-i", os.path.join(V, "seeded", seed, "patch.diff")], cwd=d, capture_output=True, text=True)
        if r.returncode:
            return seed, "APPLY-FAIL " + r.stdout[:200], [], []
        own = json.load(open(os.path.join(V, "seeded", seed, "meta.json")))["property"]
        fired, err, det = [], [], []
        todo = [own] if "--own" in sys.argv else props
        for p in todo:
            env = dict(os.environ, VERIF_NO_EVIDENCE="1")
            r = subprocess.run(["/venv/bin/python", os.path.join(V, "check"), p, "--repo", d], capture_output=True, text=True, env=env)
            if r.returncode == 1:
                fired.append(p)
                det += [l.strip()[:230] for l in r.stdout.splitlines() if l.startswith("  rule=")][:2]
            elif r.returncode == 2:
                err.append(p)
                det += [l.strip()[:230] for l in r.stdout.splitlines() if l.startswith("ANALYSIS")][:2]
        return seed, ("CAUGHT" if own in fired else ("caught-by-other" if fired else ("analysis-error" if err else "MISSED"))), fired, err, det
    finally:
        shutil.rmtree(d, ignore_errors=True)

with ThreadPoolExecutor(16) as ex:
    res = list(ex.map(one, seeds))
n = 0
for r in res:
    seed, verdict, fired, err = r[:4]
    det = r[4] if len(r) > 4 else []
    print(f"{seed:8s} {verdict:16s} fired={','.join(fired) or '-'} err={','.join(err) or '-'}")
    if "-v" in sys.argv or "--verbose" in sys.argv:
        for l in det:
            print("      " + l)
    n += verdict.startswith("CAUGHT")
print(f"{n}/{len(res)} caught by the owning property's check")
