#!/venv/bin/python
"""Dev aid: per patch, similarity (difflib ratio over canonical lines) of each changed function to the reference.
usage: tools/simscan.py <dir-with-seed-dirs> [id...]"""
import ast, difflib, json, os, shutil, subprocess, sys, tempfile
V = os.path.dirname(os.path.dirname(os.path.abspath(__file__)))
sys.path.insert(0, V)
from sa import loader
ref = json.load(open(os.path.join(V, "sa/reference.json")))
root = sys.argv[1]
ids = sys.argv[2:] or sorted(os.listdir(root))
def strip(src):
    t = ast.parse(src)
    if not t.body: return src
    f = t.body[0]; f.returns = None; f.decorator_list = []
    for a in ast.walk(f.args):
        if isinstance(a, ast.arg): a.annotation = None
    return ast.unparse(f)
for sid in ids:
    pd = os.path.join(root, sid, "patch.diff")
    if not os.path.exists(pd): continue
    tmp = tempfile.mkdtemp(prefix="verif-sim.")
    try:
        shutil.copytree("/repo/canopen", os.path.join(tmp, "canopen"))
        if subprocess.run(["patch", "-p1", "-s", "-i", pd], cwd=tmp, capture_output=True).returncode: continue
        touched = sorted({l[6:].strip() for l in open(pd) if l.startswith("+++ b/")})
        repo = loader.Repo(tmp)
        out = []
        for rel in touched:
            if rel not in ref or not rel.endswith(".py"): continue
            try: mod = repo.mod(rel)
            except Exception as e:
                out.append((0.0, rel + ":PARSE")); continue
            cur = {}
            def walk(node, prefix):
                for n in getattr(node, "body", []):
                    if isinstance(n, ast.ClassDef): walk(n, prefix + n.name + ".")
                    elif isinstance(n, ast.FunctionDef):
                        q = prefix + n.name
                        if any(isinstance(d, ast.Attribute) and d.attr == "setter" for d in n.decorator_list): q += ".setter"
                        cur[q] = n; walk(n, q + ".")
            walk(mod.tree, "")
            for q, rf in ref[rel]["funcs"].items():
                if not rf.get("src"): continue
                if q not in cur:
                    out.append((0.0, f"{q} REMOVED")); continue
                a, b = strip(rf["src"]).splitlines(), strip(ast.unparse(cur[q])).splitlines()
                if a != b:
                    out.append((round(difflib.SequenceMatcher(None, a, b, autojunk=False).ratio(), 2), q))
            for q in cur:
                if q not in ref[rel]["funcs"]: out.append((0.0, f"{q} NEW"))
        print(sid, sorted(out)[:4])
    finally:
        shutil.rmtree(tmp, ignore_errors=True)
