#!/bin/bash
# Dev aid: run a tool of /verif/tools from a snapshot of /verif.   usage: tools/snaprun.sh <logfile> <tool> [args...]
set -u
L="$1"; shift; T="$1"; shift
S=$(mktemp -d /tmp/verif-snap.XXXXXX)
rsync -a --exclude .git --exclude evidence /verif/ "$S/"
VERIF_NO_EVIDENCE=1 "$S/tools/$T" "$@" > "$L" 2>&1
rm -rf "$S"
tail -n1 "$L"
