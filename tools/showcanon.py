#!/venv/bin/python
"""Dev aid: print the canonical form the engine sees for one function, on /repo or on /repo + patch.

usage: tools/showcanon.py <rel.py> <Qual.name> [patch.diff]      (parsing only; nothing of the repository is run)
"""
import ast, os, shutil, subprocess, sys, tempfile
V = os.path.dirname(os.path.dirname(os.path.abspath(__file__)))
sys.path.insert(0, V)
from sa import loader  # noqa: E402

rel, qual = sys.argv[1], sys.argv[2]
root = "/repo"
tmp = None
if len(sys.argv) > 3:
    tmp = tempfile.mkdtemp(prefix="verif-show.")
    shutil.copytree("/repo/canopen", os.path.join(tmp, "canopen"))
    subprocess.run(["patch", "-p1", "-s", "-i", os.path.abspath(sys.argv[3])], cwd=tmp, check=True)
    root = tmp
try:
    repo = loader.Repo(root)
    f = repo.func(rel, qual)
    print(ast.unparse(f.node))
finally:
    if tmp:
        shutil.rmtree(tmp, ignore_errors=True)
