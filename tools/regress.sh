#!/bin/bash
# Dev aid: run both regression corpora against a snapshot of /verif (so that editing /verif meanwhile does not disturb the run).
# usage: tools/regress.sh <tag>     -> /tmp/regress.<tag>.{seeds,benign}.log
set -u
T="${1:-x}"
S=$(mktemp -d /tmp/verif-snap.XXXXXX)
rsync -a --exclude .git --exclude evidence /verif/ "$S/"
export VERIF_NO_EVIDENCE=1
"$S/tools/seedrun.py" --own --verbose > /tmp/regress.$T.seeds.log 2>&1
"$S/tools/benignrun.py" --verbose > /tmp/regress.$T.benign.log 2>&1

rm -rf "$S"
tail -q -n1 /tmp/regress.$T.seeds.log /tmp/regress.$T.benign.log /tmp/regress.$T.G.log
