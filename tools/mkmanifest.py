#!/venv/bin/python
"""Regenerate /verif/MANIFEST.json from the rule modules present in sa/rules (keeps the manifest valid at all times)."""
import importlib, json, os, sys
V = os.path.dirname(os.path.dirname(os.path.abspath(__file__)))
sys.path.insert(0, V); sys.dont_write_bytecode = True
props = [json.loads(l) for l in open(os.path.join(V, "properties.jsonl"))]
checks, na = [], []
for p in props:
    pid = p["id"]
    path = os.path.join(V, "sa", "rules", pid.lower() + ".py")
    if not os.path.exists(path):
        na.append({"property_id": pid, "reason": "check under construction in this session (static rules designed in DESIGN.md section 4, not yet registered)"})
        continue
    m = importlib.import_module(f"sa.rules.{pid.lower()}")
    checks.append({
        "property_id": pid,
        "quick_cmd": f"/venv/bin/python /verif/check {pid} --tier quick",
        "thorough_cmd": f"/venv/bin/python /verif/check {pid} --tier thorough",
        "evidence_file": f"/verif/evidence/{pid}.json",
        "replay_cmd_template": f"/venv/bin/python /verif/check {pid} --replay {{path}}",
        "engine": "sa",
        "level_claimed": {"category": "other",
                          "text": "static decision, from /repo's current source only (ast, constant folding, CFG dataflow, typestate, table "
                                  "extraction; nothing of the repository is imported or run), of the structural clauses named in the rule list: "
                                  + m.EXPLANATION + "  These are necessary conditions of the property (breaking one breaks the behaviour for some input or "
                                  "history); the behaviour itself over all inputs is not explored or proved.",
                          "design_ref": f"DESIGN.md section 4, {pid}"},
        "level_note": "trusted: CPython ast/struct semantics, the standard tables in sa/oracles.py, name-based call resolution; not decided: "
                      + " | ".join(m.ASSUMPTIONS),
        "technique": getattr(m, "TECHNIQUE", "repository-specific static analysis over ast: constant folding + table comparison, CFG dataflow, typestate"),
    })
man = {
    "version": 1,
    "setup_cmd": "/venv/bin/python -m compileall -q /verif/sa && /venv/bin/python /verif/check C04 --tier quick >/dev/null",
    "hooks": {"guard": "CANOPEN_VERIF", "enable": "none needed: static analysis reads /repo's source; there are no hook commits",
              "baseline_off_cmd": "cd /repo && /venv/bin/python -m pytest -ra -q -p no:cacheprovider --timeout=900 --continue-on-collection-errors",
              "source_commits": [], "add_only": True},
    "engines": [{"name": "sa", "path": "/verif/sa", "serves_properties": [c["property_id"] for c in checks],
                 "kind_free_text": "repository-specific static analysis over Python ast: loader/symbol tables, constant folder, per-function CFG with "
                                   "dominators, must-fact dataflow, intervals, typestate products, table extraction vs CiA standard tables"}],
    "checks": checks,
    "not_applicable": na,
    "notes": "All claims are at level 'other' (static decision of structural clauses). Exit 2 + ANALYSIS-ERROR means the analyser lost sight of "
             "the code (never a VIOLATION). Genuine defects found on the pinned tree were repaired in /repo as 'fix:' commits and are listed as "
             "fixed in known_findings.json. See DESIGN.md.",
}
json.dump(man, open(os.path.join(V, "MANIFEST.json"), "w"), indent=1)
print(f"{len(checks)} checks, {len(na)} not yet claimed")
