#!/venv/bin/python
"""Record the reference inventory of /repo's current tree for the loader's canonical form:
  sa/localnames.json  per function: shapes of its binding statements and the local names they bind (alpha-renaming aid)
  sa/reference.json   per module: module-level constant names, class-level constant names, all function qualnames with
                      their parameter names and the order-insensitive keys of their if/while tests
The loader uses both only to undo behaviour-preserving refactorings (renamed locals, extracted helpers/constants/locals,
reshaped conditionals) -- constructs that are *absent* from this inventory are rewritten back, the pinned tree itself is a
fix point.  Re-run after every commit to /repo."""
import ast, json, os, sys
V = os.path.dirname(os.path.dirname(os.path.abspath(__file__)))
sys.path.insert(0, V); sys.dont_write_bytecode = True
os.environ["VERIF_NO_RENAME"] = "1"
from sa.loader import _Canonical, _binding_shapes  # noqa
from sa import canon  # noqa
out, ref = {}, {}
root = sys.argv[1] if len(sys.argv) > 1 else "/repo"
for dp, dn, fns in os.walk(os.path.join(root, "canopen")):
    for fn in sorted(fns):
        if not fn.endswith(".py"):
            continue
        path = os.path.join(dp, fn)
        rel = os.path.relpath(path, root)
        tree = _Canonical().visit(ast.parse(open(path).read()))
        ast.fix_missing_locations(tree)
        d, funcs = {}, {}

        def walk(node, prefix):
            for n in getattr(node, "body", []):
                if isinstance(n, ast.ClassDef):
                    walk(n, prefix + n.name + ".")
                elif isinstance(n, ast.FunctionDef):
                    q = prefix + n.name
                    if any(isinstance(x, ast.Attribute) and x.attr == "setter" for x in n.decorator_list):
                        q += ".setter"
                    sh = _binding_shapes(n)
                    if sh:
                        d[q] = sh
                    a = n.args
                    funcs[q] = {"params": [x.arg for x in a.posonlyargs + a.args + a.kwonlyargs] + ([a.vararg.arg] if a.vararg else []) + ([a.kwarg.arg] if a.kwarg else []),
                                "tests": canon.test_keys_of(n), "forms": canon.test_forms_of(n), "stmt_tests": canon.stmt_test_keys_of(n), "ifexp_tests": canon.ifexp_test_keys_of(n),
                                "test_src": {canon._key(x.test): ast.unparse(x.test) for x in ast.walk(n) if isinstance(x, (ast.If, ast.While, ast.IfExp, ast.Assert))},
                                "locals": sorted({x.id for x in ast.walk(n) if isinstance(x, ast.Name) and isinstance(x.ctx, ast.Store)}),
                                "src": ast.unparse(n) if len(ast.unparse(n)) < 20000 else ""}
                    walk(n, q + ".")
        walk(tree, "")
        if d:
            out[rel] = d
        consts = sorted({t.id for st in tree.body if isinstance(st, (ast.Assign, ast.AnnAssign)) for t in (st.targets if isinstance(st, ast.Assign) else [st.target])
                         for t in ([t] if isinstance(t, ast.Name) else [x for x in ast.walk(t) if isinstance(x, ast.Name)])})
        ccs = {}
        for c in [n for n in ast.walk(tree) if isinstance(n, ast.ClassDef)]:
            ccs[c.name] = sorted({t.id for st in c.body if isinstance(st, (ast.Assign, ast.AnnAssign)) for t in (st.targets if isinstance(st, ast.Assign) else [st.target])
                                  if isinstance(t, ast.Name)})
        cattrs, corder = {}, {}
        for c in [n for n in ast.walk(tree) if isinstance(n, ast.ClassDef)]:
            cattrs[c.name] = canon.stored_attrs(c)
            corder[c.name] = canon.init_attr_order(c)
        ref[rel] = {"consts": consts, "class_consts": ccs, "funcs": funcs, "class_attrs": cattrs, "init_attr_order": corder}
json.dump(out, open(os.path.join(V, "sa", "localnames.json"), "w"), indent=0)
json.dump(ref, open(os.path.join(V, "sa", "reference.json"), "w"), indent=0, sort_keys=True)
print(sum(len(v) for v in out.values()), "functions with locals;", sum(len(v["funcs"]) for v in ref.values()), "functions in the reference inventory")
