#!/venv/bin/python
"""Record, per function of /repo's current tree, the shapes of its binding statements and the local names they bind.
The loader uses this only to alpha-rename locals back to these names when a function's binding statements line up
(a semantics-preserving normalisation that makes the rules insensitive to renamed locals)."""
import ast, json, os, sys
V = os.path.dirname(os.path.dirname(os.path.abspath(__file__)))
sys.path.insert(0, V); sys.dont_write_bytecode = True
os.environ["VERIF_NO_RENAME"] = "1"
from sa.loader import _Canonical, _binding_shapes  # noqa
out = {}
root = sys.argv[1] if len(sys.argv) > 1 else "/repo"
for dp, dn, fns in os.walk(os.path.join(root, "canopen")):
    for fn in sorted(fns):
        if not fn.endswith(".py"):
            continue
        path = os.path.join(dp, fn)
        rel = os.path.relpath(path, root)
        tree = _Canonical().visit(ast.parse(open(path).read()))
        ast.fix_missing_locations(tree)
        d = {}
        def walk(node, prefix):
            for n in getattr(node, "body", []):
                if isinstance(n, ast.ClassDef):
                    walk(n, prefix + n.name + ".")
                elif isinstance(n, ast.FunctionDef):
                    q = prefix + n.name
                    if any(isinstance(x, ast.Attribute) and x.attr == "setter" for x in n.decorator_list):
                        q += ".setter"
                    sh = _binding_shapes(n)
                    if sh:
                        d[q] = sh
                    walk(n, q + ".")
        walk(tree, "")
        if d:
            out[rel] = d
json.dump(out, open(os.path.join(V, "sa", "localnames.json"), "w"), indent=0)
print(sum(len(v) for v in out.values()), "functions recorded")
