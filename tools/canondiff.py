#!/venv/bin/python
"""Dev aid: what is left of a patch after canonicalisation -- unified diff between the reference's canonical source and the
canonical source of /repo + patch, per function (parsing only).

usage: tools/canondiff.py <patch.diff>
"""
import ast, difflib, json, os, shutil, subprocess, sys, tempfile
V = os.path.dirname(os.path.dirname(os.path.abspath(__file__)))
sys.path.insert(0, V)
from sa import loader  # noqa: E402

ref = json.load(open(os.path.join(V, "sa/reference.json")))
tmp = tempfile.mkdtemp(prefix="verif-show.")
shutil.copytree("/repo/canopen", os.path.join(tmp, "canopen"))
subprocess.run(["patch", "-p1", "-s", "-i", os.path.abspath(sys.argv[1])], cwd=tmp, check=True)
touched = sorted({l[6:].strip() for l in open(sys.argv[1]) if l.startswith("+++ b/")})
try:
    repo = loader.Repo(tmp)
    for rel in touched:
        if rel not in ref:
            continue
        mod = repo.mod(rel)
        cur = {}

        def walk(node, prefix):
            for n in getattr(node, "body", []):
                if isinstance(n, ast.ClassDef):
                    walk(n, prefix + n.name + ".")
                elif isinstance(n, ast.FunctionDef):
                    q = prefix + n.name
                    if any(isinstance(d, ast.Attribute) and d.attr == "setter" for d in n.decorator_list):
                        q += ".setter"
                    cur[q] = n
                    walk(n, q + ".")
        walk(mod.tree, "")
        rf = ref[rel]["funcs"]

        def strip(src):
            t = ast.parse(src)
            if not t.body:
                return src
            f = t.body[0]
            if f.body and isinstance(f.body[0], ast.Expr) and isinstance(f.body[0].value, ast.Constant) and isinstance(f.body[0].value.value, str):
                f.body = f.body[1:] or [ast.Pass()]
            f.returns = None
            for a in ast.walk(f.args):
                if isinstance(a, ast.arg):
                    a.annotation = None
            f.decorator_list = []
            return ast.unparse(f)
        for q in sorted(set(cur) | set(rf)):
            if q not in cur:
                print(f"=== {rel}:{q}  REMOVED")
                continue
            b = strip(ast.unparse(cur[q]))
            if q not in rf:
                print(f"=== {rel}:{q}  NEW\n{b}")
                continue
            a = strip(rf[q]["src"])
            if a != b:
                print(f"=== {rel}:{q}")
                for l in difflib.unified_diff(a.splitlines(), b.splitlines(), lineterm="", n=2):
                    if not l.startswith(("---", "+++")):
                        print(l)
finally:
    shutil.rmtree(tmp, ignore_errors=True)
