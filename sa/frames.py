"""E5/E6: OR-term analysis of command bytes and frame-shape analysis (length, stores) for emission sites."""
from __future__ import annotations

import ast
from dataclasses import dataclass, field
from typing import Dict, FrozenSet, List, Optional, Tuple

from .cfg import Node, forward
from .facts import FuncFacts, assigned_targets
from .fold import Scope, StructVal, Unfoldable, dotted, src


class Unrecognised(Exception):
    pass


# ------------------------------------------------------------------------------------------------ terms

def _or_terms(e: ast.expr) -> List[ast.expr]:
    if isinstance(e, ast.BinOp) and isinstance(e.op, ast.BitOr):
        return _or_terms(e.left) + _or_terms(e.right)
    return [e]


@dataclass(frozen=True)
class Term:
    kind: str                    # const | attr | nfield | shift | sym
    value: Optional[int] = None  # const value
    text: str = ""               # attr / operand source (normalised)
    cap: Optional[int] = None    # nfield: K in (K - x) << s
    shift: int = 0
    cond: str = ""               # condition under which a conditional-expression term is present ('' = always)

    def show(self) -> str:
        if self.kind == "const":
            return f"0x{self.value:X}"
        if self.kind == "nfield":
            return f"({self.cap} - {self.text}) << {self.shift}"
        if self.kind == "shift":
            return f"{self.text} << {self.shift}"
        return self.text


def classify_term(ff: FuncFacts, e: ast.expr) -> List[Tuple[Term, bool]]:
    """[(term, always_present)] for one OR-operand."""
    sc = ff.scope
    v = ff.folder.try_fold(e, sc, None)
    if isinstance(v, bool):
        v = int(v)
    if isinstance(v, int):
        return [(Term("const", v), True)]
    if isinstance(e, ast.IfExp):
        a = classify_term(ff, e.body)
        b = classify_term(ff, e.orelse)
        out = []
        cond = ff.norm(e.test, subst=False)
        for t, _ in a:
            if not (t.kind == "const" and t.value == 0):
                out.append((Term(t.kind, t.value, t.text, t.cap, t.shift, cond), False))
        for t, _ in b:
            if not (t.kind == "const" and t.value == 0):
                out.append((Term(t.kind, t.value, t.text, t.cap, t.shift, f"not ({cond})"), False))
        return out
    if isinstance(e, ast.BinOp) and isinstance(e.op, ast.LShift):
        s = ff.folder.try_fold(e.right, sc, None)
        if isinstance(s, int):
            l = e.left
            if isinstance(l, ast.BinOp) and isinstance(l.op, ast.Sub):
                k = ff.folder.try_fold(l.left, sc, None)
                if isinstance(k, int):
                    return [(Term("nfield", None, src(l.right), k, s), True)]
            return [(Term("shift", None, src(l), None, s), True)]
    if isinstance(e, (ast.Attribute, ast.Name)):
        return [(Term("attr", None, src(e)), True)]
    raise Unrecognised(f"OR-term `{src(e)}` is none of: constant, state read, (K - x) << s, x << s, conditional constant")


State = Tuple[FrozenSet[Term], FrozenSet[Term]]


def command_terms(ff: FuncFacts, var: str, want_out: bool = False) -> Dict[Node, Optional[State]]:
    """Forward MUST/MAY dataflow for the OR-terms accumulated in local `var`; returns IN (or OUT) state per node."""
    cfg = ff.cfg

    def terms_of(e) -> Tuple[FrozenSet[Term], FrozenSet[Term]]:
        must, may = set(), set()
        for op in _or_terms(e):
            if isinstance(op, ast.Name) and op.id == var:
                continue
            for t, always in classify_term(ff, op):
                may.add(t)
                if always:
                    must.add(t)
        return frozenset(must), frozenset(may)

    def transfer(n: Node, st):
        a = n.ast
        if n.kind != "stmt" or a is None:
            return st
        if isinstance(a, ast.Assign) and len(a.targets) == 1 and isinstance(a.targets[0], ast.Name) and a.targets[0].id == var:
            must, may = terms_of(a.value)
            if any(isinstance(op, ast.Name) and op.id == var for op in _or_terms(a.value)):
                return (st[0] | must, st[1] | may)
            return (must, may)
        if isinstance(a, ast.AugAssign) and isinstance(a.target, ast.Name) and a.target.id == var:
            if not isinstance(a.op, ast.BitOr):
                raise Unrecognised(f"`{src(a)}`: command byte built with an operator other than |")
            must, may = terms_of(a.value)
            return (st[0] | must, st[1] | may)
        if var in assigned_targets(a):
            raise Unrecognised(f"`{src(a)}`: unexpected binding of {var}")
        return st

    IN, OUT = forward(cfg, (frozenset(), frozenset()), transfer, lambda x, y: (x[0] & y[0], x[1] | y[1]))
    return OUT if want_out else IN


def terms_at(ff: FuncFacts, expr: ast.expr, at: ast.AST) -> State:
    """MUST/MAY terms of the command expression `expr` evaluated at statement `at`."""
    must, may = set(), set()
    node = ff.cfg.node_of(at)
    for op in _or_terms(expr):
        if isinstance(op, ast.Name) and not isinstance(ff.folder.try_fold(op, ff.scope, None), int):
            IN = command_terms(ff, op.id)
            st = IN.get(node)
            if st is None:
                raise Unrecognised(f"{op.id} has no value at line {getattr(at, 'lineno', '?')}")
            if not st[1] and ff.one_def(op.id) is None:
                # not an accumulated local: a parameter or something else
                for t, always in classify_term(ff, op):
                    may.add(t)
                    if always:
                        must.add(t)
                continue
            must |= st[0]
            may |= st[1]
        else:
            for t, always in classify_term(ff, op):
                may.add(t)
                if always:
                    must.add(t)
    return frozenset(must), frozenset(may)


def const_bits(terms) -> int:
    v = 0
    for t in terms:
        if t.kind == "const":
            v |= t.value
    return v


# ------------------------------------------------------------------------------------------------ frames

@dataclass
class Store:
    stmt: ast.AST
    lo: Optional[int]             # byte offset (None when not constant)
    hi: Optional[int]             # exclusive end (None when not constant)
    what: str                     # description of the stored value
    fields: List[ast.expr] = field(default_factory=list)     # packed values (pack_into) or [value]
    fmt: Optional[str] = None
    lo_expr: Optional[ast.expr] = None
    hi_expr: Optional[ast.expr] = None
    value: Optional[ast.expr] = None


@dataclass
class Frame:
    length: Optional[int]
    origin: str                    # 'bytearray(8)' | 'pack' | 'concat' | 'literal'
    create: Optional[ast.AST]
    stores: List[Store]
    parts: List[Tuple[str, ast.expr]] = field(default_factory=list)   # for concat/pack frames
    cmd_ctx: Optional[tuple] = None     # (FuncFacts, stmt) in which parts[0] (the command) is to be evaluated


def _struct_of(ff: FuncFacts, call: ast.Call):
    """('fmt', first_value_arg_index, buffer_arg_index or None, offset_arg_index or None) for pack/pack_into/unpack_from calls."""
    d = dotted(call.func) or ""
    sc = ff.scope
    if d.endswith(".pack_into") or d.endswith(".pack") or d.endswith(".unpack_from") or d.endswith(".unpack"):
        base = call.func.value
        ext = ff.folder.is_ext(base, sc)
        if ext == "struct":
            fmt = ff.folder.try_fold(call.args[0], sc, None) if call.args else None
            return fmt, 1
        v = ff.folder.try_fold(base, sc, None)
        if isinstance(v, StructVal):
            return v.fmt, 0
    return None, None


def frame_at(ff: FuncFacts, expr: ast.expr, at: ast.AST, depth: int = 0) -> Frame:
    """Abstract frame that `expr` denotes at statement `at` (the sink statement)."""
    import struct as _struct
    sc = ff.scope
    if depth > 4:
        raise Unrecognised("frame expression too deep")
    v = ff.folder.try_fold(expr, sc, None)
    if isinstance(v, (bytes, bytearray)):
        return Frame(len(v), "literal", None, [], [("literal", expr)])
    if isinstance(expr, ast.Call):
        d = dotted(expr.func) or ""
        if d == "bytearray" and len(expr.args) == 1:
            n = ff.folder.try_fold(expr.args[0], sc, None)
            if isinstance(n, int):
                return Frame(n, "bytearray", expr, [])
            if isinstance(expr.args[0], ast.Call):          # bytearray(<frame>) / bytes(<frame>): a copy of that frame
                return frame_at(ff, expr.args[0], at, depth + 1)
        if d == "bytes" and len(expr.args) == 1 and isinstance(expr.args[0], ast.Call):
            return frame_at(ff, expr.args[0], at, depth + 1)
        fmt, first = _struct_of(ff, expr)
        if fmt is not None and d.endswith(".pack"):
            return Frame(_struct.calcsize(fmt), "pack", expr, [], [(fmt, a) for a in expr.args[first:]])
    if isinstance(expr, ast.BinOp) and isinstance(expr.op, ast.Add):
        a = frame_at(ff, expr.left, at, depth + 1)
        b = frame_at(ff, expr.right, at, depth + 1)
        ln = None if a.length is None or b.length is None else a.length + b.length
        return Frame(ln, "concat", None, [], a.parts + b.parts if a.parts or b.parts else [("left", expr.left), ("right", expr.right)], a.cmd_ctx)
    if isinstance(expr, ast.Call) and isinstance(expr.func, ast.Attribute) and expr.func.attr == "ljust" and len(expr.args) == 2:
        k = ff.folder.try_fold(expr.args[0], sc, None)
        pad = ff.folder.try_fold(expr.args[1], sc, None)
        if isinstance(k, int):
            # length k provided len(base) <= k: discharged by the caller through intervals
            inner = expr.func.value
            lo, hi = ff.interval(ast.Call(func=ast.Name(id="len", ctx=ast.Load()), args=[inner], keywords=[]), at)
            if hi is not None and hi <= k:
                return Frame(k, "ljust", None, [], [("ljust", expr), ("pad", ast.Constant(value=pad))])
            raise Unrecognised(f"`{src(expr)}`: cannot show len({src(inner)}) <= {k} at this point (interval [{lo}, {hi}])")
    if isinstance(expr, ast.Name):
        return _frame_of_var(ff, expr.id, at)
    if isinstance(expr, ast.Attribute):
        d = dotted(expr)
        if d and d.startswith("self."):
            # attribute set in __init__ of the same class (e.g. _exp_header)
            cls = ff.func.cls
            if cls is not None:
                init = ff.repo.init_attrs(cls).get(d[5:])
                # find the non-None assignment in __init__
                f_init = cls.methods.get("__init__")
                if f_init is not None:
                    cands = [n for n in ast.walk(f_init.node) if isinstance(n, ast.Assign) and dotted(n.targets[0]) == d
                             and not (isinstance(n.value, ast.Constant) and n.value.value is None)]
                    if len(cands) == 1:
                        from .rules.common import ff_for as _  # noqa
                        fi = FuncFacts(ff.repo, ff.folder, f_init, "E6")
                        fr = frame_at(fi, cands[0].value, cands[0], depth + 1)
                        fr.origin = "attr:" + fr.origin
                        fr.create = cands[0]
                        fr.cmd_ctx = (fi, cands[0])
                        return fr
    raise Unrecognised(f"frame expression `{src(expr)}` has no recognised shape")


def _frame_of_var(ff: FuncFacts, var: str, at: ast.AST) -> Frame:
    from .rules.common import ReachingDefs
    import struct as _struct
    cfg = ff.cfg
    sink = cfg.node_of(at)
    rd = getattr(ff, "_rd", None)
    if rd is None:
        rd = ReachingDefs(cfg)
        ff._rd = rd
    defs = [d for d in rd.defs_at(sink, var)]
    creations = [d for d in defs if isinstance(d, ast.Assign) and len(d.targets) == 1 and isinstance(d.targets[0], ast.Name)]
    if len(creations) > 1 and len({ast.unparse(c.value) for c in creations}) == 1 and all(cfg.node_of(c) is not None for c in creations):
        # the same creation written once per branch (`response = bytearray(8)` in both arms of an if): one abstract frame whose
        # stores are those that follow either creation on the way to the sink
        cnodes = [cfg.node_of(c) for c in creations]
        base = frame_at(ff, creations[0].value, creations[0], 1)
        stores_m: List[Store] = []
        for n in cfg.nodes:
            if n.kind != "stmt" or n in cnodes:
                continue
            if n is sink and not _stores_into(n.ast, var):
                continue
            if not any(cfg.dominates(c, n) and (n is sink or n in cfg.reach_from(c, avoid=lambda x: x is sink)) for c in cnodes):
                continue
            if n is not sink and sink not in cfg.reach_from(n, avoid=lambda x: x in cnodes):
                continue
            st_ = _store_of(ff, n.ast, var)
            if st_ is not None:
                stores_m.append(st_)
        stores_m.sort(key=lambda s_: getattr(s_.stmt, "lineno", 0))
        return Frame(base.length, base.origin, creations[0], stores_m, base.parts, base.cmd_ctx)
    if len(defs) != 1 or len(creations) != 1:
        # stores through subscripts count as defs in ReachingDefs; fall back to the dominating plain assignment
        cands = [n for n in cfg.nodes if n.kind == "stmt" and isinstance(n.ast, ast.Assign) and len(n.ast.targets) == 1
                 and isinstance(n.ast.targets[0], ast.Name) and n.ast.targets[0].id == var and cfg.dominates(n, sink)]
        if not cands:
            allc = [n for n in cfg.nodes if n.kind == "stmt" and isinstance(n.ast, ast.Assign) and len(n.ast.targets) == 1
                    and isinstance(n.ast.targets[0], ast.Name) and n.ast.targets[0].id == var and sink in cfg.reach_from(n)]
            from .rules.common import must_pass as _mp
            if len(allc) > 1 and len({ast.unparse(n.ast.value) for n in allc}) == 1 and _mp(cfg, lambda n: n in allc, to_nodes=[sink]) is None:
                # the same creation written once per branch (`response = bytearray(8)` in both arms of an if), one of them on
                # every path: one abstract frame whose stores are those that follow either creation on the way to the sink
                base = frame_at(ff, allc[0].ast.value, allc[0].ast, 1)
                stores_m: List[Store] = []
                for n in cfg.nodes:
                    if n.kind != "stmt" or n in allc:
                        continue
                    if n is sink and not _stores_into(n.ast, var):
                        continue
                    if not any(cfg.dominates(c, n) or n in cfg.reach_from(c) for c in allc):
                        continue
                    if n is not sink and sink not in cfg.reach_from(n, avoid=lambda x: x in allc):
                        continue
                    st_ = _store_of(ff, n.ast, var)
                    if st_ is not None:
                        stores_m.append(st_)
                stores_m.sort(key=lambda s_: getattr(s_.stmt, "lineno", 0))
                return Frame(base.length, base.origin, allc[0].ast, stores_m, base.parts, base.cmd_ctx)
            raise Unrecognised(f"no single creation of `{var}` reaches line {getattr(at, 'lineno', '?')}")
        # the latest dominating creation
        cands.sort(key=lambda n: len(cfg.dominators()[n]))
        cnode = cands[-1]
    else:
        cnode = cfg.node_of(creations[0])
    create = cnode.ast
    base = frame_at(ff, create.value, create, 1)
    # stores between creation and sink
    stores: List[Store] = []
    region = cfg.reach_from(cnode, avoid=lambda n: n is sink)
    other_creations = [n for n in cfg.nodes if n.kind == "stmt" and isinstance(n.ast, ast.Assign) and len(n.ast.targets) == 1
                       and isinstance(n.ast.targets[0], ast.Name) and n.ast.targets[0].id == var and n is not cnode]
    for n in cfg.nodes:
        if n.kind != "stmt" or n is cnode or n is sink and not _stores_into(n.ast, var):
            continue
        if n not in region and n is not sink:
            continue
        if not cfg.dominates(cnode, n):
            continue
        # must be able to reach the sink without passing another creation
        if n is not sink:
            fw = cfg.reach_from(n, avoid=lambda x: x in other_creations)
            if sink not in fw:
                continue
        st = _store_of(ff, n.ast, var)
        if st is not None:
            stores.append(st)
    stores.sort(key=lambda s: getattr(s.stmt, "lineno", 0))
    return Frame(base.length, base.origin, create, stores, base.parts, base.cmd_ctx)


def _stores_into(a: ast.AST, var: str) -> bool:
    return False


def _store_of(ff: FuncFacts, a: ast.AST, var: str) -> Optional[Store]:
    import struct as _struct
    sc = ff.scope
    if isinstance(a, ast.Assign) and len(a.targets) == 1 and isinstance(a.targets[0], ast.Subscript) and dotted(a.targets[0].value) == var:
        sl = a.targets[0].slice
        if isinstance(sl, ast.Slice):
            lo = ff.folder.try_fold(sl.lower, sc, None) if sl.lower is not None else 0
            hi = ff.folder.try_fold(sl.upper, sc, None) if sl.upper is not None else None
            return Store(a, lo if isinstance(lo, int) else None, hi if isinstance(hi, int) else None, src(a.value), [a.value],
                         lo_expr=sl.lower, hi_expr=sl.upper, value=a.value)
        k = ff.folder.try_fold(sl, sc, None)
        return Store(a, k if isinstance(k, int) else None, k + 1 if isinstance(k, int) else None, src(a.value), [a.value], lo_expr=sl, value=a.value)
    if isinstance(a, ast.Expr) and isinstance(a.value, ast.Call):
        c = a.value
        d = dotted(c.func) or ""
        if d.endswith(".pack_into"):
            fmt, first = _struct_of(ff, c)
            if fmt is None:
                raise Unrecognised(f"`{src(c)}`: format does not fold")
            buf = c.args[first]
            if dotted(buf) != var:
                return None
            off = ff.folder.try_fold(c.args[first + 1], sc, None)
            size = _struct.calcsize(fmt)
            return Store(a, off if isinstance(off, int) else None, off + size if isinstance(off, int) else None, src(c), list(c.args[first + 2:]), fmt)
    if isinstance(a, (ast.AugAssign,)) and dotted(getattr(a.target, "value", None) or ast.Constant(None)) == var:
        raise Unrecognised(f"`{src(a)}`: augmented store into the frame")
    return None
