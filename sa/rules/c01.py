"""C01 -- SDO client transfers exactly the caller's bytes in conformant CiA 301 frames."""
from __future__ import annotations

import ast

from .. import oracles as O
from ..cfg import typestate
from ..facts import FuncFacts
from ..fold import Scope, Unfoldable, dotted, src
from ..frames import Unrecognised, frame_at, terms_at
from .common import (attr_stores, conj_of_facts, ctx, ff_for, find_calls, must_pass, node_calls, own_nodes,
                     path_text, substitute_src)
from .sdoframes import CLIENT, check_layout, check_length, check_nfield_range, check_stores, command_expr, sinks

CL = "canopen/sdo/client.py"
NET = "canopen/network.py"
OD = "canopen/objectdictionary/__init__.py"

EXPLANATION = (
    "Seven non-block client emission sites + the scanner's literal probe: R1 frame length = 8 on every path (bytearray(8) "
    "+ width-preserving stores, or pack + ljust under a dominating length guard); R2 command byte as MUST/MAY OR-terms "
    "against the CiA 301 layout of the step (fixed bits, optional flags, toggle, n field shift/capacity); R3 n-field "
    "operand interval fits the field; R4 chunk conservation: the count that sizes the data slice and the n field is the "
    "one added to pos and returned; R5 toggle typestate (starts 0, read before flip, one flip per emitted segment on every "
    "normal path, close reads without flipping); R6 last-segment flag only under size reached / in close when not done, "
    "paired with _done, write refuses after _done; R7 declared size is the constructor's size, flag and field in the same "
    "branch, download() declares len(data) and writes data; R8 multiplexer parameters reach the pack unchanged; R9 stores "
    "only into defined fields of a zero-initialised frame, pad byte 0; R10 response field extraction matches the validated "
    "response's layout; R11 upload() truncates exactly the entries whose type has a fixed-size codec; R12 stale responses "
    "are flushed completely before every request; R15 ODVariable.__len__ gives every data type its width (upload truncation uses it; shared with C04.R5); R16 readinto() stores the whole segment it consumed and reports its length; R14 structural assumptions shared by all properties: no class-level mutable object is mutated in place by instances, no method re-runs the constructor, logging statements cannot raise (typed eager formatting, divisions), no mutable default argument is kept or mutated, no new truth-value test of a None-able number, a look-up memory the pinned tree does not have is keyed by all its inputs (arithmetic keys folded over a grid of addresses) and, on the serving side, emptied somewhere."
    ' R1 also: index / subindex reach the request unchanged (re-bound only to translate a name).'
    ' R6 also: the stream is marked done before the last segment is exchanged; R11 also: a response longer than the declared size is cut (size conditions evaluated).'
    ' R16 also: the buffer SdoClient.open() gives the BufferedReader holds a whole segment for every accepted buffering value (folded for 2..8, 64, 1024, -1); R6 also: the last-segment predicate is decided by value over (size, pos, bytes).'
)
ASSUMPTIONS = [
    "not decided: byte equality for every payload length and chunking; io.BufferedWriter/Reader/TextIOWrapper behaviour",
    "the io layer re-offers what write() did not report as sent (CPython RawIOBase contract)",
]

SITE_STEP = {
    "SdoClient.abort": "abort",
    "ReadableStream.__init__": "upload_initiate",
    "ReadableStream.read": "upload_segment",
    "WritableStream.__init__": "download_initiate_seg",
    "WritableStream.close": "download_segment_last",
}


def run(chk):
    repo, folder = ctx(chk)
    n_sites = 0
    seg_sinks = {}          # function qualname -> [sink stmt] of segment emissions (for the toggle typestate)
    for fq in ("SdoClient.abort", "ReadableStream.__init__", "ReadableStream.read", "WritableStream.__init__",
               "WritableStream.write", "WritableStream.close"):
        f = repo.func(CL, fq, "C01")
        ff = ff_for(chk, f, "C01")
        for call, stmt in sinks(ff):
            if dotted(call.func) in ("self.send_request",) and fq != "SdoClient.abort":
                continue
            arg = call.args[0]
            step = SITE_STEP.get(fq)
            if fq == "WritableStream.write":
                g = [(src(e), p) for e, p in ff.facts_at(stmt)]
                step = "download_initiate_exp" if ("self._exp_header is not None", True) in g else "download_segment"
            lay = CLIENT[step]
            site = f"{CL}:{fq} | {lay.name}"
            n_sites += 1
            try:
                fr = frame_at(ff, arg, stmt)
            except Unrecognised as e:
                chk.unk("R1", site, f.loc(stmt), str(e))
                continue
            check_length(chk, "R1", site, f.loc(stmt), fr)
            ce = command_expr(fr)
            if ce is None:
                chk.unk("R2", site, f.loc(stmt), "no store to byte 0 of the frame found")
                continue
            cexpr, cstmt = ce
            cff = ff
            if fr.cmd_ctx is not None:
                cff, cstmt = fr.cmd_ctx
                chk.saw(cff.func)
            try:
                must, may = terms_at(cff, cexpr, cstmt)
            except Unrecognised as e:
                chk.unk("R2", site, cff.func.loc(cstmt), str(e))
                continue
            check_layout(chk, "R2", site, cff.func.loc(cstmt), lay, set(must), set(may))
            check_nfield_range(chk, "R3", site, cff, cstmt, lay, set(must))
            check_stores(chk, "R9", site, ff, fr, lay)
            if step in ("upload_segment", "download_segment", "download_segment_last"):
                seg_sinks.setdefault(fq, []).append(stmt)
            # R8 multiplexer
            if step in ("upload_initiate", "download_initiate_seg", "download_initiate_exp"):
                fields = None
                for st in fr.stores:
                    if st.lo == 0 and st.fmt is not None:
                        fields = (st.fmt, st.fields, st.stmt, ff)
                if fields is None and fr.parts and len(fr.parts) >= 3 and isinstance(fr.parts[0][0], str) and fr.parts[0][0].startswith("<"):
                    fields = (fr.parts[0][0], [p[1] for p in fr.parts[:3]], fr.create, cff)
                if fields is None:
                    chk.unk("R8", site, f.loc(stmt), "multiplexer store not found")
                else:
                    fmt, vals, st_, f2 = fields
                    names = [src(v) for v in vals]
                    params = f2.func.params
                    reb = [n for n in own_nodes(f2.func.node) if isinstance(n, ast.stmt) and {"index", "subindex"} & __import__("sa.facts", fromlist=["x"]).assigned_targets(n)]
                    chk.check(fmt == "<BHB" and names[1:3] == ["index", "subindex"] and "index" in params and "subindex" in params and not reb, "R8",
                              f"{site} | multiplexer", f2.func.loc(st_), f"header packed as {fmt!r} ({', '.join(names)}); expected '<BHB' (command, index, subindex) from the caller's arguments")
            # R9 padding of the expedited frame
            if step == "download_initiate_exp":
                pads = [p for k, p in fr.parts if k == "pad"]
                chk.check(len(pads) == 1 and folder.try_fold(pads[0], ff.scope, None) == b"\x00", "R9", f"{site} | pad byte", f.loc(stmt), "expedited data is not padded with zero bytes")
                lj = [p for k, p in fr.parts if k == "ljust"]
                ok = False
                if lj:
                    base = lj[0].func.value
                    d = ff.one_def(base.id) if isinstance(base, ast.Name) else None
                    ok = src(base) == "b" or (d is not None and src(d) in ("b.tobytes() if isinstance(b, memoryview) else b", "bytes(b)", "b"))
                chk.check(ok, "R4", f"{site} | payload is the caller's buffer", f.loc(stmt), f"expedited payload is {src(lj[0]) if lj else '?'}; expected the bytes of `b`")
    chk.floor("R1", n_sites, 7, "non-block client emission sites")

    # scanner probe (literal frame)
    sr = repo.func(NET, "NodeScanner.search", "C01")
    fsr = ff_for(chk, sr, "C01")
    for c in find_calls(sr.node, ".send_message"):
        pl = c.args[1]
        if isinstance(pl, ast.Name) and fsr.one_def(pl.id) is not None:
            pl = fsr.one_def(pl.id)
        v = folder.try_fold(pl, Scope(sr.mod), None)
        ok = isinstance(v, (bytes, bytearray)) and len(v) == 8 and v[0] == 0x40 and v[4:] == b"\0\0\0\0"
        chk.check(ok, "R1", f"{NET}:NodeScanner.search | probe frame", sr.loc(c), f"probe {v!r} is not an 8-byte initiate-upload request")

    _chunks(chk, repo, folder)
    _toggle(chk, repo, folder, seg_sinks)
    _last_segment(chk, repo, folder)
    _declared_size(chk, repo, folder)
    _decode(chk, repo, folder)
    _truncation(chk, repo, folder)
    # the next transfer's answer must not be a leftover of this one ("an upload returns exactly the bytes the server holds")
    from . import shared
    shared.client_flush(chk, "R12")


# ---------------------------------------------------------------------------------------------------- R4
def _chunks(chk, repo, folder):
    f = repo.func(CL, "WritableStream.write", "C01.R4")
    ff = ff_for(chk, f, "C01.R4")
    rets = [n for n in own_nodes(f.node) if isinstance(n, ast.Return) and n.value is not None and not isinstance(n.value, ast.Constant)]
    chk.floor("R4", len(rets), 1, "count returned by write")
    incs = [n for n in own_nodes(f.node) if isinstance(n, ast.AugAssign) and dotted(n.target) == "self.pos" and isinstance(n.op, ast.Add)]
    chk.check(len(incs) == 1, "R4", f"{CL}:WritableStream.write | one position update", f.loc(), f"{len(incs)} updates of self.pos")
    cnt = src(rets[0].value) if rets else "?"
    for i in incs:
        chk.check(src(i.value) == cnt, "R4", f"{CL}:WritableStream.write | pos advances by the returned count", f.loc(i), f"pos += {src(i.value)} but {cnt} is returned")
    # definitions of the count, one per branch
    defs = [n for n in own_nodes(f.node) if isinstance(n, ast.Assign) and isinstance(n.targets[0], ast.Name) and n.targets[0].id == cnt]
    chk.check(len(defs) == 2, "R4", f"{CL}:WritableStream.write | count defined once per branch", f.loc(), f"{len(defs)} definitions of {cnt}")
    for d in defs:
        g = [(src(e), p) for e, p in ff.facts_at(d)]
        if ("self._exp_header is not None", True) in g:
            chk.check(src(d.value) == "len(b)", "R4", f"{CL}:WritableStream.write | expedited count", f.loc(d), f"{cnt} = {src(d.value)}; the whole buffer was sent, expected len(b)")
        else:
            chk.check(ff.is_form(d.value, "min(len(b), 7)", "min(7, len(b))"), "R4", f"{CL}:WritableStream.write | segment count", f.loc(d),
                      f"{cnt} = {src(d.value)}; a segment carries min(len(b), 7) bytes")
            # the same count sizes the data slice (checked in R9/data store) and the n field (R2): here: the slice source is b
            st = [n for n in own_nodes(f.node) if isinstance(n, ast.Assign) and isinstance(n.targets[0], ast.Subscript) and dotted(n.targets[0].value) == "request"
                  and isinstance(n.targets[0].slice, ast.Slice)]
            for s_ in st:
                v = s_.value
                ok = isinstance(v, ast.Subscript) and src(v.value) == "b" and isinstance(v.slice, ast.Slice) and src(v.slice.upper) == cnt \
                    and (v.slice.lower is None or src(v.slice.lower) == "0")
                chk.check(ok, "R4", f"{CL}:WritableStream.write | segment data is the head of the buffer", f.loc(s_), f"data slice is {src(v)}; expected b[0:{cnt}]")
    # the expedited frame is only built from a buffer that holds all announced bytes
    for call, stmt in sinks(ff):
        g = [(ff.norm(e, subst=False), p) for e, p in ff.facts_at(stmt)]
        if (ff.canon("self._exp_header is not None"), True) in g:
            ok = any(p and t in (ff.canon("len(b) >= self.size"), ff.canon("self.size <= len(b)")) for t, p in g) or any((not p) and t == ff.canon("len(b) < self.size") for t, p in g)
            chk.check(ok, "R4", f"{CL}:WritableStream.write | expedited frame only with all announced bytes", f.loc(stmt),
                      f"the expedited request is sent under {g}: with fewer bytes than the announced size the frame is padded with zeros and the server stores them")
            node = ff.cfg.node_of(stmt)
            wit = must_pass(ff.cfg, lambda n: n.kind == "stmt" and isinstance(n.ast, ast.Assign) and any(dotted(t) == "self._done" for t in n.ast.targets)
                            and folder.try_fold(n.ast.value, ff.scope, None) is True, from_node=node)
            chk.check(wit is None, "R6", f"{CL}:WritableStream.write | expedited download marks the stream done", f.loc(stmt), "a second write() would send the value again")
    # early `return 0` only before anything was emitted
    for r in [n for n in own_nodes(f.node) if isinstance(n, ast.Return) and isinstance(n.value, ast.Constant)]:
        node = ff.cfg.node_of(r)
        before = [n for n in ff.cfg.nodes if (node_calls(n, "request_response") or (n.kind == "stmt" and isinstance(n.ast, ast.AugAssign) and "_toggle" in src(n.ast)))
                  and node in ff.cfg.reach_from(n)]
        chk.check(not before, "R4", f"{CL}:WritableStream.write | `return {src(r.value)}` without side effects", f.loc(r),
                  "the stream reports nothing written after it already changed protocol state (toggle) or sent a frame")
    f = repo.func(CL, "ReadableStream.read", "C01.R4")
    ff = ff_for(chk, f, "C01.R4")
    rets = [n for n in own_nodes(f.node) if isinstance(n, ast.Return) and n.value is not None and "response" in src(n.value)]
    for r in rets:
        chk.check(ff.is_form(r.value, "response[1:length + 1]"), "R4", f"{CL}:ReadableStream.read | returned slice", f.loc(r), f"returns {src(r.value)}; expected response[1:length + 1]")
    for i in [n for n in own_nodes(f.node) if isinstance(n, ast.AugAssign) and dotted(n.target) == "self.pos"]:
        chk.check(src(i.value) == "length", "R4", f"{CL}:ReadableStream.read | pos advances by the segment length", f.loc(i), src(i))
    # expedited data is handed out exactly once, and nothing after the stream is done
    f = repo.func(CL, "ReadableStream.read", "C01.R4")
    ff = ff_for(chk, f, "C01.R4")
    exp_rets = [n for n in own_nodes(f.node) if isinstance(n, ast.Return) and n.value is not None and src(n.value) == "self.exp_data"]
    chk.check(len(exp_rets) == 1, "R4", f"{CL}:ReadableStream.read | expedited data returned from one place", f.loc(), f"{len(exp_rets)} returns of self.exp_data")
    for r in exp_rets:
        node = ff.cfg.node_of(r)
        dn = [ff.cfg.node_of(s_) for s_ in attr_stores(f.node, "_done") if folder.try_fold(s_.value, ff.scope, None) is True]
        ok = any(ff.cfg.dominates(d, node) and {x for x in (ff.facts_in().get(d) or ())} >= {x for x in (ff.facts_in().get(node) or ()) if "exp_data" in x[0]} for d in dn)
        chk.check(ok, "R4", f"{CL}:ReadableStream.read | expedited data handed out once", f.loc(r),
                  "self.exp_data is returned without marking the stream done: a reader that loops until EOF (readall, BufferedReader) gets the value again and again")
        from .common import always_exits
        first = [t for t in ff.cfg.nodes if t.kind == "test" and src(t.ast) == "self._done" and getattr(t, "owner", None) is not None
                 and always_exits(t.owner.body) and ff.cfg.dominates(t, node)]
        chk.check(bool(first), "R4", f"{CL}:ReadableStream.read | nothing after EOF", f.loc(r), "expedited data can be returned although the stream is done: the done check must come first")
    f = repo.func(CL, "ReadableStream.readinto", "C01.R4")
    chk.saw(f)
    body = [src(s_) for s_ in f.node.body if not (isinstance(s_, ast.Expr) and isinstance(s_.value, ast.Constant))]
    chk.check(body == ["data = self.read(7)", "b[:len(data)] = data", "return len(data)"], "R4", f"{CL}:ReadableStream.readinto | hands on exactly what read returned", f.loc(), f"{body}")


# ---------------------------------------------------------------------------------------------------- R5
def _toggle(chk, repo, folder, seg_sinks):
    for cname in ("ReadableStream", "WritableStream"):
        init = repo.func(CL, f"{cname}.__init__", "C01.R5")
        st = attr_stores(init.node, "_toggle")
        chk.check(len(st) == 1 and folder.try_fold(st[0].value, Scope(init.mod), None) == 0, "R5", f"{CL}:{cname}.__init__ | toggle starts at 0", init.loc(), "self._toggle is not initialised to 0")
    tb = folder.try_fold(ast.Name(id="TOGGLE_BIT", ctx=ast.Load()), Scope(repo.mod(CL)), None)
    chk.check(tb == 0x10, "R5", f"{CL}:TOGGLE_BIT", CL, f"TOGGLE_BIT = {tb!r}; CiA 301: bit 4")
    for fq, terminal in (("ReadableStream.read", False), ("WritableStream.write", False), ("WritableStream.close", True)):
        f = repo.func(CL, fq, "C01.R5")
        ff = ff_for(chk, f, "C01.R5")
        sends = {id(s_) for s_ in seg_sinks.get(fq, [])}

        def kind(n):
            a = n.ast
            if n.kind != "stmt" or a is None:
                return None
            if id(a) in sends:
                return "send"
            if isinstance(a, ast.AugAssign) and dotted(a.target) == "self._toggle":
                if isinstance(a.op, ast.BitXor) and folder.try_fold(a.value, ff.scope, None) == 0x10:
                    return "flip"
                return "badflip"
            if isinstance(a, ast.Assign) and any(dotted(t) == "self._toggle" for t in a.targets):
                return "badflip"
            if isinstance(a, (ast.Assign, ast.AugAssign)) and "self._toggle" in src(a.value) and not (isinstance(a, ast.AugAssign) and dotted(a.target) == "self._toggle"):
                return "read"
            return None

        def step(n, s):
            reads, flips, snd = s
            k = kind(n)
            if k == "read":
                if flips:
                    return ["ERR:the toggle bit is read into the command after it was flipped (frame carries the next segment's toggle)"]
                return [(1, flips, snd)]
            if k == "flip":
                if flips:
                    return ["ERR:toggle flipped twice for one segment"]
                return [(reads, 1, snd)]
            if k == "badflip":
                return ["ERR:self._toggle is changed other than by ^= TOGGLE_BIT"]
            if k == "send":
                if not reads:
                    return ["ERR:segment emitted without the toggle bit"]
                return [(reads, flips, snd + 1)]
            return [s]
        ex, rz, errs, IN = typestate(ff.cfg, [(0, 0, 0)], step)
        chk.product_states += sum(len(v) for v in IN.values() if v)
        for n, s, why in errs:
            chk.bad("R5", f"{CL}:{fq} | {why[:60]}", f.loc(n.ast), why)
        bad = [s for s in ex if (s[2] != s[1] and not terminal) or (terminal and s[1] != 0) or s[2] > 1]
        chk.check(not bad and not errs, "R5", f"{CL}:{fq} | one flip per emitted segment", f.loc(),
                  f"a normal path ends with (toggle reads, flips, segments sent) = {sorted(bad)}: " +
                  ("the closing segment must not flip" if terminal else "a flip without an emitted segment (or the reverse) desynchronises the toggle"))
    # the response's toggle is compared with the pre-flip value
    f = repo.func(CL, "ReadableStream.read", "C01.R5")
    ff = ff_for(chk, f, "C01.R5")
    tests = [n for n in ff.cfg.nodes if n.kind == "test" and ff.is_form(n.ast, "res_command & TOGGLE_BIT != self._toggle")]
    flips = [n for n in ff.cfg.nodes if n.kind == "stmt" and isinstance(n.ast, ast.AugAssign) and dotted(n.ast.target) == "self._toggle"]
    chk.check(bool(tests) and all(not any(t in ff.cfg.reach_from(fl) for t in tests) for fl in flips), "R5", f"{CL}:ReadableStream.read | response toggle compared before the flip", f.loc(),
              "the response's toggle bit is compared with the already flipped value (or not at all)")


# ---------------------------------------------------------------------------------------------------- R6
def _last_segment(chk, repo, folder):
    f = repo.func(CL, "WritableStream.write", "C01.R6")
    ff = ff_for(chk, f, "C01.R6")
    adds = [n for n in own_nodes(f.node) if isinstance(n, ast.AugAssign) and isinstance(n.target, ast.Name) and folder.try_fold(n.value, ff.scope, None) == 1
            and isinstance(n.op, ast.BitOr)]
    chk.floor("R6", len(adds), 1, "NO_MORE_DATA added in write")
    for a in adds:
        g = [ff.norm(e) for e, p in ff.facts_at(a) if p]
        ok1 = "self.size is not None" in g
        ok2 = any(x in (ff.canon("self.pos + min(len(b), 7) >= self.size"), ff.canon("self.pos + bytes_sent >= self.size"), ff.canon("self.size <= self.pos + min(len(b), 7)")) for x in g)
        if not ok2:
            # decided by value: any condition over size, pos and the bytes of this segment that is true exactly when pos + bytes >= size
            for x in g:
                if "self.size" in x and "self.pos" in x:
                    t_ = x.replace("min(len(b), 7)", "B_").replace("bytes_sent", "B_").replace("self.size", "S_").replace("self.pos", "P_")
                    try:
                        e_ = ast.parse(t_, mode="eval").body
                        same = all(bool(folder.fold(e_, Scope(f.mod, None, {"S_": S_, "P_": P_, "B_": B_}))) == (P_ + B_ >= S_)
                                   for S_ in range(0, 23) for P_ in range(0, S_ + 1) for B_ in range(0, 8))
                    except Exception:  # noqa
                        same = False
                    ok2 = ok2 or same
        chk.check(ok1 and ok2, "R6", f"{CL}:WritableStream.write | last-segment flag when the declared size is reached", f.loc(a),
                  f"NO_MORE_DATA is set under {g}; expected `self.size is not None and self.pos + bytes_sent >= self.size`")
        # paired with _done = True in the same block
        dn = [s_ for s_ in attr_stores(f.node, "_done") if folder.try_fold(s_.value, ff.scope, None) is True]
        same = [s_ for s_ in dn if {x for x in (ff.facts_in().get(ff.cfg.node_of(s_)) or ())} >= {x for x in (ff.facts_in().get(ff.cfg.node_of(a)) or ())}]
        chk.check(bool(same), "R6", f"{CL}:WritableStream.write | flag paired with _done", f.loc(a), "the last segment is flagged without marking the stream done: close() would send a second last segment")
        # ... and marked done before the exchange that can fail: when the server aborts or stays silent on the last segment, close()
        # (which always follows) must not send another one
        an = ff.cfg.node_of(a)
        exch = [n for n in ff.cfg.reach_from(an) if n.kind == "stmt" and any(isinstance(c_, ast.Call) and isinstance(c_.func, ast.Attribute) and c_.func.attr in ("request_response", "send_request")
                                                                             for c_ in ast.walk(n.ast))]
        dnodes = [ff.cfg.node_of(s_) for s_ in dn]
        wit = must_pass(ff.cfg, lambda n: n in dnodes, from_node=an, to_nodes=exch) if exch else None
        chk.check(wit is None, "R6", f"{CL}:WritableStream.write | marked done before the last segment is exchanged", f.loc(a),
                  f"the last segment goes out before `self._done = True`: if that exchange fails, close() sends a second 'last' segment into a finished transfer ({path_text(wit) if wit else ''})")
    first = f.node.body[0] if not (isinstance(f.node.body[0], ast.Expr) and isinstance(f.node.body[0].value, ast.Constant)) else f.node.body[1]
    chk.check(isinstance(first, ast.If) and src(first.test) == "self._done" and isinstance(first.body[0], ast.Raise), "R6", f"{CL}:WritableStream.write | refuses after the last segment",
              f.loc(first), "write() does not refuse data after the last segment was sent")
    c = repo.func(CL, "WritableStream.close", "C01.R6")
    fc = ff_for(chk, c, "C01.R6")
    for call, stmt in sinks(fc):
        g = [(src(e), p) for e, p in fc.facts_at(stmt)]
        chk.check(("self._done", False) in g and ("self._exp_header", False) in g, "R6", f"{CL}:WritableStream.close | closing segment only when not done", c.loc(stmt),
                  f"closing segment sent under {g}; expected `not self._done and not self._exp_header`")
        node = fc.cfg.node_of(stmt)
        wit = must_pass(fc.cfg, lambda n: n.kind == "stmt" and isinstance(n.ast, ast.Assign) and any(dotted(t) == "self._done" for t in n.ast.targets)
                        and folder.try_fold(n.ast.value, fc.scope, None) is True, from_node=node)
        chk.check(wit is None, "R6", f"{CL}:WritableStream.close | marks done", c.loc(stmt), "closing twice would send a second last segment")


# ---------------------------------------------------------------------------------------------------- R7
def _declared_size(chk, repo, folder):
    f = repo.func(CL, "WritableStream.__init__", "C01.R7")
    ff = ff_for(chk, f, "C01.R7")
    st = attr_stores(f.node, "size")
    chk.check(len(st) == 1 and src(st[0].value) == "size", "R7", f"{CL}:WritableStream.__init__ | self.size is the declared size", f.loc(), "self.size is not the constructor argument")
    packs = [c for c in find_calls(f.node, "struct.pack_into") if folder.try_fold(c.args[0], ff.scope, None) == "<L"]
    chk.floor("R7", len(packs), 1, "size field store in the initiate frame")
    for c in packs:
        ok = folder.try_fold(c.args[2], ff.scope, None) == 4 and src(c.args[3]) == "size"
        chk.check(ok, "R7", f"{CL}:WritableStream.__init__ | size field", f.loc(c), f"{src(c)}; expected the declared size as '<L' at offset 4")
        g = [(src(e), p) for e, p in ff.facts_at(ff.stmt_of(c))]
        chk.check(("size is not None", True) in g, "R7", f"{CL}:WritableStream.__init__ | size field only when declared", f.loc(c), f"size stored under {g}")
    flags = [n for n in own_nodes(f.node) if isinstance(n, ast.AugAssign) and folder.try_fold(n.value, ff.scope, None) == 1 and isinstance(n.op, ast.BitOr)]
    for a in flags:
        g = [(src(e), p) for e, p in ff.facts_at(a)]
        chk.check(("size is not None", True) in g, "R7", f"{CL}:WritableStream.__init__ | size flag only when declared", f.loc(a), f"SIZE_SPECIFIED set under {g}")
    chk.check(len(flags) == len(packs), "R7", f"{CL}:WritableStream.__init__ | flag and field together", f.loc(), "size flag and size field are not set in the same places")
    d = repo.func(CL, "SdoClient.download", "C01.R7")
    chk.saw(d)
    opens = find_calls(d.node, "self.open")
    writes = find_calls(d.node, ".write")
    ok = len(opens) == 1 and len(writes) == 1
    if ok:
        kw = {k.arg: src(k.value) for k in opens[0].keywords}
        pos = [src(a) for a in opens[0].args]
        ok = kw.get("size") == "len(data)" and pos[:2] == ["index", "subindex"] and [src(a) for a in writes[0].args] == ["data"] and kw.get("force_segment") == "force_segment"
    chk.check(ok, "R7", f"{CL}:SdoClient.download | declares len(data) and writes data", d.loc(), "download() does not declare the size of exactly the data it writes")
    o = repo.func(CL, "SdoClient.open", "C01.R7")
    chk.saw(o)
    ws = [c for c in ast.walk(o.node) if isinstance(c, ast.Call) and dotted(c.func) == "WritableStream"]
    chk.check(len(ws) == 1 and [src(a) for a in ws[0].args] == ["self", "index", "subindex", "size", "force_segment"], "R7", f"{CL}:SdoClient.open | arguments reach the stream", o.loc(),
              f"{[src(a) for a in ws[0].args] if ws else '?'}")
    rs = [c for c in ast.walk(o.node) if isinstance(c, ast.Call) and dotted(c.func) == "ReadableStream"]
    chk.check(len(rs) == 1 and [src(a) for a in rs[0].args] == ["self", "index", "subindex"], "R7", f"{CL}:SdoClient.open | read arguments reach the stream", o.loc(), "")
    # forced segmentation is a disjunct of the segmented guard
    tests = [n for n in ff.cfg.nodes if n.kind == "test" and "force_segment" in src(n.ast)]
    ok = any(isinstance(t.ast, ast.BoolOp) and isinstance(t.ast.op, ast.Or) and "force_segment" in [src(v) for v in t.ast.values] for t in tests)
    chk.check(ok, "R7", f"{CL}:WritableStream.__init__ | force_segment selects segmented transfer", f.loc(), "force_segment is not a disjunct of the segmented-transfer condition")


# ---------------------------------------------------------------------------------------------------- R10
def _decode(chk, repo, folder):
    f = repo.func(CL, "ReadableStream.__init__", "C01.R10")
    ff = ff_for(chk, f, "C01.R10")
    sizes = attr_stores(f.node, "size")
    exp = [s_ for s_ in sizes if "res_command" in src(s_.value)]
    chk.floor("R10", len(exp), 1, "expedited size decode")
    for s_ in exp:
        g = [ff.norm(e, subst=False) for e, p in ff.facts_at(s_) if p]
        chk.check(ff.is_form(s_.value, "4 - ((res_command >> 2) & 0x3)"), "R10", f"{CL}:ReadableStream.__init__ | expedited size", f.loc(s_),
                  f"size = {src(s_.value)}; CiA 301: 4 - n with n = bits 3..2")
        chk.check(ff.canon("res_command & EXPEDITED") in g and ff.canon("res_command & SIZE_SPECIFIED") in g, "R10", f"{CL}:ReadableStream.__init__ | n valid only with e=1,s=1", f.loc(s_), f"decoded under {g}")
    seg = [s_ for s_ in sizes if "unpack" in src(s_.value)]
    for s_ in seg:
        g = [(ff.norm(e, subst=False), p) for e, p in ff.facts_at(s_)]
        v = s_.value
        ok = isinstance(v, ast.Call) and folder.try_fold(v.args[0], ff.scope, None) == "<L"
        chk.check(ok and (ff.canon("res_command & SIZE_SPECIFIED"), True) in g and (ff.canon("res_command & EXPEDITED"), False) in g, "R10",
                  f"{CL}:ReadableStream.__init__ | segmented size", f.loc(s_), f"{src(s_)} under {g}")
    rd = ff.one_def("res_data")
    chk.check(rd is not None and src(rd) == "response[4:8]", "R10", f"{CL}:ReadableStream.__init__ | data bytes 4..7", f.loc(), f"res_data = {src(rd) if rd is not None else '?'}")
    for s_ in attr_stores(f.node, "exp_data"):
        if isinstance(s_.value, ast.Constant):
            continue
        g = [(ff.norm(e, subst=False), p) for e, p in ff.facts_at(s_)]
        sized = (ff.canon("res_command & SIZE_SPECIFIED"), True) in g
        want = "res_data[:self.size]" if sized else "res_data"
        chk.check(src(s_.value) == want and (ff.canon("res_command & EXPEDITED"), True) in g, "R10", f"{CL}:ReadableStream.__init__ | expedited data ({'sized' if sized else 'unsized'})", f.loc(s_),
                  f"exp_data = {src(s_.value)}; expected {want}")
    f = repo.func(CL, "ReadableStream.read", "C01.R10")
    ff = ff_for(chk, f, "C01.R10")
    ln = ff.one_def("length")
    chk.check(ln is not None and ff.is_form(ln, "7 - ((res_command >> 1) & 0x7)"), "R10", f"{CL}:ReadableStream.read | segment length", f.loc(),
              f"length = {src(ln) if ln is not None else '?'}; CiA 301: 7 - n with n = bits 3..1")
    dn = [s_ for s_ in attr_stores(f.node, "_done") if "response" not in src(s_)]
    last = [s_ for s_ in dn if any(p and ff.norm(e, subst=False) == ff.canon("res_command & NO_MORE_DATA") for e, p in ff.facts_at(s_))]
    chk.check(bool(last), "R10", f"{CL}:ReadableStream.read | end of data from the c bit", f.loc(), "the stream is not marked done by the response's last-segment bit (bit 0)")


# ---------------------------------------------------------------------------------------------------- R11
def _truncation(chk, repo, folder):
    f = repo.func(CL, "SdoClient.upload", "C01.R11")
    ff = ff_for(chk, f, "C01.R11")
    cuts = [n for n in own_nodes(f.node) if ((isinstance(n, ast.Assign) and src(n.targets[0]) == "data") or isinstance(n, ast.Return)) and isinstance(n.value, ast.Subscript)
            and isinstance(n.value.slice, ast.Slice) and src(n.value.value) == "data"]
    if not cuts:
        chk.bad("R11", f"{CL}:SdoClient.upload | truncation to the declared size", f.loc(), "upload returns the data as received: for entries declared as fixed-size numbers "
                "exactly the declared number of leading bytes is to be returned")
        return
    odv = repo.cls(OD, "ODVariable", "C01.R11")
    sc = Scope(odv.mod, odv)
    sc.in_class_body = True
    table = folder.try_fold(odv.consts["STRUCT_TYPES"], sc, None)
    if not isinstance(table, dict):
        chk.unk("R11", f"{CL}:SdoClient.upload | type table", f.loc(), "ODVariable.STRUCT_TYPES does not fold")
        return
    fixed = set(table)
    setlit = ast.Set(elts=[ast.Constant(value=k) for k in sorted(fixed)])
    from .common import conj_of_facts as _conj, substitute_src as _sub
    for c in cuts:
        # a response that carries more bytes than the entry declares is cut (also when the server gives no size): the size part of the
        # conditions in force, evaluated for (declared, indicated) = (1, 4), (2, 8), (5, 8), (4, None)
        szf = [(e, p) for e, p in ff.facts_at(c) if "response_size" in src(e)]
        if szf:
            miss = None
            for dec_, ind_ in ((1, 4), (2, 8), (5, 8), (4, None)):
                v_ = folder.try_fold(_sub(_conj(szf), {"var_size": dec_, "len(var) // 8": dec_, "response_size": ind_}), ff.scope, "?")
                if v_ == "?":
                    miss = None
                    break
                if not v_:
                    miss = miss or f"an entry declared with {dec_} byte(s) answered with {ind_ if ind_ is not None else 'no'} indicated size is not cut to its declared width (conditions {[(src(e), p) for e, p in szf]})"
            chk.check(miss is None, "R11", f"{CL}:SdoClient.upload | longer responses are cut to the declared size", f.loc(c), miss or "")
        facts = [(e, p) for e, p in ff.facts_at(c) if "data_type" in src(e)]
        if not facts:
            chk.bad("R11", f"{CL}:SdoClient.upload | truncation guard", f.loc(c), "uploaded data is truncated to len(var)//8 without looking at the entry's data type: "
                    "ODVariable.__len__ falls back to 8 bits for types without a fixed-size codec")
            continue
        conj = conj_of_facts(facts)
        wrong = []
        for code in list(range(0, 0x24)) + [0x40, 0xFF]:
            e = substitute_src(conj, {"var.STRUCT_TYPES": setlit, "var.data_type": code})
            try:
                v = bool(folder.fold(e, ff.scope))
            except Unfoldable as ex:
                chk.unk("R11", f"{CL}:SdoClient.upload | truncation guard", f.loc(c), f"guard `{src(conj)}` does not evaluate: {ex}")
                wrong = None
                break
            if v != (code in fixed):
                name = next((n for n, t in O.DATA_TYPES.items() if t[0] == code), hex(code))
                wrong.append(f"{name} is {'truncated to its 8-bit fallback length' if v else 'never truncated'}")
        if wrong is None:
            continue
        chk.check(not wrong, "R11", f"{CL}:SdoClient.upload | truncation guard", f.loc(c),
                  f"guard `{src(conj)}` must hold exactly for the types with a fixed-size codec: {', '.join(wrong[:5])}" + (f" (+{len(wrong) - 5} more)" if len(wrong) > 5 else ""),
                  "evaluated for type codes 0x00..0x23, 0x40, 0xFF")
        sl = c.value.slice
        lo_ok = sl.lower is None or folder.try_fold(sl.lower, ff.scope, None) == 0
        up = sl.upper
        if isinstance(up, ast.Name) and ff.one_def(up.id) is not None:
            up = ff.one_def(up.id)
        chk.check(lo_ok and sl.step is None and up is not None and src(up) == "len(var) // 8", "R11",
                  f"{CL}:SdoClient.upload | leading bytes", f.loc(c), f"truncation is {src(c.value)} (upper bound {src(up) if up is not None else '?'}); expected the first len(var) // 8 bytes")

    # ------------------------------------------------------------------ R15 ODVariable.__len__ per data type (upload truncation takes len(var) // 8 bytes; shared with C04.R5)
    from . import c04 as _c04len
    _c04len.bit_length_by_type(chk, "R15")
    # ------------------------------------------------------------------ R16 buffered reads lose nothing (shared clause)
    from . import shared as _shri
    _shri.readinto_delivers_all(chk, "R16", "ReadableStream")
    # ------------------------------------------------------------------ R14 instances are independent (shared clause)
    from . import shared as _shared
    _shared.isolation(chk, "R14", rels=['canopen/sdo/client.py', 'canopen/sdo/base.py'])
    # ------------------------------------------------------------------ R1 the multiplexer on the wire is the caller's (shared clause)
    _shared.sdo_address_unchanged(chk, "R1")
