"""C17 -- periodic transmissions run exactly when and with what the API state says."""
from __future__ import annotations

import ast

from ..facts import AttrWrites
from ..fold import Scope, dotted, src
from .common import (attr_stores, ctx, ff_for, find_calls, must_pass, node_calls, own_nodes, path_text, resolve_callee)

NET = "canopen/network.py"
NMT = "canopen/nmt.py"
HANDLES = [
    # (module, class, handle attribute, start method, stop method, reason)
    ("canopen/sync.py", "SyncProducer", "_task", "start", "stop"),
    ("canopen/pdo/base.py", "PdoMap", "_task", "start", "stop"),
    ("canopen/nmt.py", "NmtSlave", "_send_task", "start_heartbeat", "stop_heartbeat"),
    ("canopen/nmt.py", "NmtMaster", "_node_guarding_producer", "start_node_guarding", "stop_node_guarding"),
]

EXPLANATION = (
    "R1 task-handle typestate for the four producers: every path to an assignment handle = send_periodic(...) passes a "
    "stop of the previous handle (or the handle is known to be None); a (re)start always ends with a task created from "
    "the current id/payload/period unless it raises or the period is not positive; R2 every stop method stops the "
    "handle when it is set and nulls it afterwards; R3 every NmtSlave method that can change _state is followed on all "
    "paths by update_heartbeat()/start_heartbeat(), update sends [self._state]; PdoVariable.set_data ends in "
    "pdo_parent.update() and PdoMap.update hands self.data to the task; R4 heartbeat time object 0x1017: 0 stops, "
    "other values (re)start with that time, start_heartbeat stops first and starts only for a positive time; R5 "
    "Network.disconnect reaches every node's PdoMap.stop; R6 PeriodicMessageTask.update replaces the message data on "
    "every path before either branch, the fallback branch stops before restarting; R7 arguments of the four "
    "send_periodic calls are the producer's own id, payload and period; R8 structural assumptions shared by all properties: no class-level mutable object is mutated in place by instances, no method re-runs the constructor, logging statements cannot raise (typed eager formatting, divisions), no mutable default argument is kept or mutated, no new truth-value test of a None-able number, a look-up memory the pinned tree does not have is keyed by all its inputs (arithmetic keys folded over a grid of addresses) and, on the serving side, emptied somewhere."
    " R6 also: the stop before a restart may be PeriodicMessageTask._start's own."
)
ASSUMPTIONS = [
    "not decided: periods and payload values at run time, python-can's cyclic task behaviour",
    "a handle is live exactly between its assignment and the stop method of its class",
]


def run(chk):
    repo, folder = ctx(chk)
    writes = AttrWrites(repo)
    for rel, cname, handle, start, stop in HANDLES:
        cls = repo.cls(rel, cname, "C17")
        h = f"self.{handle}"
        # ------------------------------------------------------------------ R2 stop method
        sm = repo.func(rel, f"{cname}.{stop}", "C17.R2")
        fs = ff_for(chk, sm, "C17.R2")
        stops = [c for c in find_calls(sm.node, ".stop") if dotted(c.func) == f"{h}.stop"]
        chk.check(len(stops) >= 1, "R2", f"{rel}:{cname}.{stop} | stops the handle", sm.loc(), f"no {h}.stop() in the stop method")
        for c in stops:
            g = [(src(e), p) for e, p in fs.facts_at(fs.stmt_of(c))]
            chk.check((f"{h} is not None", True) in g or (h, True) in g, "R2", f"{rel}:{cname}.{stop} | guarded", sm.loc(c),
                      f"{h}.stop() is called although the handle may be None (facts {g})")
            node = fs.cfg.node_of(fs.stmt_of(c))
            # nulling matters where some other method consults the handle's None-ness (update/restart/receive paths)
            readers = [mn for mn, m_ in cls.methods.items() if mn not in (stop, "__init__") and any(
                isinstance(t, (ast.If, ast.IfExp, ast.While, ast.Assign)) and h in
                {src(x) for x in ast.walk(t.test if hasattr(t, "test") else t.value) if isinstance(x, ast.Attribute)}
                and (not isinstance(t, ast.Assign) or isinstance(t.value, ast.Compare)) for t in ast.walk(m_.node))]
            if not readers:
                chk.ok("R2", f"{rel}:{cname}.{stop} | handle nulled after stop", sm.loc(c), "no other method consults the handle")
                continue
            wit = must_pass(fs.cfg, lambda n: n.kind == "stmt" and isinstance(n.ast, ast.Assign) and dotted(n.ast.targets[0]) == h
                            and folder.try_fold(n.ast.value, Scope(sm.mod), 1) is None, from_node=node)
            chk.check(wit is None, "R2", f"{rel}:{cname}.{stop} | handle nulled after stop", sm.loc(c),
                      f"after stopping, {h} keeps pointing at the dead task although {readers} test it: {path_text(wit) if wit else ''}")
        # stop happens whenever the handle is set: no path to exit with fact `handle is not None` that skips .stop()
        wit = must_pass(fs.cfg, lambda n: node_calls(n, f"{handle}.stop"),
                        skip_edge=lambda n, lab: n.kind == "test" and ((src(n.ast) in (f"{h} is not None", h) and lab == "F")
                                                                       or (src(n.ast) in (f"{h} is None", f"not {h}") and lab == "T")))
        chk.check(wit is None, "R2", f"{rel}:{cname}.{stop} | stops whenever a task is live", sm.loc(),
                  f"a path leaves the stop method with a live task: {path_text(wit) if wit else ''}")

        # ------------------------------------------------------------------ R1 start method
        st = repo.func(rel, f"{cname}.{start}", "C17.R1")
        ff = ff_for(chk, st, "C17.R1")
        assigns = [n for n in ff.cfg.nodes if n.kind == "stmt" and isinstance(n.ast, ast.Assign) and dotted(n.ast.targets[0]) == h
                   and find_calls(n.ast.value, ".send_periodic")]
        chk.floor("R1", len(assigns), 1, f"{h} = send_periodic(...) in {cname}.{start}")

        def is_stop(n):
            return node_calls(n, f"self.{stop}") or node_calls(n, f"{handle}.stop")

        def dead_edge(n, lab):
            if n.kind != "test":
                return False
            t = src(n.ast)
            return (t in (f"{h} is not None", h) and lab == "F") or (t in (f"{h} is None", f"not {h}") and lab == "T")
        for a in assigns:
            wit = must_pass(ff.cfg, is_stop, to_nodes=[a], skip_edge=dead_edge)
            chk.check(wit is None, "R1", f"{rel}:{cname}.{start} | stop before restart", st.loc(a.ast),
                      f"a path reaches `{src(a.ast)[:60]}` with a possibly live previous task (it keeps transmitting, no handle left): "
                      f"{path_text(wit) if wit else ''}")
        # what the running task sends stays the producer's configuration: period / id are changed only after the old task was stopped
        for pst_ in [n for n in ff.cfg.nodes if n.kind == "stmt" and isinstance(n.ast, (ast.Assign, ast.AugAssign)) and any(
                dotted(t) in ("self.period", "self.cob_id", "self._heartbeat_time_ms") for t in (n.ast.targets if isinstance(n.ast, ast.Assign) else [n.ast.target]))]:
            if dotted((pst_.ast.targets[0] if isinstance(pst_.ast, ast.Assign) else pst_.ast.target)) == "self._heartbeat_time_ms":
                continue        # informational copy, not an argument of the task
            wit = must_pass(ff.cfg, is_stop, to_nodes=[pst_], skip_edge=dead_edge)
            chk.check(wit is None, "R1", f"{rel}:{cname}.{start} | running task stopped before `{src(pst_.ast)[:40]}`", st.loc(pst_.ast),
                      f"the producer's setting is changed while the previous task may still run: if {start}() then fails (invalid period) the old task keeps "
                      f"transmitting with a period that is no longer the producer's: {path_text(wit) if wit else ''}")
        # every call to a handle-creating assignment: all other writers of the handle
        for mname, m in cls.methods.items():
            for s_ in attr_stores(m.node, handle):
                if m is st or mname == "__init__":
                    continue
                v = folder.try_fold(s_.value, Scope(m.mod), 1)
                chk.check(v is None and mname == stop, "R1", f"{rel}:{cname}.{mname} | foreign writer of {handle}", m.loc(s_),
                          f"`{src(s_)}` rebinds the task handle outside {start}/{stop}")
        # (re)start always creates a task (unless it raises / the time is not positive)
        def is_assign(n):
            return n in assigns
        allow = None
        if cname == "NmtSlave":
            allow = lambda n, lab: n.kind == "test" and ff.is_form(n.ast, "heartbeat_time_ms > 0", "heartbeat_time_ms >= 1") and lab == "F"  # noqa
        wit = must_pass(ff.cfg, is_assign, skip_edge=allow)
        chk.check(wit is None, "R1", f"{rel}:{cname}.{start} | start creates a task", st.loc(),
                  f"a normal path returns from {start}() without a new periodic task for the current id/payload/period "
                  f"(an earlier task may keep transmitting the old ones): {path_text(wit) if wit else ''}")

    # ------------------------------------------------------------------ R7 arguments
    want = {
        "SyncProducer": ["self.cob_id", "[]", "self.period"],
        "PdoMap": ["self.cob_id", "self.data", "self.period"],
        "NmtSlave": ["self.id + 1792", "[self._state]", "heartbeat_time_ms / 1000.0"],
        "NmtMaster": ["self.id + 1792", "None", "period", "True"],
    }
    for rel, cname, handle, start, stop in HANDLES:
        st = repo.func(rel, f"{cname}.{start}", "C17.R7")
        ff = ff_for(chk, st, "C17.R7")
        for c in find_calls(st.node, ".send_periodic"):
            got = [ff.norm(a, subst=False) for a in c.args] + [f"{k.arg}={ff.norm(k.value, subst=False)}" for k in c.keywords]
            exp = [ff.canon(x) for x in want[cname]]
            if cname == "NmtSlave":
                ok = got[:2] == exp[:2] and len(got) == 3 and got[2] in (ff.canon("heartbeat_time_ms / 1000.0"), ff.canon("heartbeat_time_ms / 1000"),
                                                                          ff.canon("self._heartbeat_time_ms / 1000.0"), ff.canon("heartbeat_time_ms * 0.001"))
            elif cname == "NmtMaster":
                ok = got == exp or got == exp[:3] + ["remote=True"]
            else:
                ok = got == exp
            chk.check(ok, "R7", f"{rel}:{cname}.{start} | send_periodic arguments", st.loc(c), f"send_periodic({', '.join(got)}); expected ({', '.join(want[cname])})")
        if "period" in st.params and cname in ("SyncProducer", "PdoMap"):
            # a period passed to start() is the period in force: stored before the task is created, whenever it is given
            pst = [n for n in ff.cfg.nodes if n.kind == "stmt" and isinstance(n.ast, ast.Assign) and dotted(n.ast.targets[0]) == "self.period"]
            chk.check(len(pst) == 1 and src(pst[0].ast.value) == "period", "R7", f"{rel}:{cname}.{start} | given period stored", st.loc(), f"{[src(x.ast) for x in pst]}")
            for a in [n for n in ff.cfg.nodes if n.kind == "stmt" and node_calls(n, ".send_periodic")]:
                wit = must_pass(ff.cfg, lambda n: n in pst, to_nodes=[a],
                                skip_edge=lambda n, lab: n.kind == "test" and ((src(n.ast) == "period is not None" and lab == "F") or (src(n.ast) == "period is None" and lab == "T")))
                chk.check(wit is None, "R7", f"{rel}:{cname}.{start} | a given period is the one used", st.loc(a.ast),
                          f"a path with a period argument reaches send_periodic without storing it (the old period is used): {path_text(wit) if wit else ''}")
                g = [(ff.norm(e, subst=False), p) for e, p in ff.facts_at(a.ast) if "period" in src(e)]
                chk.check(("self.period", True) in g or ("not self.period", False) in g or (ff.canon("self.period > 0"), True) in g, "R7",
                          f"{rel}:{cname}.{start} | no task without a valid period", st.loc(a.ast), f"send_periodic under {g}")
    pmt = repo.func(NET, "PeriodicMessageTask.__init__", "C17.R7")
    chk.saw(pmt)
    msgs = [c for c in ast.walk(pmt.node) if isinstance(c, ast.Call) and dotted(c.func) == "can.Message"]
    chk.floor("R7", len(msgs), 1, "can.Message in PeriodicMessageTask.__init__")
    for c in msgs:
        kw = {k.arg: src(k.value) for k in c.keywords}
        copies = ("None if data is None else bytearray(data)", "bytearray(data)", "bytes(data)", "None if data is None else bytes(data)",
                  "bytearray() if data is None else bytearray(data)", "b'' if data is None else bytes(data)")
        chk.check(kw.get("arbitration_id") == "can_id" and kw.get("data") in ("data",) + copies and kw.get("is_remote_frame") == "remote", "R7",
                  f"{NET}:PeriodicMessageTask.__init__ | message fields", pmt.loc(c), f"message built from {kw}")
        chk.check(kw.get("data") in copies, "R6", f"{NET}:PeriodicMessageTask.__init__ | the task owns its payload", pmt.loc(c),
                  f"data={kw.get('data')}: can.Message keeps a reference to a bytearray, so the message shares the producer's buffer; PDO variables are written in place and "
                  "update() then always sees old == new: on a bus without modify_data the task is never restarted and keeps sending the old payload")
    chk.check(bool(find_calls(pmt.node, "self._start")) and src(attr_stores(pmt.node, "period")[0].value) == "period" if attr_stores(pmt.node, "period") else False,
              "R7", f"{NET}:PeriodicMessageTask.__init__ | period and start", pmt.loc(), "period not stored or task not started")
    stt = repo.func(NET, "PeriodicMessageTask._start", "C17.R7")
    chk.saw(stt)
    sp = find_calls(stt.node, ".send_periodic")
    chk.check(len(sp) == 1 and [src(a) for a in sp[0].args] == ["self.msg", "self.period"], "R7", f"{NET}:PeriodicMessageTask._start | bus task", stt.loc(),
              f"bus.send_periodic called with {[src(a) for a in sp[0].args] if sp else '?'}")
    snp = repo.func(NET, "Network.send_periodic", "C17.R7")
    chk.saw(snp)
    rets = [c for c in ast.walk(snp.node) if isinstance(c, ast.Call) and dotted(c.func) == "PeriodicMessageTask"]
    chk.check(len(rets) == 1 and [src(a) for a in rets[0].args] == ["can_id", "data", "period", "self.bus", "remote"], "R7",
              f"{NET}:Network.send_periodic | task arguments", snp.loc(), f"{[src(a) for a in rets[0].args] if rets else '?'}")

    # ------------------------------------------------------------------ R3 state => payload
    heartbeat_follows_state(chk, "R3")

    PB = "canopen/pdo/base.py"
    sd = repo.func(PB, "PdoVariable.set_data", "C17.R3")
    fsd = ff_for(chk, sd, "C17.R3")
    wit = must_pass(fsd.cfg, lambda n: node_calls(n, "pdo_parent.update"))
    chk.check(wit is None, "R3", f"{PB}:PdoVariable.set_data | ends in pdo_parent.update()", sd.loc(),
              f"a path changes the PDO data without updating the periodic task: {path_text(wit) if wit else ''}")
    pu = repo.func(PB, "PdoMap.update", "C17.R3")
    fpu = ff_for(chk, pu, "C17.R3")
    ups = [c for c in find_calls(pu.node, ".update") if dotted(c.func) == "self._task.update"]
    chk.check(len(ups) == 1 and [src(a) for a in ups[0].args] == ["self.data"], "R3", f"{PB}:PdoMap.update | payload", pu.loc(),
              f"task updated with {[src(a) for a in ups[0].args] if ups else 'nothing'}; expected self.data")
    wit = must_pass(fpu.cfg, lambda n: node_calls(n, "_task.update"),
                    skip_edge=lambda n, lab: n.kind == "test" and ((src(n.ast) in ("self._task is not None", "self._task") and lab == "F")
                                                                   or (src(n.ast) in ("self._task is None", "not self._task") and lab == "T")))
    chk.check(wit is None, "R3", f"{PB}:PdoMap.update | updates whenever a task is live", pu.loc(), f"{path_text(wit) if wit else ''}")

    # ------------------------------------------------------------------ R4 heartbeat time
    ow = repo.func(NMT, "NmtSlave.on_write", "C17.R4")
    fw = ff_for(chk, ow, "C17.R4")
    hb = None
    for n in own_nodes(ow.node):
        if isinstance(n, ast.Assign) and isinstance(n.value, ast.Call) and (dotted(n.value.func) or "").endswith("unpack_from"):
            fmt = folder.try_fold(n.value.args[0], Scope(ow.mod), None)
            chk.check(fmt == "<H" and src(n.value.args[1]) == "data", "R4", f"{NMT}:NmtSlave.on_write | decode", ow.loc(n), f"heartbeat time decoded with {fmt!r}")
            hb = src(n.targets[0].elts[0]) if isinstance(n.targets[0], ast.Tuple) else src(n.targets[0])
    stops = find_calls(ow.node, "self.stop_heartbeat")
    starts = find_calls(ow.node, "self.start_heartbeat")
    chk.floor("R4", len(stops) + len(starts), 2, "stop_heartbeat/start_heartbeat calls in on_write")
    for c in stops:
        g = [fw.norm(e, subst=False) for e, p in fw.facts_at(fw.stmt_of(c)) if p]
        chk.check(fw.canon("index == 0x1017") in g and fw.canon(f"{hb} == 0") in g, "R4", f"{NMT}:NmtSlave.on_write | 0 stops", ow.loc(c), f"stop under {g}")
    for c in starts:
        g = [fw.norm(e, subst=False) for e, p in fw.facts_at(fw.stmt_of(c)) if p]
        chk.check(fw.canon("index == 0x1017") in g and fw.canon(f"{hb} != 0") in g and [src(a) for a in c.args] == [hb], "R4",
                  f"{NMT}:NmtSlave.on_write | non-zero restarts with the new time", ow.loc(c), f"start_heartbeat({[src(a) for a in c.args]}) under {g}")
    sh = repo.func(NMT, "NmtSlave.start_heartbeat", "C17.R4")
    fh = ff_for(chk, sh, "C17.R4")
    for c in find_calls(sh.node, ".send_periodic"):
        g = [fh.norm(e, subst=False) for e, p in fh.facts_at(fh.stmt_of(c)) if p]
        chk.check(fh.canon("heartbeat_time_ms > 0") in g or fh.canon("heartbeat_time_ms >= 1") in g, "R4", f"{NMT}:NmtSlave.start_heartbeat | only for positive time",
                  sh.loc(c), f"task started under {g}")

    # "after the heartbeat time is set to 0 none is running": start_heartbeat stops the running task on every path, also when
    # the new time is 0 and nothing is started
    wit = must_pass(fh.cfg, lambda n: node_calls(n, "self.stop_heartbeat") or node_calls(n, "self._send_task.stop"))
    chk.check(wit is None, "R4", f"{NMT}:NmtSlave.start_heartbeat | the running task is stopped whatever the new time", sh.loc(),
              f"a path leaves start_heartbeat without stopping the running task: {path_text(wit) if wit else ''}")

    # ------------------------------------------------------------------ R5 disconnect
    dc = repo.func(NET, "Network.disconnect", "C17.R5")
    fd = ff_for(chk, dc, "C17.R5")
    loops = [n for n in own_nodes(dc.node) if isinstance(n, ast.For) and src(n.iter) in ("self.nodes.values()", "list(self.nodes.values())")]
    ok = False
    for lp in loops:
        for c in ast.walk(lp):
            if isinstance(c, ast.Call) and dotted(c.func) == f"{src(lp.target)}.pdo.stop":
                g = [(src(e), p) for e, p in fd.facts_at(fd.stmt_of(c))]
                ok = all(p and x == f"hasattr({src(lp.target)}, 'pdo')" for x, p in g)
        inner = [n for n in ast.walk(lp) if isinstance(n, (ast.Break, ast.Return))]
        ok = ok and not inner
        # an exception handler around the whole loop ends the loop at the first node that raises: the nodes after it keep their tasks
        around = [t for t in own_nodes(dc.node) if isinstance(t, ast.Try) and t.handlers and any(x is lp for b in t.body for x in ast.walk(b))]
        chk.check(not around, "R5", f"{NET}:Network.disconnect | one failing node does not end the loop", dc.loc(lp),
                  f"the loop over the nodes sits inside `try ... except {src(around[0].handlers[0].type) if around and around[0].handlers[0].type is not None else ''}`: "
                  "the first node that raises ends it and the PDO tasks of the remaining nodes keep running" if around else "")
    chk.check(ok, "R5", f"{NET}:Network.disconnect | stops PDO tasks of every node", dc.loc(), "disconnect() does not call node.pdo.stop() for every node")
    if loops:
        wit = must_pass(fd.cfg, lambda n: n.kind == "for" and n.ast is loops[0])
        chk.check(wit is None, "R5", f"{NET}:Network.disconnect | on every path", dc.loc(), f"{path_text(wit) if wit else ''}")
    pbs = repo.func(PB, "PdoBase.stop", "C17.R5")
    chk.saw(pbs)
    lp = [n for n in own_nodes(pbs.node) if isinstance(n, ast.For) and src(n.iter) == "self.map.values()"]
    ok = bool(lp) and any(isinstance(c, ast.Call) and dotted(c.func) == f"{src(lp[0].target)}.stop" for c in ast.walk(lp[0])) \
        and not [n for n in ast.walk(lp[0]) if isinstance(n, (ast.Break, ast.Return, ast.If))]
    chk.check(ok, "R5", f"{PB}:PdoBase.stop | every map", pbs.loc(), "PdoBase.stop does not stop every map")
    pdo_cls = repo.cls("canopen/pdo/__init__.py", "PDO", "C17.R5")
    chk.check("stop" not in pdo_cls.methods, "R5", "canopen/pdo/__init__.py:PDO | inherits PdoBase.stop", f"canopen/pdo/__init__.py:{pdo_cls.node.lineno}",
              "PDO overrides stop(); the rule assumes PdoBase.stop over both directions")

    # ------------------------------------------------------------------ R6 PeriodicMessageTask.update
    up = repo.func(NET, "PeriodicMessageTask.update", "C17.R6")
    fu = ff_for(chk, up, "C17.R6")
    stores = [n for n in fu.cfg.nodes if n.kind == "stmt" and isinstance(n.ast, ast.Assign) and dotted(n.ast.targets[0]) == "self.msg.data"]
    chk.floor("R6", len(stores), 1, "store of self.msg.data in update")
    acts = [n for n in fu.cfg.nodes if node_calls(n, ".modify_data") or node_calls(n, "self._start")]
    chk.floor("R6", len(acts), 2, "modify_data / _start branches")
    for a in acts:
        ok = any(fu.cfg.dominates(s_, a) for s_ in stores)
        chk.check(ok, "R6", f"{NET}:PeriodicMessageTask.update | data replaced before `{src(a.ast)[:40]}`", up.loc(a.ast),
                  "the message keeps its old payload on this branch")
    for s_ in stores:
        vv = s_.ast.value
        if isinstance(vv, ast.Name) and fu.one_def(vv.id) is not None:
            vv = fu.one_def(vv.id)
        v = src(vv)
        chk.check(v in ("bytearray(data)", "bytes(data)", "data"), "R6", f"{NET}:PeriodicMessageTask.update | new payload", up.loc(s_.ast), f"msg.data = {v}")
    for a in [n for n in fu.cfg.nodes if node_calls(n, "self._start")]:
        wit = must_pass(fu.cfg, lambda n: node_calls(n, "_task.stop"), to_nodes=[a])
        if wit is not None:
            # the stop may be the callee's business: _start() itself stops a live task before it creates the next one
            stf = repo.func(NET, "PeriodicMessageTask._start", "C17.R6")
            fst = ff_for(chk, stf, "C17.R6")
            news = [n for n in fst.cfg.nodes if n.kind == "stmt" and isinstance(n.ast, ast.Assign) and dotted(n.ast.targets[0]) == "self._task" and find_calls(n.ast.value, ".send_periodic")]

            def _dead(n, lab):
                t_ = src(n.ast) if n.kind == "test" else ""
                return (t_ in ("self._task is not None", "self._task") and lab == "F") or (t_ in ("self._task is None", "not self._task") and lab == "T")
            if news and all(must_pass(fst.cfg, lambda n: node_calls(n, "_task.stop"), to_nodes=[nw], skip_edge=_dead) is None for nw in news):
                wit = None
        chk.check(wit is None, "R6", f"{NET}:PeriodicMessageTask.update | stop before restart", up.loc(a.ast), f"{path_text(wit) if wit else ''}")
    # both code paths of the update logic: in-place modification when the bus task supports it, otherwise restart when the data changed
    for a in [n for n in fu.cfg.nodes if node_calls(n, ".modify_data")]:
        g = [(fu.norm(e, subst=False), p) for e, p in fu.facts_at(a.ast)]
        chk.check(g == [("hasattr(self._task, 'modify_data')", True)], "R6", f"{NET}:PeriodicMessageTask.update | in-place update exactly when the task supports it", up.loc(a.ast), f"modify_data under {g}")
        c = [x for x in ast.walk(a.ast) if isinstance(x, ast.Call) and src(x.func).endswith(".modify_data")][0]
        chk.check(dotted(c.func) == "self._task.modify_data" and [src(x) for x in c.args] == ["self.msg"], "R6", f"{NET}:PeriodicMessageTask.update | in-place update hands over the message", up.loc(a.ast), src(c))
    for a in [n for n in fu.cfg.nodes if node_calls(n, "self._start")]:
        g = [(fu.norm(e, subst=False), p) for e, p in fu.facts_at(a.ast)]
        neq = [t for t, p in g if p and t in (fu.canon("new_data != old_data"), fu.canon("old_data != new_data"), fu.canon("self.msg.data != old_data"), fu.canon("old_data != self.msg.data"))]
        rest = [(t, p) for t, p in g if t not in neq]
        chk.check(rest in ([("hasattr(self._task, 'modify_data')", False)], []) and len(neq) <= 1, "R6", f"{NET}:PeriodicMessageTask.update | restart whenever the data changed and the task cannot be modified", up.loc(a.ast),
                  f"restart under {g}: a changed payload is not sent (or an unchanged one restarts the task) on buses without modify_data")
        if neq:
            od_ = fu.raw_def_at("old_data", a.ast)
            okd = od_ is not None and src(od_) == "self.msg.data"
            if okd:
                dn = [n for n in fu.cfg.nodes if n.kind == "stmt" and isinstance(n.ast, ast.Assign) and src(n.ast.targets[0]) == "old_data"]
                okd = all(fu.cfg.dominates(d, s_) for d in dn for s_ in stores)
            chk.check(okd, "R6", f"{NET}:PeriodicMessageTask.update | change detected against the payload sent so far", up.loc(a.ast),
                      f"old_data = {src(od_) if od_ is not None else '?'}; it must be self.msg.data taken before the new payload is stored")
    ps = repo.func(NET, "PeriodicMessageTask.stop", "C17.R6")
    chk.saw(ps)
    chk.check(bool([c for c in find_calls(ps.node, ".stop") if dotted(c.func) == "self._task.stop"]), "R6", f"{NET}:PeriodicMessageTask.stop", ps.loc(),
              "stop() does not stop the bus task")

    # ------------------------------------------------------------------ R8 instances are independent (shared clause)
    from . import shared as _shared
    _shared.isolation(chk, "R8", rels=['canopen/network.py', 'canopen/nmt.py', 'canopen/sync.py', 'canopen/pdo/base.py'])


def heartbeat_follows_state(chk, rule: str):
    """Every change of the NMT slave's state reaches the heartbeat producer (payload [state]); the heartbeat starts on the
    boot-up transition.  Shared with C11: the state a master reports is the one the slave's heartbeat carries."""
    repo, folder = ctx(chk)
    writes = AttrWrites(repo)
    NMT = "canopen/nmt.py"
    slave = repo.cls(NMT, "NmtSlave", f"{chk.prop}.{rule}")
    base = repo.cls(NMT, "NmtBase", f"{chk.prop}.{rule}")
    for mname, m in base.methods.items():
        if "self._state" in writes.of(m) and mname != "__init__":
            over = slave.methods.get(mname)
            if over is None:
                # reaches a slave override through dynamic dispatch?
                calls = {dotted(c.func) for c in ast.walk(m.node) if isinstance(c, ast.Call)}
                via = [c for c in calls if c and c.startswith("self.") and c[5:] in slave.methods and "self._state" in writes.of(slave.methods[c[5:]])]
                direct = attr_stores(m.node, "_state")
                chk.check(bool(via) and not direct, rule, f"{NMT}:NmtBase.{mname} | state change reaches the heartbeat", m.loc(),
                          "NmtBase method changes _state and NmtSlave does not override it: the heartbeat payload goes stale")
    upd_names = ("self.update_heartbeat", "self.start_heartbeat")
    for mname, m in slave.methods.items():
        if mname in ("__init__",) or "self._state" not in writes.of(m):
            continue
        fm = ff_for(chk, m, f"{chk.prop}.{rule}")
        changers = []
        for n in fm.cfg.nodes:
            if n.kind != "stmt":
                continue
            if isinstance(n.ast, (ast.Assign, ast.AugAssign)) and any(dotted(t) == "self._state" for t in getattr(n.ast, "targets", [getattr(n.ast, "target", None)]) if t is not None):
                changers.append(n)
            for c in [x for x in ast.walk(n.ast) if isinstance(x, ast.Call)]:
                callee = resolve_callee(repo, m, c)
                if callee is not None and callee is not m and "self._state" in writes.of(callee) and (dotted(c.func) or "") not in upd_names:
                    changers.append(n)
        chk.floor(rule, len(changers), 1, f"state-changing statements in NmtSlave.{mname}")
        for n in changers:
            wit = must_pass(fm.cfg, lambda x: any(node_calls(x, u) for u in upd_names), from_node=n)
            chk.check(wit is None, rule, f"{NMT}:NmtSlave.{mname} | heartbeat updated after state change", m.loc(n.ast),
                      f"after `{src(n.ast)[:50]}` a path returns without update_heartbeat()/start_heartbeat(): {path_text(wit) if wit else ''}")
    # the heartbeat starts on the boot-up transition INITIALISING -> PRE-OPERATIONAL with the time of object 0x1017
    sc_ = repo.func(NMT, "NmtSlave.send_command", f"{chk.prop}.{rule}")
    fsc_ = ff_for(chk, sc_, f"{chk.prop}.{rule}")
    starts = [c for c in find_calls(sc_.node, "self.start_heartbeat")]
    chk.floor(rule, len(starts), 1, "start_heartbeat in NmtSlave.send_command")
    for c in starts:
        st = fsc_.stmt_of(c)
        g = sorted((fsc_.norm(e, subst=False), p) for e, p in fsc_.facts_at(st) if "_state" in src(e))
        chk.check(g == [("old_state == 0", True), ("self._state == 127", True)], rule, f"{NMT}:NmtSlave.send_command | heartbeat starts on INITIALISING -> PRE-OPERATIONAL", sc_.loc(c),
                  f"start_heartbeat() under {g}")
        od_ = fsc_.raw_def_at("old_state", st)
        chk.check(od_ is not None and src(od_) == "self._state", rule, f"{NMT}:NmtSlave.send_command | previous state remembered", sc_.loc(c), f"old_state = {src(od_) if od_ is not None else '?'}")
        dn = [n for n in fsc_.cfg.nodes if n.kind == "stmt" and isinstance(n.ast, ast.Assign) and src(n.ast.targets[0]) == "old_state"]
        sup = [n for n in fsc_.cfg.nodes if n.kind == "stmt" and "send_command(code)" in src(n.ast) and "super" in src(n.ast)]
        chk.check(bool(dn) and bool(sup) and all(fsc_.cfg.dominates(d, s_) for d in dn for s_ in sup), rule, f"{NMT}:NmtSlave.send_command | previous state taken before the command is applied", sc_.loc(c), "")
        a0 = c.args[0] if c.args else None
        d0 = fsc_.raw_def_at(a0.id, st) if isinstance(a0, ast.Name) else a0
        v0 = folder.try_fold(d0.value.slice, Scope(sc_.mod), None) if d0 is not None and isinstance(d0, ast.Attribute) and isinstance(d0.value, ast.Subscript) else None
        chk.check(d0 is not None and isinstance(d0, ast.Attribute) and d0.attr == "raw" and src(d0.value.value) == "self._local_node.sdo" and v0 == 0x1017, rule,
                  f"{NMT}:NmtSlave.send_command | period taken from the heartbeat time object 0x1017", sc_.loc(c), f"{src(d0) if d0 is not None else '?'}")
    uh = repo.func(NMT, "NmtSlave.update_heartbeat", f"{chk.prop}.{rule}")
    fu = ff_for(chk, uh, f"{chk.prop}.{rule}")
    ups = [c for c in find_calls(uh.node, ".update") if dotted(c.func) == "self._send_task.update"]
    chk.check(len(ups) == 1 and [src(a) for a in ups[0].args] == ["[self._state]"], rule, f"{NMT}:NmtSlave.update_heartbeat | payload", uh.loc(),
              f"task updated with {[src(a) for a in ups[0].args] if ups else 'nothing'}; expected [self._state]")
    wit = must_pass(fu.cfg, lambda n: node_calls(n, "_send_task.update"),
                    skip_edge=lambda n, lab: n.kind == "test" and ((src(n.ast) in ("self._send_task is not None", "self._send_task") and lab == "F")
                                                                   or (src(n.ast) in ("self._send_task is None", "not self._send_task") and lab == "T")))
    chk.check(wit is None, rule, f"{NMT}:NmtSlave.update_heartbeat | updates whenever a task is live", uh.loc(), f"{path_text(wit) if wit else ''}")