"""C13 -- SDO block upload returns exactly the server's data or fails visibly."""
from __future__ import annotations

import ast

from .. import oracles as O
from ..fold import Scope, Unfoldable, dotted, src
from ..frames import Unrecognised, frame_at, terms_at
from .common import (always_exits, attr_stores, ctx, ff_for, find_calls, must_pass, node_calls, own_nodes, path_text)
from .sdoframes import CLIENT, check_layout, check_length, check_stores, command_expr, sinks

CL = "canopen/sdo/client.py"
C = "BlockUploadStream"

EXPLANATION = (
    "Four block-upload emission sites (initiate '<BHBBB' with block size and pst, start, acknowledge [cs, ackseq, "
    "blksize], end): R1 length/stores, R2 command layout; R3 a segment's bytes are returned only after its sequence "
    "number matched _ackseq + 1 (directly or through _retransmit, which returns only a matching segment and otherwise "
    "aborts with the time-out code and raises); R4 the final segment is trimmed to response[1:8 - n] (slice bound "
    "evaluated for n = 0..7) with n = bits 4..2 of the validated end frame; R5 CRC: support flag assigned on every "
    "path of __init__ from bit 2 of the answer, every returned segment fed once, comparison with the server's '<H' "
    "dominates the final return, mismatch aborts with 0x05040004 and raises; R6 end confirmation iff done and no error; "
    "block boundary acknowledged at _ackseq >= blksize or the last segment, _ackseq wraps after a full block; R7 the "
    "initiate and end responses are validated before use (clause shared with C07.R3); R9 readinto() stores the whole segment it consumed and reports its length; R8 structural assumptions shared by all properties: no class-level mutable object is mutated in place by instances, no method re-runs the constructor, logging statements cannot raise (typed eager formatting, divisions), no mutable default argument is kept or mutated, no new truth-value test of a None-able number, a look-up memory the pinned tree does not have is keyed by all its inputs (arithmetic keys folded over a grid of addresses) and, on the serving side, emptied somewhere."
    ' R5 also: _done is stored before the checksum comparison it guards.'
    ' R5 also: CRC identity (binascii.crc_hqx chained from 0, pure final()) shared with C12.R6; R9 also: the read buffer open() gives the BufferedReader holds a whole segment.'
)
ASSUMPTIONS = [
    "not decided: loss/corruption runs; server assumed standard-conformant",
]


def run(chk):
    repo, folder = ctx(chk)
    n_sites = 0
    plan = {f"{C}.__init__": ["block_upload_initiate", "block_upload_start"], f"{C}._ack_block": ["block_upload_ack"], f"{C}.close": ["block_upload_end"]}
    for fq, steps in plan.items():
        f = repo.func(CL, fq, "C13")
        ff = ff_for(chk, f, "C13")
        found = sorted(sinks(ff, ("request_response", "send_request")), key=lambda cs: cs[1].lineno)
        chk.floor("R1", len(found), len(steps), f"emission sites in {fq}")
        for (call, stmt), step in zip(found, steps):
            lay = CLIENT[step]
            site = f"{CL}:{fq} | {lay.name}"
            n_sites += 1
            try:
                fr = frame_at(ff, call.args[0], stmt)
            except Unrecognised as e:
                chk.unk("R1", site, f.loc(stmt), str(e))
                continue
            check_length(chk, "R1", site, f.loc(stmt), fr)
            ce = command_expr(fr)
            if ce is None:
                chk.unk("R2", site, f.loc(stmt), "no store to byte 0")
                continue
            try:
                must, may = terms_at(ff, ce[0], ce[1])
            except Unrecognised as e:
                chk.unk("R2", site, f.loc(ce[1]), str(e))
                continue
            check_layout(chk, "R2", site, f.loc(ce[1]), lay, set(must), set(may))
            check_stores(chk, "R1", site, ff, fr, lay)
            if step == "block_upload_initiate":
                hdr = [s_ for s_ in fr.stores if s_.lo == 0 and s_.fmt is not None]
                ok = len(hdr) == 1 and hdr[0].fmt == "<BHBBB" and [src(x) for x in hdr[0].fields[1:]] == ["index", "subindex", "self.blksize", "0"]
                chk.check(ok, "R2", f"{site} | fields", f.loc(stmt), "initiate frame is not (command, index, subindex, blksize, pst=0) packed '<BHBBB'")
                flags = [n for n in own_nodes(f.node) if isinstance(n, ast.AugAssign) and folder.try_fold(n.value, ff.scope, None) == 0x04]
                for a in flags:
                    g = [(src(e), p) for e, p in ff.facts_at(a)]
                    chk.check(("request_crc_support", True) in g, "R2", f"{site} | CRC flag only when requested", f.loc(a), f"{g}")
                bs = folder.try_fold(f.cls.consts.get("blksize", ast.Constant(None)), Scope(f.mod), None)
                chk.check(isinstance(bs, int) and 1 <= bs <= 127, "R2", f"{CL}:{C}.blksize", f.loc(), f"block size {bs!r} outside 1..127")
            if step == "block_upload_ack":
                b1 = [s_ for s_ in fr.stores if s_.lo == 1]
                b2 = [s_ for s_ in fr.stores if s_.lo == 2]
                chk.check(len(b1) == 1 and src(b1[0].value) == "self._ackseq" and len(b2) == 1 and src(b2[0].value) == "self.blksize", "R2", f"{site} | ackseq and blksize", f.loc(stmt),
                          "acknowledge is not [cs, last good sequence number, next block size]")
    chk.floor("R1", n_sites, 4, "block upload emission sites")

    rd = repo.func(CL, f"{C}.read", "C13.R3")
    ff = ff_for(chk, rd, "C13.R3")
    # ------------------------------------------------------------------ R3 sequence validation
    tests = [n for n in ff.cfg.nodes if n.kind == "test" and ff.is_form(n.ast, "seqno == self._ackseq + 1", "res_command & 0x7F == self._ackseq + 1", subst=True)]
    chk.floor("R3", len(tests), 1, "sequence number comparison in read")
    sq = ff.one_def("seqno")
    chk.check(sq is not None and ff.is_form(sq, "res_command & 0x7F"), "R3", f"{CL}:{C}.read | sequence number = bits 6..0", rd.loc(), f"seqno = {src(sq) if sq is not None else '?'}")
    rets = [n for n in own_nodes(rd.node) if isinstance(n, ast.Return) and n.value is not None and src(n.value) == "data"]
    chk.floor("R3", len(rets), 1, "data return in read")
    for t in tests:
        owner = getattr(t, "owner", None)
        ok = owner is not None and any(isinstance(x, ast.Assign) and dotted(x.targets[0]) == "self._ackseq" and src(x.value) == "seqno" for x in owner.body)
        chk.check(ok, "R3", f"{CL}:{C}.read | matched number becomes the acknowledged one", rd.loc(t.ast), "")
        ok2 = owner is not None and any(isinstance(x, ast.Assign) and src(x.targets[0]) == "response" and src(x.value) == "self._retransmit()" for x in owner.orelse)
        chk.check(ok2, "R3", f"{CL}:{C}.read | mismatch takes the segment from _retransmit()", rd.loc(t.ast),
                  "a segment with the wrong sequence number is used as data")
        for r in rets:
            chk.check(ff.cfg.dominates(t, ff.cfg.node_of(r)), "R3", f"{CL}:{C}.read | data returned only after the sequence check", rd.loc(r), "")
    for dd in [n for n in own_nodes(rd.node) if isinstance(n, ast.Assign) and src(n.targets[0]) == "data"]:
        for t in tests:
            chk.check(ff.cfg.dominates(t, ff.cfg.node_of(dd)), "R3", f"{CL}:{C}.read | `{src(dd)}` after the sequence check", rd.loc(dd), "")
    rt = repo.func(CL, f"{C}._retransmit", "C13.R3")
    frt = ff_for(chk, rt, "C13.R3")
    for r in [n for n in own_nodes(rt.node) if isinstance(n, ast.Return) and n.value is not None]:
        g = [frt.norm(e) for e, p in frt.facts_at(r) if p]
        ok = any(x in (frt.canon("res_command & 0x7F == self._ackseq + 1"),) for x in g) or _dominated_by_seq(frt, r)
        chk.check(ok, "R3", f"{CL}:{C}._retransmit | returns only a matching segment", rt.loc(r), f"returns under {g}")
    raises = [n for n in own_nodes(rt.node) if isinstance(n, ast.Raise)]
    chk.floor("R3", len(raises), 1, "failure exit of _retransmit")
    for r in raises:
        wit = must_pass(frt.cfg, lambda n: node_calls(n, "sdo_client.abort"), to_nodes=[frt.cfg.node_of(r)])
        chk.check(wit is None, "R3", f"{CL}:{C}._retransmit | abort before raising", rt.loc(r), f"{path_text(wit) if wit else ''}")
    for c in find_calls(rt.node, "sdo_client.abort"):
        chk.check(folder.try_fold(c.args[0], frt.scope, None) == O.ABORT["timeout"], "R3", f"{CL}:{C}._retransmit | time-out code", rt.loc(c), src(c))
    acks = [n for n in frt.cfg.nodes if node_calls(n, "self._ack_block")]
    reads = [n for n in frt.cfg.nodes if node_calls(n, "read_response")]
    chk.check(bool(acks) and all(any(frt.cfg.dominates(a, r) for a in acks) for r in reads), "R3", f"{CL}:{C}._retransmit | asks for retransmission first", rt.loc(),
              "segments are awaited without acknowledging the last good sequence number")
    # normal path falls off the loop into abort+raise, never returns None
    wit = must_pass(frt.cfg, lambda n: n.kind == "stmt" and isinstance(n.ast, ast.Return) and n.ast.value is not None)
    chk.check(wit is None, "R3", f"{CL}:{C}._retransmit | no silent fall-through", rt.loc(), f"_retransmit can return None: {path_text(wit) if wit else ''}")

    # ------------------------------------------------------------------ R4 trim
    cuts = [n for n in own_nodes(rd.node) if isinstance(n, ast.Assign) and src(n.targets[0]) == "data" and isinstance(n.value, ast.Subscript)]
    chk.floor("R4", len(cuts), 2, "data slices in read")
    nvar = None
    for n in own_nodes(rd.node):
        if isinstance(n, ast.Assign) and isinstance(n.value, ast.Call) and dotted(n.value.func) == "self._end_upload" and isinstance(n.targets[0], ast.Name):
            nvar = n.targets[0].id
    for c in cuts:
        g = [(ff.norm(e, subst=False), p) for e, p in ff.facts_at(c)]
        last = (ff.canon("res_command & NO_MORE_BLOCKS"), True) in g
        sl = c.value.slice
        ok_base = src(c.value.value) == "response" and isinstance(sl, ast.Slice) and folder.try_fold(sl.lower, ff.scope, None) == 1 and sl.step is None
        if not ok_base:
            chk.bad("R4", f"{CL}:{C}.read | `{src(c)}`", rd.loc(c), "segment data is not response[1:...]")
            continue
        if not last:
            chk.check(folder.try_fold(sl.upper, ff.scope, None) == 8 if sl.upper is not None else True, "R4", f"{CL}:{C}.read | full segment", rd.loc(c), f"{src(c)}")
            continue
        if nvar is None:
            chk.unk("R4", f"{CL}:{C}.read | final segment trim", rd.loc(c), "n = self._end_upload() not found")
            continue
        wrong = []
        for n_ in range(0, 8):
            try:
                up = folder.fold(sl.upper, Scope(ff.scope.mod, ff.scope.cls, {nvar: n_})) if sl.upper is not None else None
            except Unfoldable as e:
                wrong = None
                chk.unk("R4", f"{CL}:{C}.read | final segment trim", rd.loc(c), f"slice bound `{src(sl.upper)}` does not evaluate: {e}")
                break
            start, stop, _ = slice(1, up).indices(8)
            if (start, stop) != (1, 8 - n_):
                wrong.append((n_, max(0, stop - start), 7 - n_))
        if wrong is None:
            continue
        chk.check(not wrong, "R4", f"{CL}:{C}.read | final segment trimmed by the announced count", rd.loc(c),
                  f"`{src(c.value)}`: with n = {wrong[0][0]} unused bytes the segment yields {wrong[0][1]} bytes instead of {wrong[0][2]}" if wrong else "",
                  "slice bound evaluated for n = 0..7")
        # n comes before the cut and data is final afterwards
    eu = repo.func(CL, f"{C}._end_upload", "C13.R4")
    feu = ff_for(chk, eu, "C13.R4")
    for r in [n for n in own_nodes(eu.node) if isinstance(n, ast.Return) and n.value is not None]:
        chk.check(feu.is_form(r.value, "(res_command >> 2) & 0x7"), "R4", f"{CL}:{C}._end_upload | n = bits 4..2", eu.loc(r), f"returns {src(r.value)}")
    unp = [n for n in own_nodes(eu.node) if isinstance(n, ast.Assign) and isinstance(n.value, ast.Call) and (dotted(n.value.func) or "").endswith("unpack_from")]
    ok = any(folder.try_fold(u.value.args[0], feu.scope, None) == "<BH" and [src(e) for e in u.targets[0].elts] == ["res_command", "self._server_crc"] and src(u.value.args[1]) == "response"
             and len(u.value.args) == 2 for u in unp if isinstance(u.targets[0], ast.Tuple))
    if not ok:
        # the checksum may travel through a local that is stored into self._server_crc unchanged
        for u in unp:
            if isinstance(u.targets[0], ast.Tuple) and len(u.targets[0].elts) == 2 and folder.try_fold(u.value.args[0], feu.scope, None) == "<BH" and src(u.value.args[1]) == "response" \
                    and len(u.value.args) == 2 and src(u.targets[0].elts[0]) == "res_command" and isinstance(u.targets[0].elts[1], ast.Name):
                loc_ = u.targets[0].elts[1].id
                sts_ = [n for n in own_nodes(eu.node) if isinstance(n, ast.Assign) and dotted(n.targets[0]) == "self._server_crc"]
                rebound = [n for n in own_nodes(eu.node) if isinstance(n, (ast.Assign, ast.AugAssign)) and n is not u and any(isinstance(t, ast.Name) and t.id == loc_ for t in ast.walk(n) if isinstance(getattr(t, "ctx", None), ast.Store))]
                ok = len(sts_) == 1 and src(sts_[0].value) == loc_ and not rebound
    chk.check(ok, "R5", f"{CL}:{C}._end_upload | server CRC '<H' at bytes 1..2", eu.loc(), "the server's checksum is not decoded as '<BH' from byte 0")

    # ------------------------------------------------------------------ R5 CRC
    init = repo.func(CL, f"{C}.__init__", "C13.R5")
    fi = ff_for(chk, init, "C13.R5")
    st = attr_stores(init.node, "crc_supported")
    chk.check(len(st) == 1 and fi.is_form(st[0].value, "bool(res_command & CRC_SUPPORTED)"), "R5", f"{CL}:{C}.__init__ | CRC support from bit 2 of the answer", init.loc(), f"{[src(s_) for s_ in st]}")
    wit = must_pass(fi.cfg, lambda n: n.kind == "stmt" and isinstance(n.ast, ast.Assign) and dotted(n.ast.targets[0]) == "self.crc_supported")
    chk.check(wit is None, "R5", f"{CL}:{C}.__init__ | CRC support decided on every path", init.loc(),
              f"a path leaves the class default (False) in force although the server confirmed CRC: corrupted data is returned unchecked: {path_text(wit) if wit else ''}")
    st = attr_stores(init.node, "_crc")
    chk.check(len(st) == 1 and src(st[0].value) == "sdo_client.crc_cls()", "R5", f"{CL}:{C}.__init__ | fresh CRC per transfer", init.loc(), "")
    from .c12 import crc_identity as _crc_identity
    _crc_identity(chk, "R5")
    procs = [n for n in ff.cfg.nodes if node_calls(n, "self._crc.process")]
    chk.check(len(procs) == 1, "R5", f"{CL}:{C}.read | one CRC update per segment", rd.loc(), f"{len(procs)}")
    for p in procs:
        g = [(src(e), pol) for e, pol in ff.facts_at(p.ast)]
        c = find_calls(p.ast, "self._crc.process")[0]
        chk.check(("self.crc_supported", True) in g and [src(a) for a in c.args] == ["data"], "R5", f"{CL}:{C}.read | CRC over the returned bytes", rd.loc(p.ast), f"{src(c)} under {g}")
        for r in rets:
            wit = must_pass(ff.cfg, lambda n: n is p, to_nodes=[ff.cfg.node_of(r)],
                            skip_edge=lambda n, lab: n.kind == "test" and src(n.ast) == "self.crc_supported" and lab == "F")
            chk.check(wit is None, "R5", f"{CL}:{C}.read | every returned segment is summed", rd.loc(r), f"{path_text(wit) if wit else ''}")
    cmp_tests = [n for n in ff.cfg.nodes if n.kind == "test" and ff.is_form(n.ast, "self._server_crc != self._crc.final()")]
    chk.floor("R5", len(cmp_tests), 1, "CRC comparison in read")
    for t in cmp_tests:
        owner = getattr(t, "owner", None)
        chk.check(owner is not None and always_exits(owner.body) and any(isinstance(x, ast.Raise) for s_ in owner.body for x in ast.walk(s_)), "R5",
                  f"{CL}:{C}.read | CRC mismatch raises", rd.loc(t.ast), "")
        if owner is not None:
            codes = [folder.try_fold(c.args[0], ff.scope, None) for c in find_calls(owner, "sdo_client.abort")]
            chk.check(codes == [O.ABORT["crc"]], "R5", f"{CL}:{C}.read | CRC abort code", rd.loc(t.ast), f"abort codes {codes}; CiA 301: 0x05040004")
            chk.check(any(isinstance(x, ast.Assign) and dotted(x.targets[0]) == "self._error" for x in owner.body), "R5", f"{CL}:{C}.read | error flagged", rd.loc(t.ast), "")
        g = [(src(e), p) for e, p in ff.facts_at(t.ast)]
        chk.check(("self.crc_supported", True) in g and ("self._done", True) in g, "R5", f"{CL}:{C}.read | compared when the transfer is complete", rd.loc(t.ast), f"{g}")
        # the flag that guards the comparison is set before it on the last segment: a store of _done after the comparison means the
        # guard is still False when the last segment passes, and the checksum is never compared
        dstores = [ff.cfg.node_of(x) for x in attr_stores(rd.node, "_done")]
        before = [d for d in dstores if t in ff.cfg.reach_from(d)]
        late = [d for d in dstores if d in ff.cfg.reach_from(t) and d not in before]
        chk.check(bool(before) and not late, "R5", f"{CL}:{C}.read | done is set before the checksum is compared", rd.loc(late[0].ast) if late else rd.loc(t.ast),
                  f"`{src(late[0].ast)}` runs after the comparison guarded by `self._done`: on the last segment the guard is still false, so a wrong checksum is never noticed" if late
                  else "no store of _done precedes the comparison")
        # the comparison lies on every path to the final return when crc is on and done
        for r in rets:
            wit = must_pass(ff.cfg, lambda n: n is t, to_nodes=[ff.cfg.node_of(r)],
                            skip_edge=lambda n, lab: n.kind == "test" and ((src(n.ast) == "self.crc_supported" and lab == "F") or (src(n.ast) == "self._done" and lab == "F")))
            chk.check(wit is None, "R5", f"{CL}:{C}.read | comparison dominates the final return", rd.loc(r), f"{path_text(wit) if wit else ''}")
    # _done set only on the last segment, after the end frame was validated
    for s_ in [x for x in attr_stores(rd.node, "_done") if folder.try_fold(x.value, ff.scope, None) is True]:
        g = [(ff.norm(e, subst=False), p) for e, p in ff.facts_at(s_)]
        chk.check((ff.canon("res_command & NO_MORE_BLOCKS"), True) in g, "R5", f"{CL}:{C}.read | done on the last segment", rd.loc(s_), f"{g}")
        ends = [n for n in ff.cfg.nodes if node_calls(n, "self._end_upload")]
        chk.check(any(ff.cfg.dominates(e, ff.cfg.node_of(s_)) for e in ends), "R5", f"{CL}:{C}.read | end frame read before done", rd.loc(s_), "")

    cls13 = repo.cls(CL, C, "C13.R5")
    for attr, ok_in in (("crc_supported", {"__init__"}), ("_crc", {"__init__"}), ("_server_crc", {"__init__", "_end_upload"})):
        for mname, m in cls13.methods.items():
            for s_ in attr_stores(m.node, attr) + [n for n in own_nodes(m.node) if isinstance(n, ast.Assign) and isinstance(n.targets[0], ast.Tuple) and any(dotted(e) == f"self.{attr}" for e in n.targets[0].elts)]:
                chk.check(mname in ok_in, "R5", f"{CL}:{C}.{mname} | writer of {attr}", m.loc(s_),
                          f"`{src(s_)[:60]}` outside {sorted(ok_in)}: the CRC negotiated with the server is switched off or replaced during the transfer, corrupted data is returned unchecked")
    chk.ok("R5", f"{CL}:{C} | writers of CRC state", f"{CL}:{cls13.node.lineno}", "scanned")

    # ------------------------------------------------------------------ R6 block boundary + end confirm
    ackc = [n for n in ff.cfg.nodes if node_calls(n, "self._ack_block")]
    chk.floor("R6", len(ackc), 1, "_ack_block call in read")
    for a in ackc:
        owner_tests = [n for n in ff.cfg.nodes if n.kind == "test" and any(x is a.ast for s_ in getattr(getattr(n, "owner", None), "body", []) for x in ast.walk(s_))]
        ok = any(isinstance(t.ast, ast.BoolOp) and isinstance(t.ast.op, ast.Or) and {ff.norm(v, subst=False) for v in t.ast.values} ==
                 {ff.canon("self._ackseq >= self.blksize"), ff.canon("res_command & NO_MORE_BLOCKS")} for t in owner_tests)
        chk.check(ok, "R6", f"{CL}:{C}.read | acknowledge at block end or last segment", rd.loc(a.ast), "expected `_ackseq >= blksize or last segment`")
    ab = repo.func(CL, f"{C}._ack_block", "C13.R6")
    fab = ff_for(chk, ab, "C13.R6")
    rs = [s_ for s_ in attr_stores(ab.node, "_ackseq") if folder.try_fold(s_.value, fab.scope, None) == 0]
    ok = bool(rs) and all((fab.canon("self._ackseq == self.blksize") in [fab.norm(e, subst=False) for e, p in fab.facts_at(s_) if p]) for s_ in rs)
    chk.check(ok, "R6", f"{CL}:{C}._ack_block | sequence restarts after a full block", ab.loc(), "")
    for s_ in rs:
        snd = [n for n in fab.cfg.nodes if node_calls(n, "send_request")]
        chk.check(all(fab.cfg.dominates(x, fab.cfg.node_of(s_)) for x in snd), "R6", f"{CL}:{C}._ack_block | acknowledge carries the number before the reset", ab.loc(s_), "")
    cl = repo.func(CL, f"{C}.close", "C13.R6")
    fcl = ff_for(chk, cl, "C13.R6")
    for call, stmt in sinks(fcl, ("send_request",)):
        g = [(src(e), p) for e, p in fcl.facts_at(stmt)]
        chk.check(("self._done", True) in g and ("self._error", False) in g, "R6", f"{CL}:{C}.close | end confirmation iff done and no error", cl.loc(stmt), f"end frame under {g}")
    wit = must_pass(fcl.cfg, lambda n: node_calls(n, "send_request"),
                    skip_edge=lambda n, lab: n.kind == "test" and ((src(n.ast) == "self.closed" and lab == "T") or (fcl.is_form(n.ast, "self._done and not self._error") and lab == "F")))
    chk.check(wit is None, "R6", f"{CL}:{C}.close | completed transfer is confirmed", cl.loc(), f"{path_text(wit) if wit else ''}")

    # ------------------------------------------------------------------ R7 fails visibly: responses validated before use (shared with C07.R3)
    from . import c07
    from .common import RuleProxy
    c07.validate_sites(RuleProxy(chk, "R7"), classes=("BlockUploadStream",))

    # ------------------------------------------------------------------ R9 buffered reads lose nothing (shared clause)
    from . import shared as _shri
    _shri.readinto_delivers_all(chk, "R9", "BlockUploadStream")
    # ------------------------------------------------------------------ R8 instances are independent (shared clause)
    from . import shared as _shared
    _shared.isolation(chk, "R8", rels=['canopen/sdo/client.py', 'canopen/sdo/base.py'])


def _dominated_by_seq(frt, r) -> bool:
    node = frt.cfg.node_of(r)
    for t in frt.cfg.nodes:
        if t.kind == "test" and frt.is_form(t.ast, "seqno == self._ackseq + 1", "res_command & 0x7F == self._ackseq + 1", subst=True):
            owner = getattr(t, "owner", None)
            if owner is not None and any(r is x for s_ in owner.body for x in ast.walk(s_)) and frt.cfg.dominates(t, node):
                return True
    return False
