"""C05 -- PDO variables occupy exactly their mapped bits."""
from __future__ import annotations

import ast
import copy
from typing import Dict, List, Optional, Tuple

from .. import oracles as O
from ..fold import Scope, Unfoldable, dotted, src
from .common import (attr_stores, ctx, ff_for, find_calls, must_pass, node_calls, own_nodes, path_text, substitute,
                     substitute_src)

B = "canopen/pdo/base.py"
D = "self.pdo_parent.data"

EXPLANATION = (
    "R1 bookkeeping in add_variable: offset taken before the length is advanced, data size = ceil(length/8) refreshed on "
    "every path; R2 extraction/insertion window: after forward substitution of the straight-line unaligned branch the "
    "integer a field is cut from / inserted into is the whole frame shifted by self.offset, or a byte window whose "
    "index arithmetic, evaluated for every (offset, length) with offset+length <= 64, starts at the field's byte, "
    "covers the field and stays inside the frame; R3 the inserted value is masked to the field and the cleared mask is "
    "its complement; the write-back is length-preserving (whole-frame slice with to_bytes(len(frame)) or a window of "
    "exactly the bytes read); R4 the sign predicate includes the sign bit alone and sign extension fills all higher "
    "bits; R5 aligned path slices exactly the object's bytes; R6 get_data/set_data use the same aligned/unaligned "
    "predicate and divmod(self.offset, 8); set_data ends in pdo_parent.update(); R7 every non-empty mapping entry of the device (1..64 bits) becomes a variable (read loop, shared with C09.R2); R9 ODVariable.__len__ per data type (default field length; shared with C04.R5); R10 item access designates variables of the current mapping, first match in map order; R8 structural assumptions shared by all properties: no class-level mutable object is mutated in place by instances, no method re-runs the constructor, logging statements cannot raise (typed eager formatting, divisions), no mutable default argument is kept or mutated, no new truth-value test of a None-able number, a look-up memory the pinned tree does not have is keyed by all its inputs (arithmetic keys folded over a grid of addresses) and, on the serving side, emptied somewhere."
    ' R1 also: every mapping entry is a PdoVariable constructed for it; R10 also: PdoBase.__getitem__ looks only into maps bound by the loop over the current maps (no remembered answers).'
    ' R1 also: the frame size expression is decided by value for 0..64 bits.'
)
ASSUMPTIONS = [
    "not decided: values for all layouts (only the index arithmetic of byte windows is evaluated over the finite layout "
    "domain; no frame contents are evaluated)",
    "a mapping's fields lie inside the frame: offset + length <= 8 * len(data) (R1)",
]

MASK_FORMS = ("(1 << self.length) - 1",)


def run(chk):
    repo, folder = ctx(chk)
    # ------------------------------------------------------------------ R1 bookkeeping
    av = repo.func(B, "PdoMap.add_variable", "C05.R1")
    fa = ff_for(chk, av, "C05.R1")
    off = [n for n in fa.cfg.nodes if n.kind == "stmt" and isinstance(n.ast, ast.Assign) and src(n.ast.targets[0]) == "var.offset"]
    adv = [n for n in fa.cfg.nodes if n.kind == "stmt" and isinstance(n.ast, ast.AugAssign) and dotted(n.ast.target) == "self.length"]
    chk.check(len(off) == 1 and src(off[0].ast.value) == "self.length", "R1", f"{B}:PdoMap.add_variable | offset = bits already mapped", av.loc(), f"{[src(o.ast) for o in off]}")
    chk.check(len(adv) == 1 and isinstance(adv[0].ast.op, ast.Add) and src(adv[0].ast.value) == "var.length", "R1", f"{B}:PdoMap.add_variable | length advanced by the field", av.loc(), f"{[src(a.ast) for a in adv]}")
    if off and adv:
        chk.check(fa.cfg.dominates(off[0], adv[0]) and off[0] not in fa.cfg.reach_from(adv[0]), "R1", f"{B}:PdoMap.add_variable | offset before advance", av.loc(off[0].ast),
                  "the field's offset is taken after the total length was advanced")
        ln = [n for n in fa.cfg.nodes if n.kind == "stmt" and isinstance(n.ast, ast.Assign) and src(n.ast.targets[0]) == "var.length"]
        for l_ in ln:
            chk.check(fa.cfg.dominates(l_, adv[0]) or l_ not in fa.cfg.reach_from(adv[0]), "R1", f"{B}:PdoMap.add_variable | custom length before advance", av.loc(l_.ast), "")
            chk.check(l_ not in fa.cfg.reach_from(adv[0]), "R1", f"{B}:PdoMap.add_variable | length fixed before it is counted", av.loc(l_.ast), "var.length changes after it was added to the total")
    from . import shared as _sh5
    _sh5.mapping_length_exact(chk, "R1")
    _sh5.read_mapping_loop(chk, "R7")
    wit = must_pass(fa.cfg, lambda n: node_calls(n, "self._update_data_size"))
    chk.check(wit is None, "R1", f"{B}:PdoMap.add_variable | data size refreshed on every path", av.loc(), f"{path_text(wit) if wit else ''}")
    for u in [n for n in fa.cfg.nodes if node_calls(n, "self._update_data_size")]:
        chk.check(all(u in fa.cfg.reach_from(a) for a in adv), "R1", f"{B}:PdoMap.add_variable | refreshed after the advance", av.loc(u.ast), "")
    ud = repo.func(B, "PdoMap._update_data_size", "C05.R1")
    fu = ff_for(chk, ud, "C05.R1")
    st = attr_stores(ud.node, "data")
    # decided by value: `self.data = bytearray(<n>)` where <n>, folded with self.length = 0..64, is the number of bytes that hold
    # that many bits (the spelling of the ceiling division is free)
    def _size_ok(v):
        import math as _m
        if not (isinstance(v, ast.Call) and dotted(v.func) == "bytearray" and len(v.args) == 1 and not v.keywords):
            return False
        for L_ in range(0, 65):
            try:
                e2 = ast.parse(src(v.args[0]).replace("self.length", f"({L_})").replace("math.ceil", "_ceil"), mode="eval").body
                n_ = folder.fold(e2, Scope(ud.mod, None, {"_ceil": _m.ceil}))
            except Exception:  # noqa
                return None
            if n_ != (L_ + 7) // 8 or isinstance(n_, bool) or int(n_) != n_:
                return False
        return True
    dec = _size_ok(st[0].value) if len(st) == 1 else False
    if dec is None:
        dec = fu.is_form(st[0].value, "bytearray(int(math.ceil(self.length / 8.0)))", "bytearray(int(math.ceil(self.length / 8)))", "bytearray((self.length + 7) // 8)",
                         "bytearray(math.ceil(self.length / 8))")
    chk.check(bool(dec), "R1", f"{B}:PdoMap._update_data_size | ceil(length / 8) zero bytes", ud.loc(), f"{[src(s_) for s_ in st]}")
    pv = repo.func(B, "PdoVariable.__init__", "C05.R1")
    chk.saw(pv)
    st = attr_stores(pv.node, "length")
    chk.check(len(st) == 1 and src(st[0].value) == "len(od)", "R1", f"{B}:PdoVariable.__init__ | default length = object's bit length", pv.loc(), f"{[src(s_) for s_ in st]}")

    # ------------------------------------------------------------------ get/set
    g = repo.func(B, "PdoVariable.get_data", "C05")
    s = repo.func(B, "PdoVariable.set_data", "C05")
    fg, fs = ff_for(chk, g, "C05"), ff_for(chk, s, "C05")
    gi, si = _unaligned_if(g), _unaligned_if(s)
    for f, iff in ((g, gi), (s, si)):
        if iff is None:
            chk.unk("R6", f"{B}:{f.qualname} | aligned/unaligned split", f.loc(), "no `if bit_offset or self.length % 8:` found")
            return
        dm = [n for n in own_nodes(f.node) if isinstance(n, ast.Assign) and src(n.value) == "divmod(self.offset, 8)" and src(n.targets[0]) == "(byte_offset, bit_offset)"]
        chk.check(len(dm) == 1, "R6", f"{B}:{f.qualname} | byte/bit offset = divmod(self.offset, 8)", f.loc(), "")
    chk.check(src(gi.test) == src(si.test), "R6", f"{B}:PdoVariable | same aligned/unaligned predicate", g.loc(gi), f"get: {src(gi.test)}; set: {src(si.test)}")
    for f, iff in ((g, gi), (s, si)):
        chk.check(_pred_ok(iff.test), "R6", f"{B}:{f.qualname} | bit-level path for every field that is not whole bytes at a byte boundary", f.loc(iff),
                  f"`{src(iff.test)}` sends a sub-byte field that starts on a byte boundary (or a shifted whole-byte field) down the byte-aligned path: a whole byte is "
                  f"read/written and the neighbouring fields in that byte are overwritten")
    from . import shared
    shared.setdata_updates_task(chk, "R6")

    # aligned path
    ga = [n for n in gi.orelse if isinstance(n, ast.Assign)]
    ok = len(ga) == 1 and fg.is_form(ga[0].value, f"{D}[byte_offset:byte_offset + len(self.od) // 8]")
    chk.check(ok, "R5", f"{B}:PdoVariable.get_data | aligned slice = the object's bytes", g.loc(gi), f"{[src(n) for n in gi.orelse]}")
    sa = [n for n in si.orelse if isinstance(n, ast.Assign)]
    ok = len(sa) == 1 and src(sa[0].value) == "data" and isinstance(sa[0].targets[0], ast.Subscript) and src(sa[0].targets[0].value) == D \
        and isinstance(sa[0].targets[0].slice, ast.Slice) and src(sa[0].targets[0].slice.lower) == "byte_offset" and fs.is_form(sa[0].targets[0].slice.upper, "byte_offset + len(data)")
    chk.check(ok, "R5", f"{B}:PdoVariable.set_data | aligned store is length-preserving", s.loc(si), f"{[src(n) for n in si.orelse]}")

    _get_unaligned(chk, folder, fg, g, gi)
    _set_unaligned(chk, folder, fs, s, si)

    # ------------------------------------------------------------------ R9 ODVariable.__len__ per data type (a mapped variable's default length is len(od); shared with C04.R5)
    from . import c04 as _c04len
    _c04len.bit_length_by_type(chk, "R9")
    # ------------------------------------------------------------------ R10 which variable an item access designates (shared clause)
    from . import shared as _shl
    _shl.pdo_lookup(chk, "R10")
    _shl.pdo_collection_lookup(chk, "R10")
    # ------------------------------------------------------------------ R8 instances are independent (shared clause)
    from . import shared as _shared
    _shared.isolation(chk, "R8", rels=['canopen/pdo/base.py', 'canopen/pdo/__init__.py'])


def _unaligned_if(f) -> Optional[ast.If]:
    """The `if` that separates the bit-level path from the byte-aligned one (its test mentions bit_offset)."""
    for n in own_nodes(f.node):
        if isinstance(n, ast.If) and "bit_offset" in src(n.test):
            return n
    return None


def _pred_ok(test: ast.expr) -> bool:
    """unaligned <=> bit_offset != 0 or length % 8 != 0"""
    if isinstance(test, ast.BoolOp) and isinstance(test.op, ast.Or):
        parts = {src(v) for v in test.values}
        return parts in ({"bit_offset", "self.length % 8"}, {"bit_offset != 0", "self.length % 8 != 0"}, {"bit_offset > 0", "self.length % 8 > 0"},
                         {"bit_offset", "self.length % 8 != 0"}, {"bit_offset != 0", "self.length % 8"})
    return False


def _forward(stmts: List[ast.stmt], env: Optional[Dict[str, ast.expr]] = None, flat_ifs: bool = False):
    """Forward substitution through straight-line assignments to local names.  Returns (env, others) where others are
    the non-assignment statements (with the environment at that point)."""
    env = dict(env or {})
    others = []
    for st in stmts:
        if isinstance(st, ast.Assign) and len(st.targets) == 1 and isinstance(st.targets[0], ast.Name):
            env[st.targets[0].id] = substitute(st.value, env)
        elif isinstance(st, ast.AugAssign) and isinstance(st.target, ast.Name):
            cur = env.get(st.target.id, ast.Name(id=st.target.id, ctx=ast.Load()))
            env[st.target.id] = ast.BinOp(left=copy.deepcopy(cur), op=st.op, right=substitute(st.value, env))
        else:
            others.append((st, dict(env)))
    return env, others


def _layouts():
    for od_len in (8, 16, 24, 32, 40, 48, 56, 64):
        for length in range(1, od_len + 1):
            if od_len > 8 and length != od_len:
                continue
            for offset in range(0, 64 - length + 1):
                yield od_len, length, offset


def _eval(folder, scope, e: ast.expr, od_len, length, offset, frame_len, extra=None):
    m = {"self.offset": offset, "self.length": length, "byte_offset": offset // 8, "bit_offset": offset % 8,
         "len(self.od)": od_len, f"len({D})": frame_len, "od_struct.size": od_len // 8}
    if extra:
        m.update(extra)
    return folder.fold(substitute_src(e, m), scope)


def _window(e: ast.expr):
    """Recognise int.from_bytes(<buf>, 'little') / od_struct.unpack_from(D, byte_offset)[0].
    Returns ('whole',) | ('slice', lo_expr, hi_expr) | ('struct',) | None"""
    if isinstance(e, ast.Call) and dotted(e.func) == "int.from_bytes" and len(e.args) >= 1:
        order = e.args[1] if len(e.args) > 1 else next((k.value for k in e.keywords if k.arg == "byteorder"), None)
        if order is None or not (isinstance(order, ast.Constant) and order.value == "little"):
            return ("bigendian",)
        buf = e.args[0]
        if src(buf) == D:
            return ("whole",)
        if isinstance(buf, ast.Subscript) and src(buf.value) == D:
            sl = buf.slice
            if isinstance(sl, ast.Call) and dotted(sl.func) == "slice" and len(sl.args) == 2:
                return ("slice", sl.args[0], sl.args[1])
            if isinstance(sl, ast.Slice) and sl.step is None:
                return ("slice", sl.lower or ast.Constant(0), sl.upper)
        return None
    if isinstance(e, ast.Subscript) and isinstance(e.value, ast.Call) and isinstance(e.value.func, ast.Attribute) and e.value.func.attr == "unpack_from" and src(e.value.args[0]) == D:
        return ("struct", e.value.args[1] if len(e.value.args) > 1 else ast.Constant(0))
    return None


def _check_window(chk, rule, site, where, folder, scope, win, shift: ast.expr, for_write: bool, width_expr: Optional[ast.expr] = None):
    """Index arithmetic of the window evaluated over all layouts (frame just long enough to hold the field)."""
    if win is None:
        chk.unk(rule, site, where, "the integer the field is taken from is not int.from_bytes(<frame or slice>, 'little')")
        return
    if win[0] == "bigendian":
        chk.bad(rule, site, where, "the frame is read as a big-endian integer; PDO bit 0 is bit 0 of byte 0 (little-endian)")
        return
    bad = None
    n = 0
    for od_len, length, offset in _layouts():
        frame_len = (offset + length + 7) // 8
        n += 1
        try:
            s = _eval(folder, scope, shift, od_len, length, offset, frame_len)
            if win[0] == "whole":
                a, b = 0, frame_len
            elif win[0] == "slice":
                a = _eval(folder, scope, win[1], od_len, length, offset, frame_len)
                b = _eval(folder, scope, win[2], od_len, length, offset, frame_len) if win[2] is not None else frame_len
            else:
                a = _eval(folder, scope, win[1], od_len, length, offset, frame_len)
                b = a + od_len // 8
            k = _eval(folder, scope, width_expr, od_len, length, offset, frame_len) if width_expr is not None else None
        except Unfoldable as e:
            chk.unk(rule, site, where, f"window arithmetic does not evaluate: {e}")
            return
        if 8 * a + s != offset:
            bad = f"offset {offset}, length {length}: the field's bit 0 is taken at bit {8 * a + s} of the frame"
        elif 8 * (min(b, frame_len) - a) < s + length and win[0] != "struct" or (win[0] == "struct" and 8 * (b - a) < s + length):
            bad = f"offset {offset}, length {length} ({od_len}-bit object): the window covers bits [{8 * a}, {8 * b}) but the field ends at bit {offset + length}"
        elif win[0] == "struct" and b > frame_len:
            bad = f"offset {offset}, length {length} ({od_len}-bit object): unpack needs bytes [{a}, {b}) of a {frame_len}-byte frame"
        elif for_write and b > frame_len:
            bad = f"offset {offset}, length {length}: bytes [{a}, {b}) are written back into a {frame_len}-byte frame, which grows it"
        elif for_write and k is not None and k != min(b, frame_len) - a and win[0] != "whole":
            bad = f"offset {offset}, length {length}: {k} bytes are written into a slice of {min(b, frame_len) - a}"
        elif for_write and k is not None and win[0] == "whole" and k != frame_len:
            bad = f"offset {offset}, length {length}: {k} bytes replace a {frame_len}-byte frame"
        if bad:
            break
    chk.check(bad is None, rule, site, where, bad or "", f"index arithmetic evaluated for {n} layouts (object width, field length, offset)")


def _get_unaligned(chk, folder, ff, f, iff):
    site = f"{B}:PdoVariable.get_data"
    body = iff.body
    # BOOLEAN substitution
    sub = [n for n in body if isinstance(n, ast.If) and ff.is_form(n.test, "data_type == objectdictionary.BOOLEAN")]
    ok = len(sub) == 1 and len(sub[0].body) == 1 and src(sub[0].body[0]) == "data_type = objectdictionary.UNSIGNED8"
    # decided by evaluation where possible: the key used for STRUCT_TYPES, specialised for the object's data type, is UNSIGNED8 for
    # BOOLEAN and the type itself otherwise (an if statement, a conditional expression, a dictionary of substitutions: all the same)
    from .common import partial_eval as _pe, substitute_src as _ssrc
    keys = [n for st_ in body for n in ast.walk(st_) if isinstance(n, ast.Subscript) and src(n.value).endswith("STRUCT_TYPES") and isinstance(n.ctx, ast.Load)]
    decided = None
    if keys:
        kst = next((st_ for st_ in body if any(k_ is keys[0] for k_ in ast.walk(st_))), None)
        pre = body[:body.index(kst)] if kst in body else None
        if pre is not None and all(isinstance(p_, (ast.Assign, ast.AugAssign, ast.If)) for p_ in pre):
            decided = True
            why = ""
            for tname in ("BOOLEAN", "UNSIGNED8", "INTEGER16", "REAL32", "UNSIGNED64"):
                code = O.DATA_TYPES[tname][0]
                stmts = [ast.fix_missing_locations(_ssrc_stmt(p_, {"self.od.data_type": code})) for p_ in pre] + \
                        [ast.fix_missing_locations(ast.Return(value=_ssrc(keys[0].slice, {"self.od.data_type": code})))]
                fnode = ast.FunctionDef(name="__k", args=ast.arguments(posonlyargs=[], args=[], kwonlyargs=[], kw_defaults=[], defaults=[]), body=stmts, decorator_list=[])
                ast.fix_missing_locations(fnode)
                r_ = _pe(folder, fnode, f.mod, f.cls, {})
                want_ = O.DATA_TYPES["UNSIGNED8"][0] if tname == "BOOLEAN" else code
                if r_[0] != "return":
                    decided = None
                    break
                if r_[1] != want_:
                    decided = False
                    why = f"for an object of type {tname} the codec of type code {r_[1]!r} is used; expected {want_} ({'BOOLEAN is packed as UNSIGNED8' if tname == 'BOOLEAN' else 'the type itself'})"
                    break
    if decided is None:
        chk.check(ok, "R6", f"{site} | BOOLEAN handled as UNSIGNED8", f.loc(iff), "")
    else:
        chk.check(decided, "R6", f"{site} | BOOLEAN handled as UNSIGNED8", f.loc(iff), why, "specialised for five data types")
    # the field mask must apply on every path of the unaligned branch: a mask under a further condition leaves the bits above
    # the field (the neighbouring objects) in the value on the other paths
    for n in [x for b_ in body for x in ast.walk(b_) if isinstance(x, (ast.AugAssign, ast.Assign))]:
        v = n.value
        is_mask = (isinstance(n, ast.AugAssign) and isinstance(n.op, ast.BitAnd) and ff.norm(v, subst=False) == ff.canon(MASK_FORMS[0])) or \
            (isinstance(n, ast.Assign) and isinstance(v, ast.BinOp) and isinstance(v.op, ast.BitAnd) and ff.canon(MASK_FORMS[0]) in (ff.norm(v.left, subst=False), ff.norm(v.right, subst=False)))
        if is_mask and not any(n is y for b_ in body for y in [b_]):
            conds = [(src(e), p) for e, p in ff.facts_at(n) if not any(e is iff.test or src(e) == src(iff.test) for _ in [0])]
            extra = [c for c in conds if c[0] not in (src(iff.test),)]
            if extra:
                chk.bad("R2", f"{site} | field mask on every path", f.loc(n), f"`{src(n)}` runs only under {extra}: on the other paths the bits above the field stay in the value")
    flat = [n for n in body if not isinstance(n, ast.If)]
    env, _ = _forward(flat)
    # find the extracted value: last assignment of `data` before the type split, or inside the int branch
    tail_if = [n for n in body if isinstance(n, ast.If) and n not in sub]
    extracted = env.get("data")
    int_branch = None
    if tail_if and "FLOAT_TYPES" in src(tail_if[-1].test):
        t = tail_if[-1]
        int_branch = t.orelse
        fl_env, _ = _forward(t.body, env)
        v = fl_env.get("data")
        ok = v is not None and isinstance(v, ast.Call) and isinstance(v.func, ast.Attribute) and v.func.attr == "to_bytes" and len(v.args) == 2 \
            and src(v.args[1]) == "'little'" and (src(v.args[0]) in ("od_struct.size", "len(self.od) // 8") or
                                                 (src(v.args[0]).endswith(".size") and "STRUCT_TYPES[" in src(v.args[0])))
        chk.check(ok, "R4", f"{site} | REAL field keeps its bits", f.loc(t), f"float branch yields {src(v) if v is not None else '?'}; expected <bits>.to_bytes(size, 'little')")
    elif tail_if:
        int_branch = [tail_if[-1]] + [n for n in body[body.index(tail_if[-1]) + 1:]]
    else:
        int_branch = []
    if extracted is None:
        chk.unk("R2", f"{site} | extraction", f.loc(iff), "no extracted value")
        return
    # (W >> S) & M
    e = extracted
    ok_shape = isinstance(e, ast.BinOp) and isinstance(e.op, ast.BitAnd)
    W = S = None
    if ok_shape:
        for a, b in ((e.left, e.right), (e.right, e.left)):
            if ff.norm(b, subst=False) == ff.canon(MASK_FORMS[0]) and isinstance(a, ast.BinOp) and isinstance(a.op, ast.RShift):
                W, S = a.left, a.right
    if W is None:
        chk.unk("R2", f"{site} | extraction", f.loc(iff), f"extracted value `{src(e)[:100]}` is not (<window> >> <shift>) & ((1 << self.length) - 1)")
        return
    chk.ok("R3", f"{site} | field mask (1 << length) - 1", f.loc(iff))
    _check_window(chk, "R2", f"{site} | extraction window", f.loc(iff), folder, ff.scope, _window(W), S, False)
    # sign handling in the int branch
    sign_ifs = [n for st in int_branch for n in ast.walk(st) if isinstance(n, ast.If) and "islower" in src(n.test) or (isinstance(n, ast.If) and "SIGNED_TYPES" in src(n.test))]
    if not sign_ifs:
        chk.bad("R4", f"{site} | sign extension", f.loc(iff), "signed fields are not sign-extended")
    for si_ in sign_ifs[:1]:
        # locals defined in the branch before the test (e.g. sign_bit = ...)
        pre_env, _ = _forward([st for st in int_branch if isinstance(st, ast.Assign) and st.lineno < si_.lineno])
        conj = list(si_.test.values) if isinstance(si_.test, ast.BoolOp) and isinstance(si_.test.op, ast.And) else [si_.test]
        sbody = si_.body
        while len(sbody) == 1 and isinstance(sbody[0], ast.If) and not sbody[0].orelse:
            # `if signed: if negative: ...` is `if signed and negative: ...`
            t_ = sbody[0].test
            conj += list(t_.values) if isinstance(t_, ast.BoolOp) and isinstance(t_.op, ast.And) else [t_]
            sbody = sbody[0].body
        signed_ok = any(src(c) == "od_struct.format.islower()" or "SIGNED_TYPES" in src(c) for c in conj)
        chk.check(signed_ok, "R4", f"{site} | only signed types are extended", f.loc(si_), src(si_.test))
        preds = [substitute(c, pre_env) for c in conj if not (src(c) == "od_struct.format.islower()" or "SIGNED_TYPES" in src(c))]
        verdict = None
        for p in preds:
            verdict = _sign_pred(ff, p)
        if verdict is None:
            chk.unk("R4", f"{site} | sign predicate", f.loc(si_), f"`{src(si_.test)}` not recognised")
        else:
            chk.check(verdict, "R4", f"{site} | sign predicate includes the sign bit alone", f.loc(si_),
                      f"`{src(si_.test)}` is false for the value 1 << (length - 1): the most negative value of the field reads back positive")
        ext = [n for n in sbody if isinstance(n, (ast.Assign, ast.AugAssign))]
        def _ext_ok(n):
            if isinstance(n, ast.AugAssign) and src(n.target) == "data":
                return (isinstance(n.op, ast.BitOr) and ff.is_form(n.value, "~((1 << self.length) - 1)")) or (isinstance(n.op, ast.Sub) and ff.is_form(n.value, "1 << self.length"))
            return isinstance(n, ast.Assign) and (ff.is_form(n.value, "data | ~((1 << self.length) - 1)") or ff.is_form(n.value, "data - (1 << self.length)"))
        ok = len(ext) == 1 and _ext_ok(ext[0])
        chk.check(ok, "R4", f"{site} | extension fills all higher bits", f.loc(si_), f"{[src(n) for n in sbody]}")
    packs = [n for st in int_branch for n in ast.walk(st) if isinstance(n, ast.Assign) and src(n.value) == "od_struct.pack(data)"]
    chk.check(len(packs) == 1, "R4", f"{site} | integer result encoded with the object's codec", f.loc(iff), "")
    od = [n for n in body if isinstance(n, ast.Assign) and src(n.targets[0]) == "od_struct"]
    chk.check(len(od) == 1 and src(od[0].value) == "self.od.STRUCT_TYPES[data_type]", "R4", f"{site} | codec of the object's type", f.loc(iff), "")


def _ssrc_stmt(st: ast.stmt, mapping):
    """substitute_src applied to every expression of a (possibly compound) statement."""
    import copy as _copy
    from .common import _SubstSrc
    m = {k: (v if isinstance(v, ast.AST) else ast.Constant(value=v)) for k, v in mapping.items()}
    return _SubstSrc(m).visit(_copy.deepcopy(st))


def _sign_pred(ff, p: ast.expr) -> Optional[bool]:
    """True: holds for v == 1 << (L-1) and exactly the values with the sign bit; False: strict form; None: unknown."""
    sb = "1 << self.length - 1"
    t = ff.norm(p, subst=False)
    good = {ff.canon(f"data >= ({sb})"), ff.canon(f"({sb}) <= data"), ff.canon(f"data & ({sb})"), ff.canon(f"data > ({sb}) - 1"),
            ff.canon(f"data >> self.length - 1 & 1"), ff.canon(f"data >> self.length - 1"), ff.canon(f"data & ({sb}) != 0"), ff.canon(f"bool(data & ({sb}))")}
    bad = {ff.canon(f"data > ({sb})"), ff.canon(f"({sb}) < data")}
    if t in good:
        return True
    if t in bad:
        return False
    return None


def _set_unaligned(chk, folder, ff, f, iff):
    site = f"{B}:PdoVariable.set_data"
    body = iff.body
    env, others = _forward([n for n in body])
    # write-back statement
    wb = [(st, e) for st, e in others if isinstance(st, ast.Assign) and isinstance(st.targets[0], ast.Subscript) and src(st.targets[0].value) == D]
    pk = [(st, e) for st, e in others if isinstance(st, ast.Expr) and isinstance(st.value, ast.Call) and isinstance(st.value.func, ast.Attribute) and st.value.func.attr == "pack_into"]
    if pk and not wb:
        st, e = pk[0]
        chk.bad("R2", f"{site} | insertion window", f.loc(st),
                f"`{src(st)[:70]}` writes a window as wide as the object at byte_offset: a field that spans more bytes than its object (UNSIGNED16 after a BOOLEAN) does not fit")
        return
    if len(wb) != 1:
        chk.unk("R3", f"{site} | write-back", f.loc(iff), f"expected one store into {D}; found {[src(s_) for s_, _ in others]}")
        return
    st, e_at = wb[0]
    tgt = substitute(st.targets[0], e_at)
    val = substitute(st.value, e_at)
    # value must be X.to_bytes(K, 'little')
    if not (isinstance(val, ast.Call) and isinstance(val.func, ast.Attribute) and val.func.attr == "to_bytes" and len(val.args) == 2
            and isinstance(val.args[1], ast.Constant) and val.args[1].value == "little"):
        chk.unk("R3", f"{site} | write-back", f.loc(st), f"stored value `{src(val)[:80]}` is not <int>.to_bytes(<n>, 'little')")
        return
    X, K = val.func.value, val.args[0]
    sl = tgt.slice
    if isinstance(sl, ast.Slice) and sl.lower is None and sl.upper is None:
        win_t = ("whole",)
    elif isinstance(sl, ast.Slice) and sl.step is None:
        win_t = ("slice", sl.lower or ast.Constant(0), sl.upper)
    elif isinstance(sl, ast.Call) and dotted(sl.func) == "slice" and len(sl.args) == 2:
        win_t = ("slice", sl.args[0], sl.args[1])
    else:
        chk.unk("R3", f"{site} | write-back", f.loc(st), f"target `{src(tgt)}` not recognised")
        return
    # X = (V << S) | (W & ~(M << S))
    if not (isinstance(X, ast.BinOp) and isinstance(X.op, ast.BitOr)):
        chk.unk("R3", f"{site} | insertion", f.loc(st), f"`{src(X)[:100]}` is not <value << shift> | <cleared frame>")
        return
    ins = clr = None
    for a, b in ((X.left, X.right), (X.right, X.left)):
        if isinstance(a, ast.BinOp) and isinstance(a.op, ast.LShift) and isinstance(b, ast.BinOp) and isinstance(b.op, ast.BitAnd):
            ins, clr = a, b
        elif isinstance(a, ast.BinOp) and isinstance(a.op, ast.BitAnd) and isinstance(a.left, ast.BinOp) and isinstance(a.left.op, ast.LShift) and isinstance(b, ast.BinOp):
            ins, clr = a, b
    if ins is None:
        for a, b in ((X.left, X.right), (X.right, X.left)):
            if isinstance(a, ast.BinOp) and isinstance(a.op, ast.LShift) and "from_bytes" in src(b) and not any(isinstance(x, ast.Invert) for x in ast.walk(b)):
                chk.bad("R3", f"{site} | old bits cleared with the complement of the field mask", f.loc(st),
                        f"the new value is OR-ed onto `{src(b)[:70]}` without clearing the field first: bits that were 1 stay 1")
                return
        chk.unk("R3", f"{site} | insertion", f.loc(st), f"`{src(X)[:100]}` is not <value << shift> | <cleared frame>")
        return
    mask_c = ff.canon(MASK_FORMS[0])
    # masked insertion
    masked = False
    S = None
    if isinstance(ins.op, ast.LShift):
        V, S = ins.left, ins.right
        if isinstance(V, ast.BinOp) and isinstance(V.op, ast.BitAnd) and mask_c in (ff.norm(V.left, subst=False), ff.norm(V.right, subst=False)):
            masked = True
    else:   # (v << S) & (M << S)
        S = ins.left.right
        other = ins.right
        masked = isinstance(other, ast.BinOp) and isinstance(other.op, ast.LShift) and ff.norm(other.left, subst=False) == mask_c and src(other.right) == src(S)
    chk.check(masked, "R3", f"{site} | inserted value masked to the field", f.loc(st),
              f"`{src(ins)[:90]}` shifts an unmasked value into the frame: a negative or oversized value overwrites the neighbouring fields")
    # cleared mask is the complement at the same shift
    W = None
    ok_clr = False
    for a, b in ((clr.left, clr.right), (clr.right, clr.left)):
        if isinstance(b, ast.UnaryOp) and isinstance(b.op, ast.Invert) and isinstance(b.operand, ast.BinOp) and isinstance(b.operand.op, ast.LShift) \
                and ff.norm(b.operand.left, subst=False) == mask_c and src(b.operand.right) == src(S):
            W, ok_clr = a, True
    chk.check(ok_clr, "R3", f"{site} | old bits cleared with the complement of the field mask", f.loc(st), f"`{src(clr)[:90]}`")
    if W is None:
        return
    wr = _window(W)
    same = (wr == win_t) or (wr is not None and wr[0] == win_t[0] == "slice" and src(wr[1]) == src(win_t[1]) and src(wr[2]) == src(win_t[2]))
    chk.check(same, "R3", f"{site} | bytes written back = bytes read", f.loc(st), f"read window {[src(x) if isinstance(x, ast.AST) else x for x in (wr or ())]} vs written {[src(x) if isinstance(x, ast.AST) else x for x in win_t]}")
    _check_window(chk, "R2", f"{site} | insertion window", f.loc(st), folder, ff.scope, wr, S, True, K)
    # the new value's bytes are read little-endian from the caller's data
    vtxt = src(ins)
    chk.check("int.from_bytes(data, 'little')" in vtxt, "R3", f"{site} | value = low bits of the caller's bytes", f.loc(st), f"{vtxt[:90]}")
