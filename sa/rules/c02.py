"""C02 -- SDO server serves and stores object values exactly, in conformant CiA 301 frames."""
from __future__ import annotations

import ast

from .. import oracles as O
from ..cfg import typestate
from ..fold import Scope, Unfoldable, dotted, src
from ..frames import Unrecognised, command_terms, frame_at, terms_at
from .common import (always_exits, attr_stores, ctx, ff_for, find_calls, must_pass, node_calls, own_nodes, path_text,
                     resolve_callee)
from .sdoframes import SERVER, check_layout, check_length, check_nfield_range, check_stores, command_expr, sinks

SV = "canopen/sdo/server.py"
LN = "canopen/node/local.py"

DISPATCH = {0x40: "init_upload", 0x60: "segmented_upload", 0x20: "init_download", 0x00: "segmented_download",
            0xA0: "block_upload", 0xC0: "block_download", 0x80: "request_aborted"}

EXPLANATION = (
    "Five server emission sites: R1 frame length 8; R2 command byte layout per response (expedited and segmented "
    "initiate-upload evaluated per branch); R3 n-field operand range (the empty value must not take the expedited "
    "path); R4 conservation: prefix sent and prefix deleted use the same bound, announced size = len of the data copied, "
    "last-segment flag exactly when the buffer is exhausted (predicate evaluated for 0..30 remaining bytes), download "
    "segment appends request[1:8-n]; R5 both initiate handlers echo the multiplexer unpacked from the request; R6 "
    "segment handlers: toggle compare first, own toggle OR-ed in before exactly one flip; R7 exhaustive dispatch over "
    "all eight specifier values to the right handler; R8 every handler sends exactly one response on every normal path "
    "and nothing that can raise follows it; R9 on_request needs one byte outside its try and abort() cannot raise "
    "(integer multiplexer from construction); R10 value precedence callbacks -> data_store -> value -> default -> abort, "
    "each source selected by presence (is not None / KeyError), never by truthiness; R11 an accepted download stores an "
    "immutable copy of exactly the transferred bytes; R12 every segmented transfer starts from a fresh buffer and toggle 0; R13 abort responses echo the multiplexer of the request: every handler records it before anything that can abort (shared with C06.R3); R15 ODVariable.__len__ per data type (shared with C04.R5); R16 members of arrays that are described once are served like described ones (shared with C08.R11); R14 structural assumptions shared by all properties: no class-level mutable object is mutated in place by instances, no method re-runs the constructor, logging statements cannot raise (typed eager formatting, divisions), no mutable default argument is kept or mutated, no new truth-value test of a None-able number, a look-up memory the pinned tree does not have is keyed by all its inputs (arithmetic keys folded over a grid of addresses) and, on the serving side, emptied somewhere."
    ' R12 also: whatever a segment handler advances is set by the initiate handler of that direction; R14 includes the lock clauses (no callback under a plain Lock, no SDO exchange while holding a lock a receive callback takes).'
    ' R11 also: nothing that can refuse the write (a write callback) runs after the store; R12 also: per-transfer memory one initiate handler resets and the other direction consults is reset by both.'
)
ASSUMPTIONS = [
    "not decided: values for generated object dictionaries and request histories; read/write callbacks are opaque",
    "LocalNode.set_data stores bytes(data) (decided by C06.R2/R6)",
]


def run(chk):
    repo, folder = ctx(chk)
    server_frames(chk)
    _conservation(chk, repo, folder)
    _mux_echo(chk, repo, folder)
    _toggle(chk, repo, folder)
    _dispatch(chk, repo, folder)
    _one_response(chk, repo, folder)
    _totality(chk, repo, folder)
    _precedence(chk, repo, folder)
    from . import shared
    shared.store_exact(chk, "R11")
    shared.server_reset(chk, "R12")
    # R13: every response echoes the addressed multiplexer -- including the abort responses (clause shared with C06.R3)
    from . import c06
    c06.abort_frame_and_multiplexer(chk, "R13")


def server_frames(chk):
    """The server's five emission sites against the CiA 301 frame layouts (R1 length, R2 command byte, R3 n-field operand range);
    shared with C03, whose values travel in these frames."""
    repo, folder = ctx(chk)
    mod = repo.mod(SV, "C02")
    sc = Scope(mod)

    # ------------------------------------------------------------------ emission sites
    n_sites = 0
    for fq, step in (("SdoServer.segmented_upload", "upload_segment"), ("SdoServer.init_download", "download_initiate"),
                     ("SdoServer.segmented_download", "download_segment"), ("SdoServer.abort", "abort")):
        f = repo.func(SV, fq, "C02")
        ff = ff_for(chk, f, "C02")
        for call, stmt in sinks(ff, ("send_response",)):
            lay = SERVER[step]
            site = f"{SV}:{fq} | {lay.name}"
            n_sites += 1
            try:
                fr = frame_at(ff, call.args[0], stmt)
            except Unrecognised as e:
                chk.unk("R1", site, f.loc(stmt), str(e))
                continue
            check_length(chk, "R1", site, f.loc(stmt), fr)
            ce = command_expr(fr)
            if ce is None:
                chk.unk("R2", site, f.loc(stmt), "no store to byte 0")
                continue
            try:
                must, may = terms_at(ff, ce[0], ce[1])
            except Unrecognised as e:
                chk.unk("R2", site, f.loc(ce[1]), str(e))
                continue
            check_layout(chk, "R2", site, f.loc(ce[1]), lay, set(must), set(may))
            check_nfield_range(chk, "R3", site, ff, ce[1], lay, set(must))
            check_stores(chk, "R1", site, ff, fr, lay)
    # init_upload: one sink, two layouts selected by the expedited branch
    f = repo.func(SV, "SdoServer.init_upload", "C02")
    ff = ff_for(chk, f, "C02")
    for call, stmt in sinks(ff, ("send_response",)):
        n_sites += 1
        site0 = f"{SV}:SdoServer.init_upload"
        try:
            fr = frame_at(ff, call.args[0], stmt)
        except Unrecognised as e:
            chk.unk("R1", site0, f.loc(stmt), str(e))
            continue
        check_length(chk, "R1", site0 + " | initiate upload response", f.loc(stmt), fr)
        ce = command_expr(fr)
        cvar = ce[0].id if ce and isinstance(ce[0], ast.Name) else None
        branch_if = None
        for n in own_nodes(f.node):
            if isinstance(n, ast.If) and any(isinstance(x, ast.AugAssign) and folder.try_fold(x.value, ff.scope, None) == 0x02 for b in n.body for x in ast.walk(b)):
                branch_if = n
        if cvar is None or branch_if is None:
            chk.unk("R2", site0, f.loc(stmt), "expedited/segmented branch of init_upload not recognised")
            continue
        try:
            OUT = command_terms(ff, cvar, want_out=True)
        except Unrecognised as e:
            chk.unk("R2", site0, f.loc(stmt), str(e))
            continue
        for body, step in ((branch_if.body, "upload_initiate_exp"), (branch_if.orelse, "upload_initiate_seg")):
            lay = SERVER[step]
            site = f"{site0} | {lay.name}"
            last = body[-1] if body else None
            if last is None:
                chk.bad("R2", site, f.loc(branch_if), "branch missing")
                continue
            st = OUT.get(ff.cfg.node_of(last))
            if st is None:
                chk.unk("R2", site, f.loc(last), "no command state at the end of the branch")
                continue
            check_layout(chk, "R2", site, f.loc(last), lay, set(st[0]), set(st[1]))
            check_nfield_range(chk, "R3", site, ff, last, lay, set(st[0]))
            # stores of the branch stay in fields
            sub = [s_ for s_ in fr.stores if any(s_.stmt is x for b in body for x in ast.walk(b)) or s_.lo == 0]
            from ..frames import Frame
            check_stores(chk, "R1", site, ff, Frame(fr.length, fr.origin, fr.create, sub, fr.parts), lay)
        # no code after the branch changes the command
        tail = [n for n in own_nodes(f.node) if isinstance(n, (ast.AugAssign, ast.Assign)) and cvar in __import__("sa.facts", fromlist=["x"]).assigned_targets(n)
                and n.lineno > branch_if.end_lineno]
        chk.check(not tail, "R2", f"{site0} | command final after the branch", f.loc(), "the command byte is modified after the expedited/segmented decision")
    chk.floor("R1", n_sites, 5, "server emission sites")



# ---------------------------------------------------------------------------------------------------- R4
def _conservation(chk, repo, folder):
    f = repo.func(SV, "SdoServer.segmented_upload", "C02.R4")
    ff = ff_for(chk, f, "C02.R4")
    takes = [n for n in own_nodes(f.node) if isinstance(n, ast.Assign) and isinstance(n.value, ast.Subscript) and dotted(n.value.value) == "self._buffer"
             and isinstance(n.value.slice, ast.Slice)]
    dels = [n for n in own_nodes(f.node) if isinstance(n, ast.Delete) and isinstance(n.targets[0], ast.Subscript) and dotted(n.targets[0].value) == "self._buffer"]
    chk.floor("R4", len(takes) + len(dels), 2, "prefix taken / prefix deleted in segmented_upload")
    if takes and dels:
        a, b = src(takes[0].value.slice), src(dels[0].targets[0].slice)
        chk.check(a == b == ":7", "R4", f"{SV}:SdoServer.segmented_upload | sent prefix = removed prefix", f.loc(dels[0]),
                  f"sends self._buffer[{a}] but removes self._buffer[{b}]: bytes are lost or repeated")
        dvar = src(takes[0].targets[0])
        sz = [n for n in own_nodes(f.node) if isinstance(n, ast.Assign) and src(n.value) == f"len({dvar})"]
        chk.check(len(sz) == 1, "R4", f"{SV}:SdoServer.segmented_upload | size = len(sent data)", f.loc(), f"no `size = len({dvar})`")
        stores = [n for n in own_nodes(f.node) if isinstance(n, ast.Assign) and isinstance(n.targets[0], ast.Subscript) and dotted(n.targets[0].value) == "response"
                  and isinstance(n.targets[0].slice, ast.Slice)]
        chk.check(len(stores) == 1, "R4", f"{SV}:SdoServer.segmented_upload | segment carries the data", f.loc(), f"{len(stores)} data stores into the response")
        for s_ in stores:
            chk.check(src(s_.value) == dvar, "R4", f"{SV}:SdoServer.segmented_upload | data store", f.loc(s_), f"stores {src(s_.value)}, expected {dvar}")
        # last-segment predicate
        adds = [n for n in own_nodes(f.node) if isinstance(n, ast.AugAssign) and isinstance(n.op, ast.BitOr) and folder.try_fold(n.value, ff.scope, None) == 1]
        chk.floor("R4", len(adds), 1, "NO_MORE_DATA in segmented_upload")
        delnode = ff.cfg.node_of(dels[0])
        for a_ in adds:
            from .c06 import _immediate_guard
            ig = _immediate_guard(f.node, a_)
            if ig is None:
                chk.bad("R4", f"{SV}:SdoServer.segmented_upload | last-segment flag", f.loc(a_), "the last-segment flag is set unconditionally")
                continue
            test, pol = ig
            tnode = [n for n in ff.cfg.nodes if n.kind == "test" and n.ast is test]
            after = bool(tnode) and tnode[0] in ff.cfg.reach_from(delnode)
            ok, det = _exhausted_pred(ff, folder, test, pol, after, delnode)
            if ok is None:
                chk.unk("R4", f"{SV}:SdoServer.segmented_upload | last-segment flag", f.loc(a_), det)
            else:
                chk.check(ok, "R4", f"{SV}:SdoServer.segmented_upload | last-segment flag exactly when exhausted", f.loc(a_), det)
    f = repo.func(SV, "SdoServer.init_upload", "C02.R4")
    ff = ff_for(chk, f, "C02.R4")
    sz = ff.one_def("size")
    chk.check(sz is not None and src(sz) == "len(data)", "R4", f"{SV}:SdoServer.init_upload | size = len(data)", f.loc(), f"size = {src(sz) if sz is not None else '?'}")
    dd = ff.one_def("data")
    chk.check(dd is not None and isinstance(dd, ast.Call) and dotted(dd.func) == "self._node.get_data" and [src(a) for a in dd.args] == ["index", "subindex"], "R4",
              f"{SV}:SdoServer.init_upload | value source", f.loc(), f"data = {src(dd) if dd is not None else '?'}")
    if dd is not None and isinstance(dd, ast.Call):
        kw = {k.arg: folder.try_fold(k.value, ff.scope, None) for k in dd.keywords}
        chk.check(kw.get("check_readable") is True, "R4", f"{SV}:SdoServer.init_upload | readable check requested", f.loc(), "write-only entries would be served")
    ann = [c for c in find_calls(f.node, "struct.pack_into") if folder.try_fold(c.args[0], ff.scope, None) == "<L"]
    chk.check(len(ann) == 1, "R4", f"{SV}:SdoServer.init_upload | segmented upload announces its size", f.loc(), f"{len(ann)} stores of the '<L' size field: the true size is not announced")
    for c in ann:
        chk.check(folder.try_fold(c.args[2], ff.scope, None) == 4 and src(c.args[3]) == "size", "R4", f"{SV}:SdoServer.init_upload | announced size", f.loc(c), src(c))
        g = [(ff.norm(e, subst=False), p) for e, p in ff.facts_at(ff.stmt_of(c))]
        chk.check(any("size" in t for t, p in g), "R4", f"{SV}:SdoServer.init_upload | size announced on the segmented branch", f.loc(c), f"{g}")
    bs = [s_ for s_ in attr_stores(f.node, "_buffer")]
    for s_ in bs:
        chk.check(src(s_.value) in ("bytearray(data)",), "R4", f"{SV}:SdoServer.init_upload | buffer is a copy of the value", f.loc(s_), f"_buffer = {src(s_.value)}")
    ex = [n for n in own_nodes(f.node) if isinstance(n, ast.Assign) and isinstance(n.targets[0], ast.Subscript) and dotted(n.targets[0].value) == "response"
          and isinstance(n.targets[0].slice, ast.Slice)]
    chk.check(len(ex) == 1, "R4", f"{SV}:SdoServer.init_upload | expedited response carries the data", f.loc(), f"{len(ex)} stores of the value into response[4:4+size]")
    for s_ in ex:
        chk.check(src(s_.value) == "data" and ff.is_form(s_.targets[0].slice.upper, "4 + size") and src(s_.targets[0].slice.lower) == "4", "R4",
                  f"{SV}:SdoServer.init_upload | expedited data", f.loc(s_), src(s_))
    f = repo.func(SV, "SdoServer.segmented_download", "C02.R4")
    ff = ff_for(chk, f, "C02.R4")
    ext = find_calls(f.node, "self._buffer.extend")
    chk.floor("R4", len(ext), 1, "buffer extension in segmented_download")
    for c in ext:
        a = c.args[0]
        ok = isinstance(a, ast.Subscript) and src(a.value) == f.params[2] and isinstance(a.slice, ast.Slice) and src(a.slice.lower) == "1" \
            and ff.is_form(a.slice.upper, "8 - ((command >> 1) & 0x7)", subst=True)
        if not ok and isinstance(a, ast.Subscript) and src(a.value) == f.params[2] and isinstance(a.slice, ast.Slice) and a.slice.step is None:
            # decided by value: both bounds, with single-definition locals put in, folded for all command bytes
            def _resolved(e_):
                e2 = e_
                for _ in range(4):
                    names_ = [x for x in ast.walk(e2) if isinstance(x, ast.Name) and x.id not in ("command",) and ff.one_def(x.id) is not None]
                    if not names_:
                        break
                    from .common import substitute as _subst
                    e2 = _subst(e2, {x.id: ff.one_def(x.id) for x in names_})
                return e2
            try:
                lo_e, hi_e = _resolved(a.slice.lower) if a.slice.lower is not None else ast.Constant(value=0), _resolved(a.slice.upper)
                ok = all(folder.fold(lo_e, Scope(f.mod, None, {"command": cb})) == 1 and folder.fold(hi_e, Scope(f.mod, None, {"command": cb})) == 8 - ((cb >> 1) & 7) for cb in range(256))
            except Exception:  # noqa
                ok = False
        chk.check(ok, "R4", f"{SV}:SdoServer.segmented_download | appended bytes", f.loc(c), f"appends {src(a)}; CiA 301: request[1:8 - n] with n = bits 3..1")
    sd = find_calls(f.node, "self._node.set_data")
    chk.check(len(sd) == 1, "R4", f"{SV}:SdoServer.segmented_download | completed download is committed", f.loc(), f"{len(sd)} set_data calls: the transferred bytes are never stored")
    for c in sd:
        g = [(ff.norm(e, subst=False), p) for e, p in ff.facts_at(ff.stmt_of(c))]
        chk.check((ff.canon("command & NO_MORE_DATA"), True) in g and [src(a) for a in c.args] == ["self._index", "self._subindex", "self._buffer"], "R4",
                  f"{SV}:SdoServer.segmented_download | commit on the last segment", f.loc(c), f"{src(c)} under {g}")
        chk.check(ff.cfg.node_of(ff.stmt_of(ext[0])) in ff.cfg.dominators()[ff.cfg.node_of(ff.stmt_of(c))] if ext else False, "R4",
                  f"{SV}:SdoServer.segmented_download | last data appended before commit", f.loc(c), "set_data runs before the last segment's bytes are appended")
    f = repo.func(SV, "SdoServer.init_download", "C02.R4")
    ff = ff_for(chk, f, "C02.R4")
    exp_tests = [n for n in ff.cfg.nodes if n.kind == "test" and "EXPEDITED" in src(n.ast)]
    chk.check(len(exp_tests) == 1 and ff.is_form(exp_tests[0].ast, "command & EXPEDITED"), "R4", f"{SV}:SdoServer.init_download | expedited bit selects the path", f.loc(),
              f"{[src(t.ast) for t in exp_tests]}; expected `command & EXPEDITED` (bit 1 of the request)")
    # which bytes of the request an expedited download stores: decided by specialising the handler for the eight expedited command
    # bytes (size flag x n = 0..3) -- bytes 4 .. 4 + (4 - n) when the size is indicated, 4 .. 8 otherwise; the shape of the code
    # (a local `size`, a conditional expression inside the slice, named bounds) does not matter
    commits = find_calls(f.node, "self._node.set_data")
    chk.check(len(commits) == 1, "R4", f"{SV}:SdoServer.init_download | expedited download is committed", f.loc(), f"{len(commits)} set_data calls")

    def _bounds(cmd_value):
        env = {}
        for st_ in f.node.body:
            r_ = _walk_spec(st_, env, cmd_value)
            if r_ is not None:
                return r_
        return ("unknown", "no set_data reached")

    def _walk_spec(st_, env, cmd_value):
        if isinstance(st_, ast.Assign) and len(st_.targets) == 1 and isinstance(st_.targets[0], ast.Tuple) and isinstance(st_.value, ast.Call) \
                and (dotted(st_.value.func) or "").endswith("unpack_from") and isinstance(st_.targets[0].elts[0], ast.Name):
            env[st_.targets[0].elts[0].id] = cmd_value
            for e_ in st_.targets[0].elts[1:]:
                if isinstance(e_, ast.Name):
                    env.pop(e_.id, None)
            return None
        if isinstance(st_, ast.Assign) and len(st_.targets) == 1 and isinstance(st_.targets[0], ast.Name):
            try:
                env[st_.targets[0].id] = folder.fold(st_.value, Scope(f.mod, f.cls, dict(env)))
            except Unfoldable:
                env.pop(st_.targets[0].id, None)
            return None
        if isinstance(st_, ast.AugAssign) and isinstance(st_.target, ast.Name):
            try:
                env[st_.target.id] = folder.fold(ast.BinOp(left=ast.Name(id=st_.target.id, ctx=ast.Load()), op=st_.op, right=st_.value), Scope(f.mod, f.cls, dict(env)))
            except Unfoldable:
                env.pop(st_.target.id, None)
            return None
        if isinstance(st_, ast.If):
            try:
                t_ = folder.fold(st_.test, Scope(f.mod, f.cls, dict(env)))
            except Unfoldable as ex_:
                return ("unknown", f"test `{src(st_.test)}`: {ex_}")
            for s2 in (st_.body if t_ else st_.orelse):
                r_ = _walk_spec(s2, env, cmd_value)
                if r_ is not None:
                    return r_
            return None
        for c_ in [x for x in ast.walk(st_) if isinstance(x, ast.Call) and dotted(x.func) == "self._node.set_data"]:
            a_ = c_.args[2] if len(c_.args) > 2 else None
            if not (isinstance(a_, ast.Subscript) and isinstance(a_.slice, ast.Slice) and a_.slice.step is None):
                return ("unknown", f"stored value `{src(a_) if a_ is not None else '?'}` is not a slice")
            if src(a_.value) != f.params[1]:
                return ("bad", f"stores a slice of `{src(a_.value)}`, not of the request")
            try:
                lo_ = folder.fold(a_.slice.lower, Scope(f.mod, f.cls, dict(env))) if a_.slice.lower is not None else 0
                hi_ = folder.fold(a_.slice.upper, Scope(f.mod, f.cls, dict(env))) if a_.slice.upper is not None else 8
            except Unfoldable as ex_:
                return ("unknown", f"bounds of `{src(a_)}`: {ex_}")
            return ("slice", lo_, hi_, c_)
        return None
    spec_bad = spec_unknown = None
    n_spec = 0
    for s_bit in (0, 1):
        for n_ in range(4):
            cmd_ = 0x20 | 0x02 | s_bit | (n_ << 2)
            r_ = _bounds(cmd_)
            if r_[0] == "unknown":
                spec_unknown = r_[1]
                break
            if r_[0] == "bad":
                spec_bad = r_[1]
                break
            want_ = (4, 4 + (4 - n_ if s_bit else 4))
            n_spec += 1
            if (r_[1], r_[2]) != want_:
                spec_bad = (f"for command byte {cmd_:#04x} (size {'indicated, n = ' + str(n_) if s_bit else 'not indicated'}) bytes [{r_[1]}, {r_[2]}) of the request are stored; "
                            f"CiA 301: bytes [{want_[0]}, {want_[1]})")
                break
        if spec_bad or spec_unknown:
            break
    if spec_unknown is None:
        chk.check(spec_bad is None, "R4", f"{SV}:SdoServer.init_download | expedited payload", f.loc(commits[0]) if commits else f.loc(), spec_bad or "",
                  f"specialised for {n_spec} expedited command bytes")
        for c in commits:
            chk.check([src(x) for x in c.args[:2]] == ["index", "subindex"], "R4", f"{SV}:SdoServer.init_download | expedited payload stored at the request's multiplexer", f.loc(c), f"{src(c)}")
    else:
        chk.notes.append(f"C02.R4 init_download could not be specialised ({spec_unknown}); the shape checks stand alone")
        sizes = [n for n in own_nodes(f.node) if isinstance(n, ast.Assign) and src(n.targets[0]) == "size" and any(p and ff.norm(e, subst=False) == ff.canon("command & EXPEDITED") for e, p in ff.facts_at(n))]
        chk.check(len(sizes) == 2, "R4", f"{SV}:SdoServer.init_download | expedited size for sized and unsized requests", f.loc(), f"{[src(s_) for s_ in sizes]}")
        commits = find_calls(f.node, "self._node.set_data")
        chk.check(len(commits) == 1, "R4", f"{SV}:SdoServer.init_download | expedited download is committed", f.loc(), f"{len(commits)} set_data calls")
        for c in find_calls(f.node, "self._node.set_data"):
            a = c.args[2] if len(c.args) > 2 else None
            ok = a is not None and isinstance(a, ast.Subscript) and isinstance(a.slice, ast.Slice) and src(a.slice.lower) == "4" and ff.is_form(a.slice.upper, "4 + size")
            chk.check(ok and [src(x) for x in c.args[:2]] == ["index", "subindex"], "R4", f"{SV}:SdoServer.init_download | expedited payload", f.loc(c), f"{src(c)}")
        for s_ in [n for n in own_nodes(f.node) if isinstance(n, ast.Assign) and src(n.targets[0]) == "size"]:
            g = [(ff.norm(e, subst=False), p) for e, p in ff.facts_at(s_)]
            if (ff.canon("command & EXPEDITED"), True) in g:
                sized = [t for t, p in g if "SIZE_SPECIFIED" in t or t == ff.canon("command & 1")]
                chk.check(bool(sized), "R4", f"{SV}:SdoServer.init_download | size source selected by the s bit ({src(s_)[:30]})", f.loc(s_), f"{g}")
                if (ff.canon("command & SIZE_SPECIFIED"), True) in g:
                    chk.check(ff.is_form(s_.value, "4 - ((command >> 2) & 0x3)"), "R4", f"{SV}:SdoServer.init_download | expedited size (sized)", f.loc(s_), src(s_))
                else:
                    chk.check(folder.try_fold(s_.value, ff.scope, None) == 4, "R4", f"{SV}:SdoServer.init_download | expedited size (unsized)", f.loc(s_), src(s_))
    # R16: entries of arrays that are described once (implicit members) are served like described ones (shared with C08.R11 / C06.R9)
    from . import c08 as _c08im
    _c08im.implicit_members(chk, "R16")
    # ------------------------------------------------------------------ R15 ODVariable.__len__ per data type (the download length check and size announcements use len(obj); shared with C04.R5)
    from . import c04 as _c04len
    _c04len.bit_length_by_type(chk, "R15")
    # ------------------------------------------------------------------ R14 instances are independent (shared clause)
    from . import shared as _shared
    _shared.isolation(chk, "R14", rels=['canopen/sdo/server.py', 'canopen/sdo/base.py', 'canopen/node/local.py', 'canopen/objectdictionary/__init__.py', 'canopen/objectdictionary/datatypes.py'])


def _exhausted_pred(ff, folder, test, pol, after_delete, delnode):
    """Is (test == pol) equivalent to 'no data left after this segment'?"""
    t = ff.norm(test, subst=False)
    if after_delete:
        pos = {ff.canon("not self._buffer"), ff.canon("len(self._buffer) == 0"), ff.canon("not len(self._buffer)"), ff.canon("len(self._buffer) < 1")}
        neg = {ff.canon("self._buffer"), ff.canon("len(self._buffer) != 0"), ff.canon("len(self._buffer)"), ff.canon("len(self._buffer) > 0")}
        if (t in pos and pol) or (t in neg and not pol):
            return True, "tested after the sent bytes were removed"
        if (t in neg and pol) or (t in pos and not pol):
            return False, "polarity inverted: the flag is set while data remains"
    # a comparison on len(self._buffer) itself, evaluated before or after the deletion
    if any(isinstance(n, ast.Call) and src(n) == "len(self._buffer)" for n in ast.walk(test)):
        import copy as _copy

        class _L(ast.NodeTransformer):
            def visit_Call(self, node):
                if src(node) == "len(self._buffer)":
                    return ast.copy_location(ast.Name(id="__remaining", ctx=ast.Load()), node)
                return self.generic_visit(node)
        t2 = _L().visit(_copy.deepcopy(test))
        if not any(isinstance(n, (ast.Attribute, ast.Call)) for n in ast.walk(t2)):
            before = not after_delete
            wrong = []
            for r in range(0, 31):
                try:
                    v = bool(folder.fold(t2, Scope(ff.scope.mod, ff.scope.cls, {"__remaining": r})))
                except Unfoldable as e:
                    return None, f"predicate does not evaluate: {e}"
                v = v if pol else not v
                left_after = max(0, r - 7) if before else r
                if v != (left_after == 0):
                    wrong.append(r)
            if wrong:
                return False, (f"with {wrong[0]} bytes {'remaining before' if before else 'left after'} this segment the last-segment flag is "
                               f"{'not set' if (max(0, wrong[0] - 7) if before else wrong[0]) == 0 else 'set'} (predicate `{src(test)}`, wrong for remaining in {wrong[:6]})")
            return True, f"predicate `{src(test)}` evaluated for 0..30 remaining bytes"
    # a comparison on a local that holds len(self._buffer) taken before the deletion
    names = [n.id for n in ast.walk(test) if isinstance(n, ast.Name)]
    for nm in names:
        d = ff.one_def(nm)
        if d is not None and src(d) == "len(self._buffer)":
            # definition precedes the delete?
            defst = [n for n in ast.walk(ff.func.node) if isinstance(n, ast.Assign) and isinstance(n.targets[0], ast.Name) and n.targets[0].id == nm][0]
            before = delnode in ff.cfg.reach_from(ff.cfg.node_of(defst))
            wrong = []
            for r in range(0, 31):
                try:
                    v = bool(folder.fold(test, Scope(ff.scope.mod, ff.scope.cls, {nm: r})))
                except Unfoldable as e:
                    return None, f"predicate does not evaluate: {e}"
                v = v if pol else not v
                left_after = max(0, r - 7) if before else r
                if v != (left_after == 0):
                    wrong.append(r)
            if wrong:
                return False, (f"with {wrong[0]} bytes {'remaining before' if before else 'left after'} this segment the last-segment flag is "
                               f"{'not set' if (max(0, wrong[0] - 7) if before else wrong[0]) == 0 else 'set'}: the client sees "
                               f"{'an extra empty segment / no end' if True else ''} (predicate `{src(test)}`, wrong for remaining in {wrong[:6]})")
            return True, f"predicate `{src(test)}` evaluated for 0..30 remaining bytes"
    # a comparison on the size of the prefix just taken: size = len(data), data = self._buffer[:7]
    for nm in names:
        d = ff.one_def(nm)
        if d is not None and isinstance(d, ast.Call) and dotted(d.func) == "len" and isinstance(d.args[0], ast.Name):
            dd = ff.one_def(d.args[0].id)
            if dd is not None and src(dd) == "self._buffer[:7]":
                wrong = []
                for r in range(0, 31):
                    try:
                        v = bool(folder.fold(test, Scope(ff.scope.mod, ff.scope.cls, {nm: min(r, 7)})))
                    except Unfoldable as e:
                        return None, f"predicate does not evaluate: {e}"
                    v = v if pol else not v
                    if v != (max(0, r - 7) == 0):
                        wrong.append(r)
                if wrong:
                    return False, (f"with {wrong[0]} bytes remaining before this segment ({min(wrong[0], 7)} sent) the last-segment flag is "
                                   f"{'not set although nothing is left' if max(0, wrong[0] - 7) == 0 else 'set although data remains'} (predicate `{src(test)}`, wrong for remaining in {wrong[:6]})")
                return True, f"predicate `{src(test)}` evaluated for 0..30 remaining bytes"
    return None, f"last-segment predicate `{src(test)}` not recognised"


# ---------------------------------------------------------------------------------------------------- R5
def _mux_echo(chk, repo, folder):
    for fq in ("SdoServer.init_upload", "SdoServer.init_download"):
        f = repo.func(SV, fq, "C02.R5")
        ff = ff_for(chk, f, "C02.R5")
        req = f.params[1]
        unp = [n for n in own_nodes(f.node) if isinstance(n, ast.Assign) and isinstance(n.value, ast.Call) and dotted(n.value.func) == "SDO_STRUCT.unpack_from"
               and src(n.value.args[0]) == req and isinstance(n.targets[0], ast.Tuple) and len(n.targets[0].elts) == 3]
        chk.check(len(unp) == 1, "R5", f"{SV}:{fq} | request decoded", f.loc(), "no `_, index, subindex = SDO_STRUCT.unpack_from(request)`")
        if not unp:
            continue
        names = [src(e) for e in unp[0].targets[0].elts]
        packs = [c for c in find_calls(f.node, "SDO_STRUCT.pack_into")]
        chk.floor("R5", len(packs), 1, f"response header in {fq}")
        for c in packs:
            args = [src(a) for a in c.args]
            chk.check(args[0] == "response" and folder.try_fold(c.args[1], ff.scope, None) == 0 and args[3:5] == names[1:3], "R5",
                      f"{SV}:{fq} | multiplexer echoed", f.loc(c), f"response header {args}; expected the request's ({names[1]}, {names[2]}) at bytes 1..3")
        from ..facts import assigned_targets
        reb = [n for n in own_nodes(f.node) if isinstance(n, ast.stmt) and n is not unp[0] and set(names[1:3]) & assigned_targets(n)]
        chk.check(not reb, "R5", f"{SV}:{fq} | multiplexer unchanged", f.loc(), "index/subindex reassigned between request and response")


# ---------------------------------------------------------------------------------------------------- R6
def _toggle(chk, repo, folder):
    init = repo.func(SV, "SdoServer.__init__", "C02.R6")
    st = attr_stores(init.node, "_toggle")
    cc = repo.class_const(init.cls, "_toggle")
    ok = (len(st) == 1 and folder.try_fold(st[0].value, Scope(init.mod), None) == 0) or \
        (not st and cc is not None and folder.try_fold(cc[1], Scope(init.mod), None) == 0)
    chk.check(ok, "R6", f"{SV}:SdoServer | toggle starts at 0", init.loc(), "the server's toggle does not start at 0")
    for fq in ("SdoServer.segmented_upload", "SdoServer.segmented_download"):
        f = repo.func(SV, fq, "C02.R6")
        ff = ff_for(chk, f, "C02.R6")
        sends = {id(s_) for c, s_ in sinks(ff, ("send_response",))}

        def kind(n):
            a = n.ast
            if n.kind != "stmt" or a is None:
                return None
            if id(a) in sends:
                return "send"
            if isinstance(a, ast.AugAssign) and dotted(a.target) == "self._toggle":
                return "flip" if isinstance(a.op, ast.BitXor) and folder.try_fold(a.value, ff.scope, None) == 0x10 else "badflip"
            if isinstance(a, ast.Assign) and any(dotted(t) == "self._toggle" for t in a.targets):
                return "badflip"
            if isinstance(a, (ast.Assign, ast.AugAssign)) and "self._toggle" in src(a.value):
                return "read"
            return None

        def step(n, s):
            reads, flips, snd = s
            k = kind(n)
            if k == "read":
                return ["ERR:own toggle read into the response after the flip"] if flips else [(1, flips, snd)]
            if k == "flip":
                return ["ERR:toggle flipped twice for one segment"] if flips else [(reads, 1, snd)]
            if k == "badflip":
                return ["ERR:self._toggle changed other than by ^= TOGGLE_BIT"]
            if k == "send":
                return [(reads, flips, snd + 1)]
            return [s]
        ex, rz, errs, IN = typestate(ff.cfg, [(0, 0, 0)], step)
        chk.product_states += sum(len(v) for v in IN.values() if v)
        for n, s, why in errs:
            chk.bad("R6", f"{SV}:{fq} | {why[:50]}", f.loc(n.ast), why)
        bad = [s for s in ex if s != (1, 1, 1)]
        chk.check(not bad and not errs and bool(ex), "R6", f"{SV}:{fq} | toggle read, one flip, one response", f.loc(),
                  f"a normal path ends with (toggle reads, flips, responses) = {sorted(bad)}")
        # compare request toggle first
        first = [s_ for s_ in f.node.body if not (isinstance(s_, ast.Expr) and isinstance(s_.value, ast.Constant))][0]
        ok = isinstance(first, ast.If) and ff.is_form(first.test, "command & TOGGLE_BIT != self._toggle") and always_exits(first.body)
        chk.check(ok, "R6", f"{SV}:{fq} | request toggle compared first", f.loc(first), "the segment handler does not start with the toggle comparison")


# ---------------------------------------------------------------------------------------------------- R7
def _dispatch(chk, repo, folder):
    f = repo.func(SV, "SdoServer.on_request", "C02.R7")
    ff = ff_for(chk, f, "C02.R7")
    ccs = ff.one_def("ccs")
    chk.check(ccs is not None and ff.is_form(ccs, "command & 0xE0"), "R7", f"{SV}:SdoServer.on_request | specifier extraction", f.loc(),
              f"ccs = {src(ccs) if ccs is not None else '?'}; expected command & 0xE0")
    seen = {}
    # every handler call is selected by exactly one positive fact `ccs == K` (wherever in the function the chain sits: in the
    # try body, split over an outer if, or in any order); the call under negative facts only is the answer to unknown specifiers
    has_else = False
    handler_names = {f"self.{v}" for v in DISPATCH.values()} | {"self.request_aborted"}
    for c in [x for x in own_nodes(f.node) if isinstance(x, ast.Call) and (dotted(x.func) or "").startswith("self.") and (dotted(x.func) in handler_names or dotted(x.func) == "self.abort")]:
        st = ff.stmt_of(c)
        if any(isinstance(h, ast.ExceptHandler) and any(y is st for y in ast.walk(h)) for h in own_nodes(f.node)):
            continue                    # the aborts of the exception handlers are R9's business
        facts = [(e, p) for e, p in ff.facts_at(st) if isinstance(e, ast.Compare) and src(e.left) == "ccs" and isinstance(e.ops[0], (ast.Eq, ast.NotEq))]
        pos = []
        for e, p in facts:
            k = folder.try_fold(e.comparators[0], ff.scope, None)
            if (isinstance(e.ops[0], ast.Eq) and p) or (isinstance(e.ops[0], ast.NotEq) and not p):
                pos.append(k)
        callee = dotted(c.func)
        if callee == "self.abort" and not pos:
            has_else = len(facts) >= len(DISPATCH)
            continue
        if len(pos) != 1 or pos[0] is None:
            chk.unk("R7", f"{SV}:SdoServer.on_request | call {callee}", f.loc(c), f"not selected by one test `ccs == CONST` (facts {[(src(e), p) for e, p in facts]})")
            continue
        v = pos[0]
        if v in seen and seen[v] != callee:
            chk.bad("R7", f"{SV}:SdoServer.on_request | specifier 0x{v:02X}", f.loc(c), f"selects both {seen[v]} and {callee}")
        seen[v] = callee
        want = DISPATCH.get(v)
        chk.check(want is not None and callee == f"self.{want}", "R7", f"{SV}:SdoServer.on_request | specifier 0x{v:02X}", f.loc(c),
                  f"requests with ccs 0x{v:02X} are handled by {callee}; CiA 301 makes that a {want or 'nothing'} request")
    for v, name in DISPATCH.items():
        if v not in seen:
            chk.bad("R7", f"{SV}:SdoServer.on_request | specifier 0x{v:02X}", f.loc(), f"no branch for ccs 0x{v:02X} ({name})")
    chk.check(has_else, "R7", f"{SV}:SdoServer.on_request | else branch", f.loc(), "no call of abort() under `ccs` different from every handled specifier: ccs 0xE0 falls silent")


# ---------------------------------------------------------------------------------------------------- R8
def _one_response(chk, repo, folder):
    """Per handler: responses on normal paths (send_response, self.abort, nested handler that responds)."""
    memo = {}

    def responses(fq):
        if fq in memo:
            return memo[fq]
        memo[fq] = {1}
        f = repo.func(SV, f"SdoServer.{fq}", "C02.R8")
        ff = ff_for(chk, f, "C02.R8")

        def count(n):
            a = n.ast
            if n.kind != "stmt" or a is None:
                return 0
            c = 0
            for call in [x for x in ast.walk(a) if isinstance(x, ast.Call)]:
                d = dotted(call.func) or ""
                if d in ("self.send_response",):
                    c += 1
                elif d == "self.abort":
                    c += 1
                elif d.startswith("self.") and d[5:] in DISPATCH.values() and d[5:] != fq:
                    c += max(responses(d[5:]))
            return c

        def step(n, s):
            return [min(s + count(n), 3)]
        ex, rz, errs, IN = typestate(ff.cfg, [0], step)
        chk.product_states += sum(len(v) for v in IN.values() if v)
        memo[fq] = set(ex)
        # nothing that can raise after the response
        for n in ff.cfg.nodes:
            if count(n):
                after = ff.cfg.reach_from(n, skip_exc=True)
                risky = []
                for m in after:
                    if m.ast is None or m.kind in ("exit", "raise"):
                        continue
                    for call in [x for x in ast.walk(m.ast) if isinstance(x, ast.Call)] if m.kind in ("stmt", "test") else []:
                        d = dotted(call.func) or src(call.func)
                        if not d.startswith("logger."):
                            risky.append((m, d))
                    if m.kind == "stmt" and isinstance(m.ast, ast.Raise):
                        risky.append((m, "raise"))
                chk.check(not risky, "R8", f"{SV}:SdoServer.{fq} | nothing can raise after the response", f.loc(n.ast),
                          f"after the response `{risky[0][1] if risky else ''}` at line {risky[0][0].lineno if risky else 0} may raise and on_request would answer a second time")
        return memo[fq]
    for fq in DISPATCH.values():
        got = responses(fq)
        want = {0} if fq == "request_aborted" else {1}
        chk.check(got == want, "R8", f"{SV}:SdoServer.{fq} | responses per request", repo.func(SV, f"SdoServer.{fq}").loc(),
                  f"normal paths send {sorted(got)} responses; expected exactly {sorted(want)}")
    ab = repo.func(SV, "SdoServer.abort", "C02.R8")
    fab = ff_for(chk, ab, "C02.R8")
    n_send = len([1 for c, s_ in sinks(fab, ("send_response",))])
    chk.check(n_send == 1, "R8", f"{SV}:SdoServer.abort | one frame", ab.loc(), f"abort sends {n_send} frames")
    sr = repo.func(SV, "SdoServer.send_response", "C02.R8")
    chk.saw(sr)
    cs = find_calls(sr.node, ".send_message")
    chk.check(len(cs) == 1 and [src(a) for a in cs[0].args] == ["self.tx_cobid", "response"], "R8", f"{SV}:SdoServer.send_response | on the server's tx COB-ID", sr.loc(), f"{[src(c) for c in cs]}")
    # on_request: every branch + every handler answers
    f = repo.func(SV, "SdoServer.on_request", "C02.R8")
    for h in [n for n in own_nodes(f.node) if isinstance(n, ast.ExceptHandler)]:
        ok = any(isinstance(x, ast.Call) and dotted(x.func) == "self.abort" for x in ast.walk(h))
        first_is_abort = isinstance(h.body[0], ast.Expr) and isinstance(h.body[0].value, ast.Call) and dotted(h.body[0].value.func) == "self.abort"
        chk.check(ok and first_is_abort, "R8", f"{SV}:SdoServer.on_request | handler {src(h.type) if h.type else ''} answers first", f.loc(h),
                  "an exception in a handler is not answered by an abort frame (or something that may raise precedes it)")


# ---------------------------------------------------------------------------------------------------- R9
def _totality(chk, repo, folder):
    import struct as _struct
    f = repo.func(SV, "SdoServer.on_request", "C02.R9")
    tries = [n for n in f.node.body if isinstance(n, ast.Try)]
    outside = [n for n in f.node.body if not isinstance(n, ast.Try) and not (isinstance(n, ast.Expr) and isinstance(n.value, ast.Constant))]
    chk.check(len(tries) == 1, "R9", f"{SV}:SdoServer.on_request | one try around the dispatch", f.loc(), "")
    for st in outside:
        calls = [c for c in ast.walk(st) if isinstance(c, ast.Call)]
        ok = True
        det = ""
        for c in calls:
            d = dotted(c.func) or ""
            if d.endswith("unpack_from"):
                fmt = folder.try_fold(c.args[0], Scope(f.mod), None)
                off = folder.try_fold(c.args[2], Scope(f.mod), 0) if len(c.args) > 2 else 0
                if not isinstance(fmt, str) or _struct.calcsize(fmt) + off > 1:
                    ok, det = False, f"`{src(c)}` needs more than one byte of the frame outside the try: a short frame raises into the receive path"
            else:
                ok, det = False, f"call `{src(c)}` outside the try can raise into the receive path"
        if calls or not isinstance(st, ast.Assign):
            chk.check(ok, "R9", f"{SV}:SdoServer.on_request | `{src(st)[:40]}` outside try", f.loc(st), det)
        else:
            chk.ok("R9", f"{SV}:SdoServer.on_request | `{src(st)[:40]}` outside try", f.loc(st))
    cls = repo.cls(SV, "SdoServer", "C02.R9")
    init = repo.init_attrs(cls)
    ab = repo.func(SV, "SdoServer.abort", "C02.R9")
    for c in find_calls(ab.node, "struct.pack"):
        fmt = folder.try_fold(c.args[0], Scope(ab.mod), None)
        for i, a in enumerate(c.args[1:]):
            d = dotted(a)
            if d and d.startswith("self.") and d[5:] in init:
                v = folder.try_fold(init[d[5:]], Scope(ab.mod, cls), "?")
                chk.check(isinstance(v, int) and not isinstance(v, bool) and 0 <= v <= 0xFFFF, "R9", f"{SV}:SdoServer.abort | {d} packable from construction", ab.loc(c),
                          f"{d} is {v!r} on a freshly created server: abort() raises struct.error into the receive path when the first frame is not an initiate request")
    # handlers' own nullable uses are covered by the general `except Exception` -> abort


# ---------------------------------------------------------------------------------------------------- R10
def _precedence(chk, repo, folder, rule="R10"):
    f = repo.func(LN, "LocalNode.get_data", f"{chk.prop}.{rule}")
    ff = ff_for(chk, f, f"{chk.prop}.{rule}")
    rets = [n for n in own_nodes(f.node) if isinstance(n, ast.Return) and n.value is not None]
    kinds = []
    for r in rets:
        v = src(r.value)
        facts = [(ff.norm(e, subst=False), p) for e, p in ff.facts_at(r)]
        if v == "obj.encode_raw(result)":
            kinds.append(("callback", r))
            chk.check((ff.canon("result is not None"), True) in facts, rule, f"{LN}:LocalNode.get_data | callback result by presence", f.loc(r),
                      f"callback result selected under {facts}; a falsy result (0, empty) must still be served")
        elif "data_store" in v or (isinstance(r.value, ast.Name) and ff.one_def(r.value.id) is not None and "data_store" in src(ff.one_def(r.value.id))):
            kinds.append(("store", r))
            in_try = any(isinstance(t, ast.Try) and any(x is r for b in t.body for x in ast.walk(b)) and any("KeyError" in src(h.type or ast.Constant(None)) for h in t.handlers)
                         for t in own_nodes(f.node) if isinstance(t, ast.Try))
            by_presence = in_try and v == "self.data_store[index][subindex]"
            if not by_presence:
                nm = r.value.id if isinstance(r.value, ast.Name) else None
                by_presence = nm is not None and (ff.canon(f"{nm} is not None"), True) in facts
                truthy = nm is not None and (nm, True) in facts
                if truthy and not by_presence:
                    chk.bad(rule, f"{LN}:LocalNode.get_data | stored data by presence", f.loc(r),
                            f"stored data is served only when truthy (`if {nm}:`): a stored empty value falls through to ParameterValue/DefaultValue")
                    continue
            chk.check(by_presence, rule, f"{LN}:LocalNode.get_data | stored data by presence", f.loc(r), f"stored value returned under {facts}")
        elif v == "obj.encode_raw(obj.value)":
            kinds.append(("value", r))
            chk.check((ff.canon("obj.value is not None"), True) in facts, rule, f"{LN}:LocalNode.get_data | ParameterValue by presence", f.loc(r), f"under {facts}")
        elif v == "obj.encode_raw(obj.default)":
            kinds.append(("default", r))
            chk.check((ff.canon("obj.default is not None"), True) in facts, rule, f"{LN}:LocalNode.get_data | DefaultValue by presence", f.loc(r), f"under {facts}")
        else:
            chk.unk(rule, f"{LN}:LocalNode.get_data | return {v}", f.loc(r), "value source not recognised")
    order = [k for k, r in sorted(kinds, key=lambda kr: kr[1].lineno)]
    chk.check(order == ["callback", "store", "value", "default"], rule, f"{LN}:LocalNode.get_data | source precedence", f.loc(),
              f"value sources are consulted in the order {order}; expected callbacks, stored data, ParameterValue, DefaultValue")
    # each later source is reachable only when the earlier ones were absent: CFG order
    nodes = [ff.cfg.node_of(r) for k, r in sorted(kinds, key=lambda kr: kr[1].lineno)]
    for a, b in zip(nodes, nodes[1:]):
        chk.check(a not in ff.cfg.reach_from(b), rule, f"{LN}:LocalNode.get_data | order line {a.lineno} before {b.lineno}", f.loc(a.ast), "sources are not consulted in order")
