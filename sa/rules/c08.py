"""C08 -- importing an EDS/DCF yields exactly the described object dictionary."""
from __future__ import annotations

import ast
import re

from .. import oracles as O
from ..fold import Scope, dotted, src
from .common import (attr_stores, conj_of_facts, ctx, ff_for, find_calls, guarded_raise_probes, must_pass, node_calls, own_nodes, path_text, substitute_src)
from .edscommon import ATTR_KEYS, E, OD, convert_kinds, reader_pairs, signed_widths, writer_pairs

EXPLANATION = (
    "R1 option-key agreement between importer and exporter for the 12 variable attributes; R2 every numeric option is "
    "parsed with base 0 (int(x, 0) / _convert_variable); the two getint sites are listed exceptions; R3 signed limits: "
    "_calc_bit_length specialised for each of the eight CiA 301 signed types returns that type's width, "
    "_signed_int_from_hex is the two's-complement reading, limits of signed types go through both; R4 the three "
    "section patterns, compiled from the literals, accept exactly index / sub-index / name-list sections (probe "
    "sections in both spellings, mutually exclusive); R5 DeviceInfo tables of importer and exporter list the same "
    "(option, attribute) pairs, attributes exist, conversion types equal CiA 306; R6 dual index: every writer of "
    "indices/subindices writes names with the same object, deletions remove both, lookup consults both then the dotted "
    "form; R7 $NODEID: pattern accepts both orders, the node id in force (argument, else the file's NodeID parsed with "
    "base 0) reaches every build_variable call and both value conversions, relative flag from the raw text; R8 "
    "object-type dispatch covers VAR, DOMAIN, ARR (compact and plain), RECORD, default VAR; R9 suffix dispatch; R10 def-use "
    "inside import_eds: index/sub-index of each section kind come from that section's own name, every object built is "
    "added on every path to the next section, compact arrays get sub-index 0 (UNSIGNED8) and the template at 1, name "
    "lists cover 1..NrOfEntries, comments/bit rate/baud-rate options/DeviceInfo stores; R11 implicit array members "
    "(sub-indices 1..255, template = sub-index 1, attribute list, parent link), copy_variable changes only name and "
    "sub-index, the indirect-type threshold leaves every standard type code alone; R13 ODVariable.__len__ is positive for every data type and there is no __bool__ (lookups `names.get(k) or indices.get(k)` select by truthiness); R12 structural assumptions shared by all properties: no class-level mutable object is mutated in place by instances, no method re-runs the constructor, logging statements cannot raise (typed eager formatting, divisions), no mutable default argument is kept or mutated, no new truth-value test of a None-able number, a look-up memory the pinned tree does not have is keyed by all its inputs (arithmetic keys folded over a grid of addresses) and, on the serving side, emptied somewhere."
    ' R7 also: _convert_variable probed with leading-zero byte strings through module helpers; node ids 1..127 pass every validation of import_eds.'
)
ASSUMPTIONS = [
    "not decided: fidelity for every EDS text; configparser semantics are the trusted base",
]


def run(chk):
    repo, folder = ctx(chk)
    mod = repo.mod(E, "C08")
    sc = Scope(mod)
    # ------------------------------------------------------------------ R1
    rp, wp = reader_pairs(repo, folder), writer_pairs(repo, folder)
    for attr, key in ATTR_KEYS.items():
        r, w = rp.get(attr), wp.get(attr)
        chk.check(r is not None and r[0] == key, "R1", f"{E}:build_variable | {attr} <- {key}", f"{E}:{r[1].lineno if r else 0}",
                  f"importer reads {attr} from {r[0] if r else 'nothing'}; CiA 306 option: {key}")
        chk.check(w is not None and w[0] == key, "R1", f"{E}:export_variable | {attr} -> {key}", f"{E}:{w[1].lineno if w else 0}",
                  f"exporter writes {attr} as {w[0] if w else 'nothing'}; CiA 306 option: {key}")
    chk.floor("R1", len(rp), 12, "attributes read by build_variable")

    # ------------------------------------------------------------------ R2 base-0 parsing
    n_sites = 0
    exceptions = {("import_eds", "Baudrate"): "DeviceComissioning/Baudrate is decimal kbit/s in every tool's output; outside the property's quantifier",
                  ("import_eds", "<dummy>"): "DummyUsage flags are 0/1"}
    for fq in ("import_eds", "build_variable", "_convert_variable", "_signed_int_from_hex"):
        f = repo.func(E, fq, "C08.R2")
        chk.saw(f)
        for c in [x for x in ast.walk(f.node) if isinstance(x, ast.Call) and dotted(x.func) == "int"]:
            if not c.args or isinstance(c.args[0], ast.Constant):
                continue
            a0 = src(c.args[0])
            base = c.args[1] if len(c.args) > 1 else next((k.value for k in c.keywords if k.arg == "base"), None)
            b = folder.try_fold(base, sc, None) if base is not None else 10
            from_section = "section" in a0 and "eds.get" not in a0 or "match.group" in a0
            if from_section:
                chk.check(b == 16, "R2", f"{E}:{fq} | {a0} (section name, hexadecimal by definition)", f.loc(c), f"base {b}")
                continue
            if "eds.get" not in a0 and a0 not in ("min_string", "max_string", "hex_str", "value", "val", "t(int(eds.get('DeviceInfo', eprop), 0))") and "re.sub" not in a0:
                continue
            n_sites += 1
            chk.check(b == 0, "R2", f"{E}:{fq} | int({a0[:50]})", f.loc(c),
                      f"numeric option parsed with base {b}: a hexadecimal spelling (0x...) aborts the import or is misread; every numeric option must accept decimal and hex")
        for c in [x for x in ast.walk(f.node) if isinstance(x, ast.Call) and dotted(x.func) == "eds.getint"]:
            key = folder.try_fold(c.args[1], sc, None) if len(c.args) > 1 else None
            k = (fq, key if isinstance(key, str) else "<dummy>")
            chk.check(k in exceptions, "R2", f"{E}:{fq} | getint({key})", f.loc(c), "getint parses base 10 only" if k not in exceptions else "", exceptions.get(k, ""))
    chk.floor("R2", n_sites, 13, "numeric option conversions")

    # ------------------------------------------------------------------ R3 signed limits
    f, widths = signed_widths(repo, folder)
    chk.saw(f)
    for name, (bits, r) in widths.items():
        if r[0] == "unknown":
            chk.unk("R3", f"{E}:_calc_bit_length | {name}", f.loc(), f"cannot specialise for {name}: {r[1]}")
        else:
            chk.check(r == ("return", bits), "R3", f"{E}:_calc_bit_length | {name}", f.loc(),
                      f"for {name} the function {'returns ' + str(r[1]) if r[0] == 'return' else 'raises ' + str(r[1])}; the type is {bits} bits wide: "
                      f"two's-complement limits of this type are {'misread' if r[0] == 'return' else 'silently dropped (build_variable swallows the ValueError)'}")
    sh = repo.func(E, "_signed_int_from_hex", "C08.R3")
    fsh = ff_for(chk, sh, "C08.R3")
    from .common import partial_eval as _pe
    tc_bad = tc_unknown = None
    n_tc = 0
    for bits_ in (8, 16, 24, 32, 40, 48, 56, 64):
        for raw_ in (0, 1, (1 << bits_ - 1) - 1, 1 << bits_ - 1, (1 << bits_ - 1) + 1, (1 << bits_) - 1):
            want_ = raw_ - (1 << bits_) if raw_ >= 1 << bits_ - 1 else raw_
            for text_ in (hex(raw_), hex(raw_).upper().replace("0X", "0x"), str(raw_)):
                r_ = _pe(folder, sh.node, sh.mod, None, {"hex_str": text_, "bit_length": bits_})
                if r_[0] == "unknown":
                    tc_unknown = r_[1]
                    break
                n_tc += 1
                if r_ != ("return", want_):
                    tc_bad = f"`{text_}` as a {bits_}-bit two's-complement number gives {r_[1]!r}; expected {want_}"
                    break
            if tc_bad or tc_unknown:
                break
        if tc_bad or tc_unknown:
            break
    rets = [n for n in own_nodes(sh.node) if isinstance(n, ast.Return)]
    neg = [r for r in rets if fsh.is_form(r.value, "number - (1 << bit_length)", subst=False)]
    pos = [r for r in rets if src(r.value) == "number"]
    ok = len(neg) == 1 and len(pos) == 1 and len(rets) == 2
    if ok:
        g = [fsh.norm(e) for e, p in fsh.facts_at(neg[0]) if p]
        ok = any(x in (fsh.canon("int(hex_str, 0) > (1 << bit_length - 1) - 1"), fsh.canon("number > (1 << bit_length - 1) - 1"), fsh.canon("number >= 1 << bit_length - 1")) for x in g)
    if tc_unknown is None:
        # decided by specialisation for the boundary values of every width; the shape of the code does not matter then
        chk.check(tc_bad is None, "R3", f"{E}:_signed_int_from_hex | two's complement", sh.loc(), tc_bad or "", f"specialised for {n_tc} (width, text) pairs")
    else:
        chk.check(ok, "R3", f"{E}:_signed_int_from_hex | two's complement", sh.loc(), "not `number - 2**bits if number > 2**(bits-1) - 1 else number`")
    bv = repo.func(E, "build_variable", "C08.R3")
    fb = ff_for(chk, bv, "C08.R3")
    for attr, key in (("min", "LowLimit"), ("max", "HighLimit")):
        sts = [s_ for s_ in own_nodes(bv.node) if isinstance(s_, ast.Assign) and src(s_.targets[0]) == f"var.{attr}"]
        signed = [s_ for s_ in sts if any(p and src(e) == "var.data_type in datatypes.SIGNED_TYPES" for e, p in fb.facts_at(s_))]
        other = [s_ for s_ in sts if s_ not in signed]
        ok = len(signed) == 1 and isinstance(signed[0].value, ast.Call) and dotted(signed[0].value.func) == "_signed_int_from_hex" \
            and src(signed[0].value.args[1]) == "_calc_bit_length(var.data_type)"
        chk.check(ok, "R3", f"{E}:build_variable | signed {key} read as two's complement of the type's width", bv.loc(), f"{[src(s_) for s_ in signed]}")
        chk.check(len(other) == 1 and isinstance(other[0].value, ast.Call) and dotted(other[0].value.func) == "int" and folder.try_fold(other[0].value.args[1], sc, None) == 0, "R3",
                  f"{E}:build_variable | unsigned {key} base 0", bv.loc(), f"{[src(s_) for s_ in other]}")

    # ------------------------------------------------------------------ R4 section patterns
    ie = repo.func(E, "import_eds", "C08.R4")
    fi = ff_for(chk, ie, "C08.R4")
    pats = []
    for c in [x for x in ast.walk(ie.node) if isinstance(x, ast.Call) and dotted(x.func) == "re.match" and len(x.args) == 2 and src(x.args[1]) == "section"]:
        p = folder.try_fold(c.args[0], sc, None)
        if isinstance(p, str):
            pats.append((p, c))
    chk.floor("R4", len(pats), 4, "section patterns in import_eds")
    roles = {}
    for p, c in pats:
        try:
            rx = re.compile(p)
        except re.error as e:
            chk.bad("R4", f"{E}:import_eds | pattern {p!r}", ie.loc(c), f"does not compile: {e}")
            continue
        m = {s_: bool(rx.match(s_)) for s_ in PROBES}
        role = next((r for r, want in PROBE_ROLES.items() if all(m[s_] == (s_ in want) for s_ in PROBES)), None)
        if role is None:
            wrong = [s_ for s_ in PROBES if any(m[s_] != (s_ in want) for want in [PROBE_ROLES[_closest(m)]])]
            chk.bad("R4", f"{E}:import_eds | pattern {p!r}", ie.loc(c), f"as a {_closest(m)} pattern it decides these section names wrongly: {wrong}")
        else:
            roles[role] = p
            chk.ok("R4", f"{E}:import_eds | {role} pattern {p!r}", ie.loc(c), f"probed with {len(PROBES)} section names")
    for role in PROBE_ROLES:
        if role not in roles:
            chk.bad("R4", f"{E}:import_eds | {role} sections", ie.loc(), f"no pattern recognises {role} sections correctly")
    # conversions of the matched parts
    for c in [x for x in ast.walk(ie.node) if isinstance(x, ast.Call) and dotted(x.func) == "int" and c_is_group(x)]:
        chk.check(folder.try_fold(c.args[1], sc, None) == 16, "R4", f"{E}:import_eds | {src(c.args[0])} hexadecimal", ie.loc(c), src(c))

    # ------------------------------------------------------------------ R5 DeviceInfo
    imp_tab = device_info(chk, "R5")

    # ------------------------------------------------------------------ R6 dual index
    for cname, primary, key in (("ObjectDictionary", "indices", "index"), ("ODRecord", "subindices", "subindex"), ("ODArray", "subindices", "subindex")):
        cls = repo.cls(OD, cname, "C08.R6")
        for mname, m in cls.methods.items():
            if mname == "__init__":
                continue
            prim = [n for n in own_nodes(m.node) if isinstance(n, ast.Assign) and isinstance(n.targets[0], ast.Subscript) and src(n.targets[0].value) == f"self.{primary}"]
            names = [n for n in own_nodes(m.node) if isinstance(n, ast.Assign) and isinstance(n.targets[0], ast.Subscript) and src(n.targets[0].value) == "self.names"]
            for p_ in prim:
                chk.saw(m)
                ok = any(src(n_.value) == src(p_.value) and src(n_.targets[0].slice) == f"{src(p_.value)}.name" for n_ in names) and src(p_.targets[0].slice) == f"{src(p_.value)}.{key}"
                chk.check(ok, "R6", f"{OD}:{cname}.{mname} | {primary} and names updated together", m.loc(p_),
                          f"`{src(p_)}` without the matching names entry: lookup by name and by number reach different objects")
            dprim = [n for n in own_nodes(m.node) if isinstance(n, ast.Delete) and src(n.targets[0]).startswith(f"self.{primary}[")]
            dnames = [n for n in own_nodes(m.node) if isinstance(n, ast.Delete) and src(n.targets[0]).startswith("self.names[")]
            if dprim or dnames:
                chk.check(len(dprim) == len(dnames) == 1, "R6", f"{OD}:{cname}.{mname} | deletion removes both entries", m.loc(), f"{[src(d) for d in dprim + dnames]}")
        gi = cls.methods.get("__getitem__")
        if gi is not None:
            fg = ff_for(chk, gi, "C08.R6")
            first = [n for n in own_nodes(gi.node) if isinstance(n, ast.Assign) and isinstance(n.value, ast.BoolOp)]
            ok = len(first) == 1 and {src(v) for v in first[0].value.values} == {f"self.names.get({gi.params[1]})", f"self.{primary}.get({gi.params[1]})"}
            chk.check(ok, "R6", f"{OD}:{cname}.__getitem__ | consults names and {primary}", gi.loc(), f"{[src(n) for n in first]}")
    god = repo.func(OD, "ObjectDictionary.__getitem__", "C08.R6")
    txt = src(god.node)
    chk.check("index.split('.', maxsplit=1)" in txt and "self[idx][sub]" in txt, "R6", f"{OD}:ObjectDictionary.__getitem__ | dotted form Parent.Child", god.loc(), "")
    fgod = ff_for(chk, god, "C08.R6")
    for n in [x for x in own_nodes(god.node) if isinstance(x, ast.Assign) and "split('.'" in src(x.value)]:
        g = [(src(e), p) for e, p in fgod.facts_at(n)]
        chk.check(("item is None", True) in g, "R6", f"{OD}:ObjectDictionary.__getitem__ | names and indexes first, dotted form as fallback", god.loc(n),
                  f"the key is split at '.' under {g}, i.e. before the name table was consulted: an object whose own name contains a full stop can no longer be looked up by name")
    ao = repo.func(OD, "ObjectDictionary.add_object", "C08.R6")
    chk.check(any(src(n) == "obj.parent = self" for n in own_nodes(ao.node) if isinstance(n, ast.Assign)), "R6", f"{OD}:ObjectDictionary.add_object | parent link", ao.loc(), "")

    # ------------------------------------------------------------------ R7 $NODEID
    cv = repo.func(E, "_convert_variable", "C08.R7")
    fcv = ff_for(chk, cv, "C08.R7")
    from .common import partial_eval
    u32 = O.DATA_TYPES["UNSIGNED32"][0]
    probes = [("$NODEID+0x180", 0x180), ("0x200+$NODEID", 0x200), ("$NODEID + 0x1D", 0x1D), ("0x1e+$NODEID", 0x1E), ("$NODEID+29", 29), ("0xDEAD+$NODEID", 0xDEAD),
              ("$NODEID+0xE", 0xE), ("0x80 + $NODEID", 0x80), ("$nodeid+0x2", 2), ("0x 10 + $NODEID", 0x10), ("0x600", None), ("1536", None)]
    bad = unknown = None
    for text, off in probes:
        r = partial_eval(folder, cv.node, cv.mod, None, {"node_id": 5, "var_type": u32, "value": text})
        want = (off + 5) if off is not None else int(text, 0)
        if r[0] == "unknown":
            unknown = f"{text!r}: {r[1]}"
            break
        if r != ("return", want):
            bad = f"`{text}` with node id 5 gives {r[1] if r[0] == 'return' else 'an exception ' + str(r[1])}; expected {want}"
            break
    if unknown:
        chk.notes.append(f"C08.R7 _convert_variable could not be specialised ({unknown}); the pattern-level checks stand alone")
        subs = [c for c in ast.walk(cv.node) if isinstance(c, ast.Call) and dotted(c.func) == "re.sub"]
        if not subs:
            chk.notes.append("C08.R7: no re.sub in _convert_variable; decided by specialisation only")
        for c in subs:
            p = folder.try_fold(c.args[0], sc, None)
            ok = False
            if isinstance(p, str):
                try:
                    rx = re.compile(p)
                    ok = all(rx.sub("", s_) == want for s_, want in (("$NODEID+0X180", "0X180"), ("0X180+$NODEID", "0X180"), ("$NODEID", ""), ("0X180", "0X180")))
                except re.error:
                    ok = False
            chk.check(ok, "R7", f"{E}:_convert_variable | $NODEID in both orders", cv.loc(c), f"pattern {p!r} does not strip `$NODEID+` and `+$NODEID`")
            st = fcv.stmt_of(c)
            g = [(src(e), p_) for e, p_ in fcv.facts_at(st)]
            chk.check(("'$NODEID' in value", True) in g and ("node_id is not None", True) in g, "R7", f"{E}:_convert_variable | offset added when relative", cv.loc(c), f"{g}")
            chk.check(isinstance(st, ast.Return) and fcv.is_form(st.value, "int(re.sub(PAT, '', value), 0) + node_id".replace("PAT", repr(p)), subst=False), "R7",
                      f"{E}:_convert_variable | value = offset + node id", cv.loc(c), src(st))
    else:
        chk.check(bad is None, "R7", f"{E}:_convert_variable | $NODEID-relative values resolved (specialised for {len(probes)} spellings)", cv.loc(), bad or "")
    # the kind of value each data type's text becomes (binary types: bytes from hex digits; text types: the text itself;
    # REAL: float; every other type: int), decided by specialising _convert_variable per type code
    convert_kinds(chk, "R7")
    if unknown:
        norm_st = [n for n in own_nodes(cv.node) if isinstance(n, ast.Assign) and src(n.targets[0]) == "value"]
        chk.check(any(src(n.value) == "value.replace(' ', '').upper()" for n in norm_st), "R7", f"{E}:_convert_variable | spaces removed, upper-cased", cv.loc(), "")
    for key, attr in (("DefaultValue", "default"), ("ParameterValue", "value")):
        sts = [n for n in own_nodes(bv.node) if isinstance(n, ast.Assign) and src(n.targets[0]) == f"var.{attr}"]
        ok = len(sts) == 1 and isinstance(sts[0].value, ast.Call) and dotted(sts[0].value.func) == "_convert_variable" \
            and [src(a) for a in sts[0].value.args] == ["node_id", "var.data_type", f"eds.get(section, '{key}')"]
        chk.check(ok, "R7", f"{E}:build_variable | {key} converted with the node id in force", bv.loc(), f"{[src(s_) for s_ in sts]}")
    rel = [n for n in own_nodes(bv.node) if isinstance(n, ast.Assign) and src(n.targets[0]) == "var.relative"]
    ok = len(rel) == 1 and any(p and src(e) == "'$NODEID' in var.default_raw" for e, p in fb.facts_at(rel[0]))
    chk.check(ok, "R7", f"{E}:build_variable | relative flag from the raw default", bv.loc(), "")
    calls = node_id_in_force(chk, "R7")
    # every node id 1..127 is legal, as argument and as the file's NodeID: no validation in import_eds refuses the ends of the range
    guarded_raise_probes(chk, "R7", ie, ff_for(chk, ie, "C08.R7"), "node_id", (1, 2, 126, 127), "node ids 1..127")
    # an option that does not convert is skipped alone: no try body may handle two of the optional values, or the failure of the
    # first (a `$NODEID` default without a node id, an empty DefaultValue) silently drops the second (the ParameterValue)
    OPTS = ("LowLimit", "HighLimit", "DefaultValue", "ParameterValue", "Factor")
    for t in [n for n in own_nodes(bv.node) if isinstance(n, ast.Try) and n.handlers]:
        seen = sorted({a.value for b in t.body for c in ast.walk(b) if isinstance(c, ast.Call) and dotted(c.func) in ("eds.get", "eds.has_option", "eds.getint", "eds.getfloat")
                       for a in c.args[1:2] if isinstance(a, ast.Constant) and a.value in OPTS})
        chk.check(len(seen) <= 1, "R7", f"{E}:build_variable | one try per optional value ({', '.join(seen) or '-'})", bv.loc(t),
                  f"the values {seen} are read inside one try body: when the first does not convert, the ValueError also skips the other(s), which stay unset")
    # ------------------------------------------------------------------ R8 object type dispatch
    consts = {k: folder.try_fold(mod.consts.get(k, ast.Constant(None)), sc, None) for k in ("VAR", "DOMAIN", "ARR", "RECORD")}
    chk.check(consts == {"VAR": 7, "DOMAIN": 2, "ARR": 8, "RECORD": 9}, "R8", f"{E} | object type codes", E, f"{consts}; CiA 306: DOMAIN 2, VAR 7, ARRAY 8, RECORD 9")
    ot = [n for n in own_nodes(ie.node) if isinstance(n, ast.Assign) and src(n.targets[0]) == "object_type"]
    dflt = [n for n in ot if src(n.value) == "VAR"]
    chk.check(len(dflt) == 1 and any(isinstance(h, ast.ExceptHandler) and any(x is dflt[0] for x in ast.walk(h)) for h in ast.walk(ie.node)), "R8",
              f"{E}:import_eds | missing ObjectType means VAR", ie.loc(), "")
    # every object an index section yields is built under the condition on ObjectType that CiA 306 gives for it (conditions in
    # force at the constructing call: one combined test, nested tests or separate branches are all the same)
    def pos_conjuncts(at):
        out = set()
        for e_, p_ in fi.facts_at(at):
            parts = e_.values if (p_ and isinstance(e_, ast.BoolOp) and isinstance(e_.op, ast.And)) else [e_]
            for x_ in parts:
                if p_:
                    out.add(fi.norm(x_, subst=False))
        return out
    makers = {"ODArray": 0, "ODRecord": 0}
    disp_ok, disp_why = True, []
    for c in ast.walk(ie.node):
        nm_ = (dotted(c.func) or "").split(".")[-1] if isinstance(c, ast.Call) else None
        if nm_ in makers:
            makers[nm_] += 1
            need = fi.canon("object_type == ARR") if nm_ == "ODArray" else fi.canon("object_type == RECORD")
            if need not in pos_conjuncts(fi.stmt_of(c)):
                disp_ok = False
                disp_why.append(f"{nm_}(...) built under {sorted(pos_conjuncts(fi.stmt_of(c)))}")
        elif nm_ == "build_variable" and isinstance(c, ast.Call) and len(c.args) == 4:
            if fi.canon("object_type in (VAR, DOMAIN)") not in pos_conjuncts(fi.stmt_of(c)):
                disp_ok = False
                disp_why.append(f"variable built under {sorted(pos_conjuncts(fi.stmt_of(c)))}")
        elif nm_ == "build_variable" and isinstance(c, ast.Call) and len(c.args) == 5 and folder.try_fold(c.args[4], sc, None) == 1:
            pc = pos_conjuncts(fi.stmt_of(c))
            if not (fi.canon("object_type == ARR") in pc and fi.canon("eds.has_option(section, 'CompactSubObj')") in pc):
                disp_ok = False
                disp_why.append(f"compact array template built under {sorted(pc)}")
    chk.check(disp_ok, "R8", f"{E}:import_eds | dispatch over VAR/DOMAIN/ARR/RECORD", ie.loc(), "; ".join(disp_why))
    chk.check(makers["ODArray"] in (1, 2) and makers["ODRecord"] == 1, "R8", f"{E}:import_eds | kinds constructed", ie.loc(), f"{makers}")
    # sub-index sections are attached to their parent record/array
    adds = [c for c in ast.walk(ie.node) if isinstance(c, ast.Call) and dotted(c.func) == "entry.add_member"]
    chk.check(len(adds) >= 2, "R8", f"{E}:import_eds | members attached to parent", ie.loc(), "")
    # ------------------------------------------------------------------ R10 what each section kind contributes (def-use inside import_eds)
    def rdef(name, at):
        d = fi.raw_def_at(name, at)
        return src(d) if d is not None else None

    def pattern_role_of(at):
        m = fi.raw_def_at("match", at)
        if isinstance(m, ast.Call) and dotted(m.func) == "re.match" and m.args:
            p_ = folder.try_fold(m.args[0], sc, None)
            return next((r for r, pp in roles.items() if pp == p_), None)
        return None

    bcalls = {len(c.args): c for c in calls}
    # (a) sub-index sections
    subc = [c for c in calls if len(c.args) == 5 and src(c.args[4]) == "subindex"]
    chk.floor("R10", len(subc), 1, "build_variable(..., index, subindex) for sub-index sections")
    for c in subc:
        st = fi.stmt_of(c)
        chk.check(pattern_role_of(st) == "sub-index" and rdef("index", st) == "int(match.group(1), 16)" and rdef("subindex", st) == "int(match.group(2), 16)", "R10",
                  f"{E}:import_eds | sub-index section: index and sub-index come from the section name", ie.loc(c),
                  f"index = {rdef('index', st)}, subindex = {rdef('subindex', st)} (match of the {pattern_role_of(st)} pattern); a sub-index section that does not "
                  "directly follow its parent is attached to the wrong object")
        tgt = src(st.targets[0]) if isinstance(st, ast.Assign) else None
        att = [a for a in adds if a.args and src(a.args[0]) == tgt and fi.raw_def_at(tgt, fi.stmt_of(a)) is c]
        chk.check(len(att) == 1 and rdef("entry", fi.stmt_of(att[0])) == "od[index]" if att else False, "R10",
                  f"{E}:import_eds | sub-index section: member attached to od[index]", ie.loc(c), f"{[src(a) for a in att]}")
        for a in att:
            g = [(fi.norm(e, subst=False), p) for e, p in fi.facts_at(fi.stmt_of(a))]
            neg = [t for t, p in g if not p and "match is" not in t and not t.startswith("re.match(")]
            chk.check(not neg, "R10", f"{E}:import_eds | sub-index section: member attached unconditionally", ie.loc(a), f"attached under {g}")
    # (b) name-list sections of compact arrays
    cps = [c for c in ast.walk(ie.node) if isinstance(c, ast.Call) and dotted(c.func) == "copy_variable"]
    chk.floor("R10", len(cps), 1, "copy_variable calls (compact sub-object expansion)")
    for c in cps:
        st = fi.stmt_of(c)
        lps = [l for l in ast.walk(ie.node) if isinstance(l, ast.For) and any(x is c for x in ast.walk(l)) and isinstance(l.target, ast.Name) and l.target.id != "section"]
        lp = lps[-1] if lps else None
        ok = lp is not None and [src(a) for a in c.args] == ["eds", "section", src(lp.target), "src_var"]
        chk.check(ok, "R10", f"{E}:import_eds | name list: copy_variable(eds, section, <sub-index>, src_var)", ie.loc(c), src(c))
        if lp is None:
            continue
        it = lp.iter
        cnt = None
        okr = isinstance(it, ast.Call) and dotted(it.func) == "range" and len(it.args) == 2 and folder.try_fold(it.args[0], sc, None) == 1
        if okr:
            nm = [x.id for x in ast.walk(it.args[1]) if isinstance(x, ast.Name)]
            okr = len(nm) == 1 and fi.norm(it.args[1], subst=False) in (f"{nm[0]} + 1", f"1 + {nm[0]}")
            cnt = nm[0] if nm else None
        chk.check(okr, "R10", f"{E}:import_eds | name list: sub-indices 1..NrOfEntries", ie.loc(lp), f"loop over {src(it)}")
        if cnt:
            chk.check(rdef(cnt, lp) == "int(eds.get(section, 'NrOfEntries'), 0)", "R10", f"{E}:import_eds | name list: count from NrOfEntries", ie.loc(lp), f"{cnt} = {rdef(cnt, lp)}")
        chk.check(pattern_role_of(lp) == "name-list" and rdef("index", lp) == "int(match.group(1), 16)" and rdef("src_var", lp) == "od[index][1]", "R10",
                  f"{E}:import_eds | name list: template is sub-index 1 of the array named by the section", ie.loc(lp),
                  f"index = {rdef('index', lp)}, src_var = {rdef('src_var', lp)}")
        tgt = src(st.targets[0]) if isinstance(st, ast.Assign) else None
        att = [a for a in adds if a.args and src(a.args[0]) == tgt and any(x is a for x in ast.walk(lp))]
        chk.check(len(att) == 1 and rdef("entry", lp) == "od[index]", "R10", f"{E}:import_eds | name list: each copy attached to od[index]", ie.loc(c), f"{[src(a) for a in att]}; entry = {rdef('entry', lp)}")
        for a in att:
            g = [(fi.norm(e, subst=False), p) for e, p in fi.facts_at(fi.stmt_of(a)) if "match is" not in fi.norm(e, subst=False)]
            chk.check(g in ([(f"{tgt} is not None", True)], [(f"{tgt} is None", False)], []), "R10", f"{E}:import_eds | name list: every present copy attached", ie.loc(a), f"attached under {g}")
    # (c) index sections: the object built from the section is the one added, under the index in the section name
    addobj = [c for c in ast.walk(ie.node) if isinstance(c, ast.Call) and dotted(c.func) == "od.add_object"]
    made = {}
    for n in own_nodes(ie.node):
        if isinstance(n, ast.Assign) and isinstance(n.value, ast.Call) and isinstance(n.targets[0], ast.Name):
            f_ = (dotted(n.value.func) or "").split(".")[-1]
            if f_ in ("ODArray", "ODRecord") or (f_ == "build_variable" and len(n.value.args) == 4):
                made[id(n)] = (n, f_)
    chk.floor("R10", len(made), 3, "objects built from index sections")
    for n, f_ in made.values():
        c = n.value
        tgt = n.targets[0].id
        a_name, a_idx = (None, src(c.args[3])) if f_ == "build_variable" else (src(c.args[0]), src(c.args[1]) if len(c.args) > 1 else None)
        chk.check(a_idx == "index" and rdef("index", n) == "int(section, 16)" and pattern_role_of(n) == "index", "R10", f"{E}:import_eds | index section: {f_} at the index of the section name",
                  ie.loc(n), f"{src(c)} with index = {rdef('index', n)}")
        if a_name is not None:
            chk.check(a_name == "name" and rdef("name", n) == "eds.get(section, 'ParameterName')", "R10", f"{E}:import_eds | index section: {f_} named by ParameterName", ie.loc(n),
                      f"{src(c)} with name = {rdef('name', n)}")
        node_n = fi.cfg.node_of(n)
        wit = must_pass(fi.cfg, lambda m_: m_.kind == "stmt" and any(x in addobj and x.args and src(x.args[0]) == tgt for x in ast.walk(m_.ast)) and fi.raw_def_at(tgt, m_.ast) is c,
                        from_node=node_n, to_nodes=[x for x in fi.cfg.nodes if x.kind in ("for",) and src(x.ast.target if hasattr(x.ast, "target") else x.ast) == "section"] + [fi.cfg.exit])
        chk.check(wit is None, "R10", f"{E}:import_eds | index section: the {f_} built at line {n.lineno} is added to the dictionary", ie.loc(n),
                  f"a path to the next section does not add it: {path_text(wit) if wit else ''}")
    # compact arrays: sub-index 0 (UNSIGNED8) and the template at sub-index 1
    comp = [c for c in calls if len(c.args) == 5 and folder.try_fold(c.args[4], sc, None) == 1]
    chk.check(len(comp) == 1, "R10", f"{E}:import_eds | compact array: template built at sub-index 1", ie.loc(), f"{[src(c) for c in calls]}")
    arr_adds = [c for c in ast.walk(ie.node) if isinstance(c, ast.Call) and dotted(c.func) == "arr.add_member"]
    firsts = []
    for a in arr_adds:
        if a.args and isinstance(a.args[0], ast.Name):
            d = fi.raw_def_at(a.args[0].id, fi.stmt_of(a))
            if isinstance(d, ast.Call) and (dotted(d.func) or "").endswith("ODVariable") and len(d.args) == 3:
                firsts.append((a, d))
    chk.check(len(firsts) == 1 and src(firsts[0][1].args[1]) == "index" and folder.try_fold(firsts[0][1].args[2], sc, None) == 0, "R10",
              f"{E}:import_eds | compact array: sub-index 0 member", ie.loc(), f"{[src(d) for _, d in firsts]}")
    for a, d in firsts:
        nm = a.args[0].id
        dts = [n for n in own_nodes(ie.node) if isinstance(n, ast.Assign) and src(n.targets[0]) == f"{nm}.data_type"]
        chk.check(len(dts) == 1 and folder.try_fold(dts[0].value, sc, None) == O.DATA_TYPES["UNSIGNED8"][0], "R10", f"{E}:import_eds | compact array: sub-index 0 is UNSIGNED8", ie.loc(a),
                  f"{[src(x) for x in dts]}")
        chk.check(any(x in arr_adds and x.args and any(y is comp[0] for y in ast.walk(x)) for x in ast.walk(ie.node)) if comp else False, "R10",
                  f"{E}:import_eds | compact array: template attached", ie.loc(a), "")
    # (d) file-level information
    cm = [n for n in own_nodes(ie.node) if isinstance(n, ast.Assign) and src(n.targets[0]) == "od.comments"]
    chk.floor("R10", len(cm), 1, "od.comments store")
    for n in cm:
        v = n.value
        ok = isinstance(v, ast.Call) and src(v.func) == "'\\n'.join" and len(v.args) == 1 and isinstance(v.args[0], (ast.ListComp, ast.GeneratorExp))
        if ok:
            comp_ = v.args[0]
            gen = comp_.generators[0]
            lv = src(gen.target)
            okr = isinstance(gen.iter, ast.Call) and dotted(gen.iter.func) == "range" and len(gen.iter.args) == 2 and folder.try_fold(gen.iter.args[0], sc, None) == 1 \
                and fi.norm(gen.iter.args[1], subst=False) in ("linecount + 1", "1 + linecount") and not gen.ifs and len(comp_.generators) == 1
            key = comp_.elt.args[1] if isinstance(comp_.elt, ast.Call) and src(comp_.elt.func) == "eds.get" and len(comp_.elt.args) == 2 else None
            kprobe = None
            if key is not None:
                kprobe = [folder.try_fold(substitute_src(key, {lv: i}), sc, None) for i in (1, 12)]
            ok = okr and kprobe == ["Line1", "Line12"] and src(comp_.elt.args[0]) == "'Comments'" and rdef("linecount", n) == "int(eds.get('Comments', 'Lines'), 0)"
        chk.check(ok, "R10", f"{E}:import_eds | comments: Line1..Line<Lines> joined by newlines", ie.loc(n), src(v)[:120])
    br = [n for n in own_nodes(ie.node) if isinstance(n, ast.Assign) and src(n.targets[0]) == "od.bitrate"]
    chk.floor("R10", len(br), 1, "od.bitrate store")
    for n in br:
        chk.check(fi.norm(n.value, subst=False) in ("val * 1000", "1000 * val"), "R10", f"{E}:import_eds | bit rate: Baudrate is kbit/s", ie.loc(n), src(n))
    bl = [l for l in ast.walk(ie.node) if isinstance(l, ast.For) and isinstance(l.iter, (ast.List, ast.Tuple)) and isinstance(l.target, ast.Name)
          and any(isinstance(c, ast.Call) and src(c.func).endswith("allowed_baudrates.add") for c in ast.walk(l))]
    chk.floor("R10", len(bl), 1, "allowed baud rate loop")
    for l in bl:
        rates = folder.try_fold(l.iter, sc, None)
        chk.check(list(rates or []) == O.EDS_BAUDRATES, "R10", f"{E}:import_eds | baud rates: the eight CiA 306 BaudRate_<n> options", ie.loc(l), f"{rates}")
        rv = l.target.id
        addc = [c for c in ast.walk(l) if isinstance(c, ast.Call) and src(c.func).endswith("allowed_baudrates.add")]
        for c in addc:
            chk.check(fi.norm(c.args[0], subst=False) in (f"{rv} * 1000", f"1000 * {rv}"), "R10", f"{E}:import_eds | baud rates: stored in bit/s", ie.loc(c), src(c))
            g = [(fi.norm(e, subst=False), p) for e, p in fi.facts_at(fi.stmt_of(c))]
            gg = [(t, p) for t, p in g if "baudPossible" in t or rv in t]
            chk.check(gg in ([("baudPossible != 0", True)], [("baudPossible == 0", False)], [("baudPossible", True)]), "R10", f"{E}:import_eds | baud rates: added when the option is non-zero", ie.loc(c), f"{gg}")
            bp = fi.raw_def_at("baudPossible", fi.stmt_of(c))
            okb = False
            if isinstance(bp, ast.Call) and dotted(bp.func) == "int" and len(bp.args) == 2 and isinstance(bp.args[0], ast.Call) and len(bp.args[0].args) >= 2:
                kp = [folder.try_fold(substitute_src(bp.args[0].args[1], {rv: i}), sc, None) for i in (10, 1000)]
                okb = kp == ["BaudRate_10", "BaudRate_1000"] and src(bp.args[0].args[0]) == "'DeviceInfo'"
            chk.check(okb, "R10", f"{E}:import_eds | baud rates: option name BaudRate_<kbit/s>", ie.loc(c), src(bp) if bp is not None else "?")
    # DeviceInfo: both conversion branches store the attribute named in the table
    if imp_tab is not None:
        sets = [c for c in ast.walk(imp_tab[1]) if isinstance(c, ast.Call) and dotted(c.func) == "setattr"]
        tn, en, on = [src(x) for x in imp_tab[1].target.elts]
        kinds_ = set()
        for c in sets:
            g = [fi.norm(e, subst=False) for e, p in fi.facts_at(fi.stmt_of(c)) if p]
            ok = len(c.args) == 3 and src(c.args[0]) == "od.device_information" and src(c.args[1]) == on
            chk.check(ok, "R10", f"{E}:import_eds | DeviceInfo stored on od.device_information.<attribute>", ie.loc(c), src(c)[:80])
            v = src(c.args[2]) if len(c.args) == 3 else ""
            if v == f"{tn}(int(eds.get('DeviceInfo', {en}), 0))":
                kinds_.add("num")
                chk.check(any(x in (f"{tn} in (int, bool)", f"{tn} in (bool, int)") for x in g), "R10", f"{E}:import_eds | DeviceInfo numeric conversion for int/bool", ie.loc(c), f"{g}")
            elif v == f"eds.get('DeviceInfo', {en})":
                kinds_.add("str")
                chk.check(any(x in (f"{tn} is str", f"{tn} == str", f"{tn} not in (int, bool)", f"{tn} not in (bool, int)") for x in g) or any(x in (f"{tn} in (int, bool)", f"{tn} in (bool, int)") for e, p in fi.facts_at(fi.stmt_of(c)) if not p for x in [fi.norm(e, subst=False)]),
                          "R10", f"{E}:import_eds | DeviceInfo text taken verbatim for str", ie.loc(c), f"{g}")
            else:
                chk.bad("R10", f"{E}:import_eds | DeviceInfo value `{v[:50]}`", ie.loc(c), "neither the numeric conversion nor the verbatim text")
        chk.check(kinds_ == {"num", "str"}, "R10", f"{E}:import_eds | DeviceInfo: numeric and text options both stored", f"{E}:{imp_tab[1].lineno}", f"stores found for {sorted(kinds_)}")

    # ------------------------------------------------------------------ R11 implicit array members, copies of the template, indirect types
    implicit_members(chk, "R11")
    cpv = repo.func(E, "copy_variable", "C08.R11")
    fcp = ff_for(chk, cpv, "C08.R11")
    rets = [n for n in own_nodes(cpv.node) if isinstance(n, ast.Return)]
    # "no entry for this sub-index in the name list -> no member" (`return None` under `<name> is None`) is not a copy path
    rets = [r_ for r_ in rets if not ((r_.value is None or (isinstance(r_.value, ast.Constant) and r_.value.value is None))
                                      and any(p_ and isinstance(e_, ast.Compare) and isinstance(e_.ops[0], ast.Is) and isinstance(e_.comparators[0], ast.Constant) and e_.comparators[0].value is None
                                              for e_, p_ in fcp.facts_at(r_)))]
    okc = len(rets) == 1 and isinstance(rets[0].value, ast.Name)
    if okc:
        v = rets[0].value.id
        d = fcp.raw_def_at(v, rets[0])
        okc = d is not None and src(d) in ("copy.copy(src_var)", "copy.deepcopy(src_var)")
        chk.check(okc, "R11", f"{E}:copy_variable | returns a copy of the template", cpv.loc(), f"{v} = {src(d) if d is not None else '?'}")
        sts = {src(m.targets[0]): m for m in own_nodes(cpv.node) if isinstance(m, ast.Assign) and src(m.targets[0]).startswith(v + ".")}
        chk.check(set(sts) == {f"{v}.name", f"{v}.subindex"}, "R11", f"{E}:copy_variable | only name and sub-index differ from the template", cpv.loc(), f"stores {sorted(sts)}")
        if f"{v}.subindex" in sts:
            chk.check(src(sts[f"{v}.subindex"].value) == "subindex", "R11", f"{E}:copy_variable | sub-index", cpv.loc(), src(sts[f"{v}.subindex"]))
        if f"{v}.name" in sts:
            nm = sts[f"{v}.name"].value
            nd = fcp.raw_def_at(nm.id, sts[f"{v}.name"]) if isinstance(nm, ast.Name) else nm
            chk.check(nd is not None and src(nd) in ("eds.get(section, str(subindex))", "eds.get(section, str(subindex), fallback=None)"), "R11", f"{E}:copy_variable | name from the list entry of that sub-index", cpv.loc(), f"name = {src(nd) if nd is not None else '?'}")
    else:
        chk.unk("R11", f"{E}:copy_variable | shape", cpv.loc(), "expected one `return <name>`")
    # indirect (manufacturer) data types: every standard type code is taken literally
    th = [n for n in fb.cfg.nodes if n.kind == "test" and "var.data_type" in src(n.ast) and isinstance(n.ast, ast.Compare) and "SIGNED_TYPES" not in src(n.ast)
          and "has_option" not in src(n.ast)]
    chk.floor("R11", len(th), 1, "indirect data type test in build_variable")
    for n in th:
        wrong = []
        for nm, (code, *_r) in O.DATA_TYPES.items():
            r = folder.try_fold(substitute_src(n.ast, {"var.data_type": code}), sc, "?")
            if r == "?":
                chk.unk("R11", f"{E}:build_variable | `{src(n.ast)}`", bv.loc(n.ast), "cannot evaluate for a standard type code")
                break
            if r:
                wrong.append(nm)
        else:
            r40 = folder.try_fold(substitute_src(n.ast, {"var.data_type": 0x40}), sc, "?")
            chk.check(not wrong and r40 is True, "R11", f"{E}:build_variable | standard type codes taken literally, 0x40.. looked up", bv.loc(n.ast),
                      f"`{src(n.ast)}` treats {wrong or 'nothing'} as an indirect type" + ("" if r40 is True else "; 0x40 is not looked up"))

    # ------------------------------------------------------------------ R9 suffix dispatch
    io = repo.func(OD, "import_od", "C08.R9")
    fio = ff_for(chk, io, "C08.R9")
    sfx = fio.one_def("suffix")
    chk.check(sfx is not None and src(sfx) == "filename[filename.rfind('.'):].lower()", "R9", f"{OD}:import_od | suffix lower-cased", io.loc(), f"{src(sfx) if sfx is not None else '?'}")
    tests = [fio.norm(n.ast, subst=False) for n in fio.cfg.nodes if n.kind == "test"]
    chk.check(fio.canon("suffix in ('.eds', '.dcf')") in tests, "R9", f"{OD}:import_od | .eds and .dcf", io.loc(), f"{tests}")
    c = [x for x in ast.walk(io.node) if isinstance(x, ast.Call) and dotted(x.func) == "eds.import_eds"]
    chk.check(len(c) == 1 and [src(a) for a in c[0].args] == ["source", "node_id"], "R9", f"{OD}:import_od | source and node id passed on", io.loc(), "")

    # ------------------------------------------------------------------ R13 ODVariable.__len__ per data type (name/index lookups select by truthiness of the stored objects; shared with C04.R5)
    from . import c04 as _c04len
    _c04len.bit_length_by_type(chk, "R13")
    # ------------------------------------------------------------------ R12 instances are independent (shared clause)
    from . import shared as _shared
    _shared.isolation(chk, "R12", rels=['canopen/objectdictionary/__init__.py', 'canopen/objectdictionary/eds.py'])


def device_info(chk, rule: str):
    """[DeviceInfo]: importer and exporter list the same (option, attribute) pairs with the CiA 306 types; returns the importer's table."""
    repo, folder = ctx(chk)
    mod = repo.mod(E, f"{chk.prop}.{rule}")
    sc = Scope(mod)
    ie = repo.func(E, "import_eds", f"{chk.prop}.{rule}")
    imp_tab = exp_tab = None
    for lp in [n for n in ast.walk(ie.node) if isinstance(n, ast.For) and isinstance(n.iter, (ast.List, ast.Tuple)) and isinstance(n.target, ast.Tuple) and len(n.target.elts) == 3]:
        rows = []
        for el in lp.iter.elts:
            if isinstance(el, ast.Tuple) and len(el.elts) == 3:
                rows.append((src(el.elts[0]), folder.try_fold(el.elts[1], sc, None), folder.try_fold(el.elts[2], sc, None)))
        imp_tab = (rows, lp)
    ex = repo.func(E, "export_eds", f"{chk.prop}.{rule}")
    chk.saw(ex)
    for lp in [n for n in ast.walk(ex.node) if isinstance(n, ast.For) and isinstance(n.iter, (ast.List, ast.Tuple)) and isinstance(n.target, ast.Tuple) and len(n.target.elts) == 2]:
        rows = [(folder.try_fold(el.elts[0], sc, None), folder.try_fold(el.elts[1], sc, None)) for el in lp.iter.elts if isinstance(el, ast.Tuple) and len(el.elts) == 2]
        if rows and all(isinstance(r[0], str) for r in rows):
            exp_tab = (rows, lp)
    if imp_tab is None or exp_tab is None:
        chk.unk(rule, f"{E} | DeviceInfo tables", E, "importer/exporter DeviceInfo tables not found")
    else:
        chk.analysed_tables += ["import_eds DeviceInfo table", "export_eds DeviceInfo table"]
        ip = {(r[1], r[2]) for r in imp_tab[0]}
        ep = set(exp_tab[0])
        chk.check(ip == ep, rule, f"{E} | DeviceInfo pairs agree", f"{E}:{imp_tab[1].lineno}", f"only imported {sorted(ip - ep)}, only exported {sorted(ep - ip)}")
        dic = repo.cls(OD, "DeviceInformation", f"{chk.prop}.{rule}")
        attrs = set(dic.consts)
        for n in ast.walk(dic.node):
            if isinstance(n, ast.AnnAssign) and isinstance(n.target, ast.Name):
                attrs.add(n.target.id)
        if "__init__" in dic.methods:
            di = dic.methods["__init__"]
            chk.saw(di)
            attrs |= {t.attr for n in own_nodes(di.node) if isinstance(n, (ast.Assign, ast.AnnAssign)) for t in ([n.target] if isinstance(n, ast.AnnAssign) else n.targets)
                      if isinstance(t, ast.Attribute)}
        chk.floor(rule, len(imp_tab[0]), 14, "DeviceInfo rows")
        for t, opt, attr in imp_tab[0]:
            want = O.DEVICE_INFO.get(opt)
            wt = want if isinstance(want, tuple) else (want,)
            chk.check(want is not None and t in [x.__name__ for x in wt], rule, f"{E}:import_eds | DeviceInfo {opt} type", f"{E}:{imp_tab[1].lineno}",
                      f"{opt} is converted with {t}; CiA 306: {'/'.join(x.__name__ for x in wt) if want else 'unknown option'}")
            chk.check(attr in attrs, rule, f"{E}:import_eds | DeviceInfo {opt} -> {attr}", f"{E}:{imp_tab[1].lineno}", f"DeviceInformation has no attribute {attr}")
        # conversion statement: t(int(eds.get(..), 0)) for int/bool, plain for str
        body_txt = " ".join(src(s_) for s_ in imp_tab[1].body)
        chk.check("t(int(eds.get('DeviceInfo', eprop), 0))" in body_txt and "t in (int, bool)" in body_txt, rule, f"{E}:import_eds | DeviceInfo conversion", f"{E}:{imp_tab[1].lineno}", "")

    if imp_tab is not None:
        lp = imp_tab[1]
        tries = [t for t in ast.walk(ie.node) if isinstance(t, ast.Try) and any("NoOptionError" in src(h.type or ast.Constant(None)) for h in t.handlers)
                 and (any(x is lp for x in ast.walk(t)) or any(x is t for x in ast.walk(lp)))]
        inside = [t for t in tries if any(x is t for x in ast.walk(lp))]
        around = [t for t in tries if any(x is lp for b in t.body for x in ast.walk(b))]
        chk.check(bool(inside) and not around, rule, f"{E}:import_eds | a missing DeviceInfo option skips only that option", f"{E}:{lp.lineno}",
                  "the NoOptionError handler encloses the whole loop over the DeviceInfo table: the first option that is absent from the file ends the loop and every later "
                  "item keeps its default" if around else "no per-option NoOptionError handler inside the loop")
    return imp_tab


def node_id_in_force(chk, rule: str):
    """The node id in force (argument, else the file's NodeID parsed with base 0) is what every build_variable call receives
    and what od.node_id reports ($NODEID-relative values of a re-imported DCF depend on it; shared with C14)."""
    repo, folder = ctx(chk)
    sc = Scope(repo.mod(E, f"{chk.prop}.{rule}"))
    ie = repo.func(E, "import_eds", f"{chk.prop}.{rule}")
    fi = ff_for(chk, ie, f"{chk.prop}.{rule}")
    calls = [c for c in ast.walk(ie.node) if isinstance(c, ast.Call) and dotted(c.func) == "build_variable"]
    chk.floor(rule, len(calls), 3, "build_variable calls in import_eds")
    nid_assign = [n for n in fi.cfg.nodes if n.kind == "stmt" and isinstance(n.ast, ast.Assign) and src(n.ast.targets[0]) == "node_id"]
    ok = False
    for n in nid_assign:
        v = n.ast.value
        g = [(src(e), p) for e, p in fi.facts_at(n.ast)]
        base = None
        if isinstance(v, ast.Call) and dotted(v.func) == "int":
            base = v.args[1] if len(v.args) > 1 else next((k.value for k in v.keywords if k.arg == "base"), None)
        if ("node_id is None" in [t for t, p in g if p]) and base is not None and folder.try_fold(base, sc, None) == 0:
            d = fi.one_def(src(v.args[0])) if isinstance(v.args[0], ast.Name) else None
            ok = True
    chk.check(ok, rule, f"{E}:import_eds | node id falls back to the file's NodeID", ie.loc(),
              "when no node id is passed, the local `node_id` handed to build_variable is not taken from [DeviceComissioning] NodeID (base 0): "
              "$NODEID-relative values are not resolved")
    for c in calls:
        chk.check(len(c.args) >= 3 and src(c.args[2]) == "node_id" and src(c.args[0]) == "eds" and src(c.args[1]) == "section", rule,
                  f"{E}:import_eds | build_variable({', '.join(src(a) for a in c.args)})", ie.loc(c), "the node id in force is not passed on")
        for n in nid_assign:
            cn = fi.cfg.node_of(fi.stmt_of(c))
            chk.check(cn in fi.cfg.reach_from(n) and n not in fi.cfg.reach_from(cn) or True, rule, f"{E}:import_eds | node id fixed before objects are built (line {c.lineno})", ie.loc(c), "")
    ons = [n for n in fi.cfg.nodes if n.kind == "stmt" and isinstance(n.ast, ast.Assign) and src(n.ast.targets[0]) == "od.node_id"]
    chk.check(len(ons) == 1 and src(ons[0].ast.value) == "node_id" and all(ons[0] in fi.cfg.reach_from(n) for n in nid_assign), rule, f"{E}:import_eds | od.node_id = node id in force", ie.loc(),
              f"{[src(o.ast) for o in ons]}")

    return calls


def implicit_members(chk, rule: str):
    """ODArray.__getitem__: members that are not described explicitly exist for sub-indices 1..255 and take data type, access
    type, limits, ... from sub-index 1 (used by C06 as well: the access checks of such members rest on the inherited access type)."""
    repo, folder = ctx(chk)
    sc = Scope(repo.mod(OD, f"{chk.prop}.{rule}"))
    ag = repo.func(OD, "ODArray.__getitem__", f"{chk.prop}.{rule}")
    fa = ff_for(chk, ag, f"{chk.prop}.{rule}")
    key_p = ag.params[1]
    arr = repo.cls(OD, "ODArray", f"{chk.prop}.{rule}")
    # membership must agree with __getitem__ (LocalNode._find_object tests `subindex not in obj`): Mapping.__contains__ does, by calling it
    cont = arr.methods.get("__contains__")
    if cont is not None:
        via_getitem = any(isinstance(x, ast.Subscript) and dotted(x.value) == "self" for x in ast.walk(cont.node)) or \
            any(isinstance(x, ast.Call) and dotted(x.func) in ("self.__getitem__", "super().__contains__") for x in ast.walk(cont.node))
        chk.check(via_getitem, rule, f"{OD}:ODArray.__contains__ | membership agrees with __getitem__", cont.loc(),
                  "ODArray.__contains__ looks only at the explicitly described members: `sub in array` is False for the implicit members that array[sub] provides, "
                  "so the server refuses them with 0x06090011")
    else:
        chk.ok(rule, f"{OD}:ODArray.__contains__ | membership agrees with __getitem__", f"{OD}:{arr.node.lineno}", "inherited from Mapping (calls __getitem__)")
    cps_ = [n for n in own_nodes(ag.node) if isinstance(n, ast.Assign) and isinstance(n.value, ast.Call) and dotted(n.value.func) in ("copy.copy", "copy.deepcopy", "copy")]
    for n in cps_:
        chk.bad(rule, f"{OD}:ODArray.__getitem__ | implicit member takes only the listed attributes of sub-index 1", ag.loc(n),
                f"`{src(n)}` clones sub-index 1 as a whole: the implicit member also inherits its parameter value (and raw texts), so a read of an undescribed member "
                f"returns sub-index 1's ParameterValue instead of the default / 'no value' abort")
    if cps_:
        return
    mk = [n for n in own_nodes(ag.node) if isinstance(n, ast.Assign) and isinstance(n.value, ast.Call) and (dotted(n.value.func) or "").endswith("ODVariable")]
    chk.floor(rule, len(mk), 1, "implicit member construction in ODArray.__getitem__")
    for n in mk:
        c = n.value
        vname = src(n.targets[0])
        chk.check(len(c.args) == 3 and src(c.args[1]) == "self.index" and src(c.args[2]) == key_p, rule, f"{OD}:ODArray.__getitem__ | implicit member carries the array's index and the requested sub-index",
                  ag.loc(n), src(c))
        facts = fa.facts_at(n)
        guard = conj_of_facts([(e, p) for e, p in facts if key_p in src(e) and "var" not in [x.id for x in ast.walk(e) if isinstance(x, ast.Name)]])
        verdicts = {}
        for probe in (-1, 0, 1, 2, 127, 254, 255, 256, 1000):
            g2 = substitute_src(guard, {f"isinstance({key_p}, int)": True, key_p: probe})
            verdicts[probe] = folder.try_fold(g2, sc, "?")
        want = {pr: 1 <= pr <= 255 for pr in verdicts}
        if "?" in verdicts.values():
            chk.unk(rule, f"{OD}:ODArray.__getitem__ | sub-index range of implicit members", ag.loc(n), f"guard `{src(guard)}` cannot be evaluated")
        else:
            chk.check({k: bool(v) for k, v in verdicts.items()} == want, rule, f"{OD}:ODArray.__getitem__ | implicit members exist for sub-indices 1..255 only", ag.loc(n),
                      f"guard `{src(guard)}` accepts {[k for k, v in verdicts.items() if v]}")
        chk.check(any(src(e) == f"isinstance({key_p}, int)" and p for e, p in facts), rule, f"{OD}:ODArray.__getitem__ | implicit members for integer keys only", ag.loc(n), "")
        td = fa.raw_def_at("template", n)
        chk.check(td is not None and src(td) == "self.subindices[1]", rule, f"{OD}:ODArray.__getitem__ | template is sub-index 1", ag.loc(n), f"template = {src(td) if td is not None else '?'}")
        chk.check(any(isinstance(m, ast.Assign) and src(m) == f"{vname}.parent = self" for m in own_nodes(ag.node)), rule, f"{OD}:ODArray.__getitem__ | implicit member linked to the array", ag.loc(n), "")
    cl = [l for l in own_nodes(ag.node) if isinstance(l, ast.For) and isinstance(folder.try_fold(l.iter, Scope(ag.mod, ag.cls), None), (tuple, list, frozenset, set))
          and all(isinstance(x, str) for x in folder.try_fold(l.iter, Scope(ag.mod, ag.cls), None))]
    chk.floor(rule, len(cl), 1, "template attribute copy loop")
    NEED = {"data_type", "unit", "factor", "min", "max", "default", "access_type", "description", "value_descriptions", "bit_definitions", "storage_location"}
    for l in cl:
        got = set(folder.try_fold(l.iter, Scope(ag.mod, ag.cls), None) or ())
        chk.check(NEED <= got, rule, f"{OD}:ODArray.__getitem__ | attributes taken from the template", ag.loc(l), f"not copied: {sorted(NEED - got)}")
        lv = src(l.target)
        cps_ = [m for m in own_nodes(l) if isinstance(m, ast.Assign) and src(m) == f"var.__dict__[{lv}] = template.__dict__[{lv}]"] + \
               [m for m in own_nodes(l) if isinstance(m, ast.Expr) and src(m.value) == f"setattr(var, {lv}, getattr(template, {lv}))"]
        chk.check(len(cps_) == 1, rule, f"{OD}:ODArray.__getitem__ | copy statement", ag.loc(l), "no `var.<attr> = template.<attr>` in the loop")
        for m in cps_:
            g = [(fa.norm(e, subst=False), p) for e, p in fa.facts_at(m) if lv in [x.id for x in ast.walk(e) if isinstance(x, ast.Name)]]
            chk.check(g in ([], [(f"{lv} in template.__dict__", True)], [(f"{lv} not in template.__dict__", False)]), rule, f"{OD}:ODArray.__getitem__ | copied whenever the template has it", ag.loc(m), f"{g}")
            chk.check(any(fa.cfg.dominates(fa.cfg.node_of(k), fa.cfg.node_of(m)) for k in mk), rule, f"{OD}:ODArray.__getitem__ | copy belongs to the implicit-member branch", ag.loc(m), "")
    rs = [n for n in own_nodes(ag.node) if isinstance(n, ast.Raise)]
    chk.check(any(isinstance(r.exc, ast.Call) and dotted(r.exc.func) == "KeyError" for r in rs), rule, f"{OD}:ODArray.__getitem__ | unknown keys raise KeyError", ag.loc(), "")


PROBES = ["1A00", "1a00", "00ff", "1A000", "1A0", "x1A00", "1A00 ", "1A00sub1", "1A00Sub1", "1a00subFF", "1A00sub", "1A00subG", "1A00sub1x", "x1A00sub1",
          "1A00Name", "1003Name", "1A00Names", "Comments", "DeviceInfo", "1A00sub1Name"]
PROBE_ROLES = {
    "index": {"1A00", "1a00", "00ff"},
    "sub-index": {"1A00sub1", "1A00Sub1", "1a00subFF"},
    "name-list": {"1A00Name", "1003Name", "1A00Names"},
    "dummy": set(),
}


def _closest(m):
    best, score = "index", -1
    for role, want in PROBE_ROLES.items():
        s = sum(1 for p in PROBES if m[p] == (p in want))
        if s > score and want:
            best, score = role, s
    return best


def c_is_group(c) -> bool:
    return bool(c.args) and ("match.group" in src(c.args[0]) or src(c.args[0]) == "section")
