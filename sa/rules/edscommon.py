"""Shared extraction for the EDS/DCF rules (C08, C14)."""
from __future__ import annotations

import ast
from typing import Dict, List, Optional, Tuple

from .. import oracles as O
from ..fold import Scope, dotted, src
from .common import own_nodes, partial_eval

E = "canopen/objectdictionary/eds.py"
OD = "canopen/objectdictionary/__init__.py"

# attribute of ODVariable -> EDS option (CiA 306 + the three library extensions)
ATTR_KEYS = {
    "name": "ParameterName", "data_type": "DataType", "access_type": "AccessType", "default": "DefaultValue",
    "value": "ParameterValue", "pdo_mappable": "PDOMapping", "min": "LowLimit", "max": "HighLimit",
    "description": "Description", "factor": "Factor", "unit": "Unit", "storage_location": "StorageLocation",
}


def reader_pairs(repo, folder) -> Dict[str, Tuple[str, ast.AST]]:
    """attribute -> (option key, statement) from build_variable: `var.ATTR = g(eds.get(section, KEY))`."""
    f = repo.func(E, "build_variable", "C14.R1")
    out: Dict[str, Tuple[str, ast.AST]] = {}
    # name: ODVariable(name, index, subindex) with name = eds.get(section, "ParameterName")
    for n in own_nodes(f.node):
        if isinstance(n, ast.Assign) and len(n.targets) == 1:
            t = n.targets[0]
            keys = [folder.try_fold(c.args[1], Scope(f.mod), None) for c in ast.walk(n.value) if isinstance(c, ast.Call) and dotted(c.func) == "eds.get" and len(c.args) >= 2
                    and src(c.args[0]) == "section"]
            if isinstance(t, ast.Attribute) and dotted(t.value) == "var" and keys:
                attr = t.attr
                if attr.endswith("_raw"):
                    continue
                out.setdefault(attr, (keys[0], n))
            elif isinstance(t, ast.Name) and keys:
                # local later used: name -> constructor, min_string -> var.min, ...
                local = t.id
                for m in own_nodes(f.node):
                    if isinstance(m, ast.Assign) and isinstance(m.targets[0], ast.Attribute) and dotted(m.targets[0].value) == "var" \
                            and any(isinstance(x, ast.Name) and x.id == local for x in ast.walk(m.value)):
                        out.setdefault(m.targets[0].attr, (keys[0], m))
                    if isinstance(m, ast.Assign) and isinstance(m.value, ast.Call) and (dotted(m.value.func) or "").endswith("ODVariable") \
                            and m.value.args and isinstance(m.value.args[0], ast.Name) and m.value.args[0].id == local:
                        out.setdefault("name", (keys[0], m))
    return out


def writer_pairs(repo, folder) -> Dict[str, Tuple[str, ast.AST]]:
    """attribute -> (option key, statement) from export_variable/export_common: `eds.set(section, KEY, f(var.ATTR))`."""
    f = repo.func(E, "export_eds", "C14.R1")
    out: Dict[str, Tuple[str, ast.AST]] = {}
    for fn in [n for n in ast.walk(f.node) if isinstance(n, ast.FunctionDef) and n.name in ("export_variable", "export_common")]:
        for c in [x for x in ast.walk(fn) if isinstance(x, ast.Call) and dotted(x.func) == "eds.set" and len(x.args) == 3 and src(x.args[0]) == "section"]:
            key = folder.try_fold(c.args[1], Scope(f.mod), None)
            attrs = [x.attr for x in ast.walk(c.args[2]) if isinstance(x, ast.Attribute) and dotted(x.value) == "var"]
            for a in attrs:
                if a.endswith("_raw"):
                    a = a[:-4]
                out.setdefault(a, (key, c))
    # decided by specialisation where possible: the option whose written text changes when (only) the attribute changes
    probes = {"name": ("Probe", "Other"), "data_type": (5, 6), "access_type": ("rw", "ro"), "default": (16, 17), "value": (3, 4), "pdo_mappable": (False, True),
              "min": (1, 2), "max": (9, 8), "description": ("d1", "d2"), "factor": (2.5, 3.5), "unit": ("u1", "u2"), "storage_location": ("RAM", "ROM")}
    ev = [n for n in ast.walk(f.node) if isinstance(n, ast.FunctionDef) and n.name == "export_variable"]
    for attr, (v1, v2) in probes.items():
        w1, w2 = export_writes(repo, folder, {attr: v1}, True), export_writes(repo, folder, {attr: v2}, True)
        if w1[0] != "writes" or w2[0] != "writes":
            continue
        k1, k2 = {}, {}
        for _s, k, v in w1[1]:
            k1.setdefault(k, []).append(v)
        for _s, k, v in w2[1]:
            k2.setdefault(k, []).append(v)
        diff = sorted(k for k in set(k1) | set(k2) if k1.get(k) != k2.get(k))
        if len(diff) == 1:
            node = out[attr][1] if attr in out and out[attr][0] == diff[0] else (ev[0] if ev else f.node)
            out[attr] = (diff[0], node)
        elif not diff:
            out.pop(attr, None)
    return out


def signed_widths(repo, folder):
    """{type code: ('return', bits) | ...} by specialising _calc_bit_length for every CiA 301 signed type."""
    f = repo.func(E, "_calc_bit_length", "C08.R3")
    res = {}
    for name in sorted(O.SIGNED):
        code, kind, bits, signed = O.DATA_TYPES[name]
        res[name] = (bits, partial_eval(folder, f.node, f.mod, None, {f.params[0]: code}))
    return f, res


# ------------------------------------------------------------------------------------------------ the exporter, specialised
ABSENT = object()
_BASE_VAR = {"name": "Probe", "index": 0x2000, "subindex": 0, "data_type": 0x0005, "access_type": "rw", "pdo_mappable": False,
             "storage_location": None, "min": None, "max": None, "description": "", "factor": 1, "unit": "", "default": None, "value": None,
             "bit_definitions": {}, "value_descriptions": {}}


def export_writes(repo, folder, attrs: Dict[str, object], device_commisioning: bool, top_level: bool = True):
    """What export_variable writes for one ODVariable, by specialising export_variable (and what it calls) for a probe object:
    `attrs` overrides the fields of a plain UNSIGNED8 variable, the value ABSENT removes the attribute (default_raw / value_raw only
    exist on imported variables).  Returns ('writes', [(section, option, value), ...]) in program order, ('raise', name) or
    ('unknown', why).  Nothing runs: this is constant folding over the functions' own syntax with the fields bound."""
    from ..fold import RecordVal
    f = repo.func(E, "export_eds", "C14.R1")
    nested = {n.name: n for n in ast.walk(f.node) if isinstance(n, ast.FunctionDef) and n is not f.node}
    aliases = {n.targets[0].id: n.value.id for n in ast.walk(f.node) if isinstance(n, ast.Assign) and len(n.targets) == 1 and isinstance(n.targets[0], ast.Name)
               and isinstance(n.value, ast.Name) and n.value.id in nested}
    funcs = {n.name: n for n in f.mod.tree.body if isinstance(n, ast.FunctionDef)}
    funcs.update(nested)
    funcs.update({a: nested[t] for a, t in aliases.items()})
    ev = nested.get("export_variable")
    if ev is None or len(ev.args.args) < 2:
        return ("unknown", "no export_variable(var, eds)")
    fields = dict(_BASE_VAR)
    fields.update(attrs)
    fields = {k: v for k, v in fields.items() if v is not ABSENT}
    parent = RecordVal({}, isa=("ObjectDictionary",) if top_level else ("ODRecord",))
    fields["parent"] = parent
    var = RecordVal(fields, isa=("ODVariable",))
    log: List[tuple] = []
    eds_name = ev.args.args[1].arg
    # the document object is only ever the receiver of set/add_section: every name it travels under is a recorded callee
    names = {eds_name, "eds"} | {fn.args.args[i].arg for fn in nested.values() for i in range(len(fn.args.args)) if fn.args.args[i].arg.startswith("eds")}
    callees = {f"{n}.{m}" for n in names for m in ("set", "add_section")}
    env = {ev.args.args[0].arg: var, eds_name: RecordVal({}, isa=("RawConfigParser",))}
    r = partial_eval(folder, ev, f.mod, None, env, funcs, 0, (callees, log), {"device_commisioning": device_commisioning})
    if r[0] != "return":
        return r
    out = []
    for nm, args in log:
        if nm.endswith(".set") and len(args) == 3:
            out.append(args)
    return ("writes", out)


def convert_kinds(chk, rule: str):
    """The kind of value each data type's text becomes on import (binary types: bytes from hex digits, leading zeros kept; text
    types: the text itself; REAL: float; every other type, BOOLEAN and the time types included: int), decided by specialising
    _convert_variable per type code through the module's own helpers."""
    from .common import ctx
    repo, folder = ctx(chk)
    cv = repo.func(E, "_convert_variable", f"{chk.prop}.{rule}")
    chk.saw(cv)
    kinds_bad = kinds_unknown = None
    n_types = 0
    mod_funcs = {n.name: n for n in cv.mod.tree.body if isinstance(n, ast.FunctionDef) and n is not cv.node}
    for tname, code in sorted(((k, v[0]) for k, v in O.DATA_TYPES.items()), key=lambda kv: kv[1]):
        if tname in ("OCTET_STRING", "DOMAIN"):
            cases = [(t_, bytes.fromhex(t_)) for t_ in ("cafe01", "00a1b2", "0A1B2C", "00", "0010")]
        elif tname in ("VISIBLE_STRING", "UNICODE_STRING"):
            cases = [("cafe01", "cafe01"), ("0x10", "0x10"), ("007", "007")]
        elif tname.startswith("REAL"):
            cases = [("1.5", 1.5), ("-0.25", -0.25)]
        else:
            cases = [("0x10", 16), ("0", 0), ("10", 10)]
        for text, want in cases:
            r = partial_eval(folder, cv.node, cv.mod, None, {"node_id": None, "var_type": code, "value": text}, mod_funcs)
            if r[0] == "unknown":
                kinds_unknown = f"{tname}: {r[1]}"
                break
            if r != ("return", want) or type(r[1]) is not type(want):
                kinds_bad = f"a {tname} value `{text}` becomes {r[1]!r} ({'exception' if r[0] == 'raise' else type(r[1]).__name__}); expected {want!r}"
                break
        if kinds_unknown or kinds_bad:
            break
        n_types += 1
    if kinds_unknown:
        chk.notes.append(f"{chk.prop}.{rule} _convert_variable could not be specialised per type ({kinds_unknown})")
    else:
        chk.check(kinds_bad is None, rule, f"{E}:_convert_variable | kind of value per data type (specialised for {n_types} type codes)", cv.loc(), kinds_bad or "")
