"""Shared extraction for the EDS/DCF rules (C08, C14)."""
from __future__ import annotations

import ast
from typing import Dict, List, Optional, Tuple

from .. import oracles as O
from ..fold import Scope, dotted, src
from .common import own_nodes, partial_eval

E = "canopen/objectdictionary/eds.py"
OD = "canopen/objectdictionary/__init__.py"

# attribute of ODVariable -> EDS option (CiA 306 + the three library extensions)
ATTR_KEYS = {
    "name": "ParameterName", "data_type": "DataType", "access_type": "AccessType", "default": "DefaultValue",
    "value": "ParameterValue", "pdo_mappable": "PDOMapping", "min": "LowLimit", "max": "HighLimit",
    "description": "Description", "factor": "Factor", "unit": "Unit", "storage_location": "StorageLocation",
}


def reader_pairs(repo, folder) -> Dict[str, Tuple[str, ast.AST]]:
    """attribute -> (option key, statement) from build_variable: `var.ATTR = g(eds.get(section, KEY))`."""
    f = repo.func(E, "build_variable", "C14.R1")
    out: Dict[str, Tuple[str, ast.AST]] = {}
    # name: ODVariable(name, index, subindex) with name = eds.get(section, "ParameterName")
    for n in own_nodes(f.node):
        if isinstance(n, ast.Assign) and len(n.targets) == 1:
            t = n.targets[0]
            keys = [folder.try_fold(c.args[1], Scope(f.mod), None) for c in ast.walk(n.value) if isinstance(c, ast.Call) and dotted(c.func) == "eds.get" and len(c.args) >= 2
                    and src(c.args[0]) == "section"]
            if isinstance(t, ast.Attribute) and dotted(t.value) == "var" and keys:
                attr = t.attr
                if attr.endswith("_raw"):
                    continue
                out.setdefault(attr, (keys[0], n))
            elif isinstance(t, ast.Name) and keys:
                # local later used: name -> constructor, min_string -> var.min, ...
                local = t.id
                for m in own_nodes(f.node):
                    if isinstance(m, ast.Assign) and isinstance(m.targets[0], ast.Attribute) and dotted(m.targets[0].value) == "var" \
                            and any(isinstance(x, ast.Name) and x.id == local for x in ast.walk(m.value)):
                        out.setdefault(m.targets[0].attr, (keys[0], m))
                    if isinstance(m, ast.Assign) and isinstance(m.value, ast.Call) and (dotted(m.value.func) or "").endswith("ODVariable") \
                            and m.value.args and isinstance(m.value.args[0], ast.Name) and m.value.args[0].id == local:
                        out.setdefault("name", (keys[0], m))
    return out


def writer_pairs(repo, folder) -> Dict[str, Tuple[str, ast.AST]]:
    """attribute -> (option key, statement) from export_variable/export_common: `eds.set(section, KEY, f(var.ATTR))`."""
    f = repo.func(E, "export_eds", "C14.R1")
    out: Dict[str, Tuple[str, ast.AST]] = {}
    for fn in [n for n in ast.walk(f.node) if isinstance(n, ast.FunctionDef) and n.name in ("export_variable", "export_common")]:
        for c in [x for x in ast.walk(fn) if isinstance(x, ast.Call) and dotted(x.func) == "eds.set" and len(x.args) == 3 and src(x.args[0]) == "section"]:
            key = folder.try_fold(c.args[1], Scope(f.mod), None)
            attrs = [x.attr for x in ast.walk(c.args[2]) if isinstance(x, ast.Attribute) and dotted(x.value) == "var"]
            for a in attrs:
                if a.endswith("_raw"):
                    a = a[:-4]
                out.setdefault(a, (key, c))
    return out


def signed_widths(repo, folder):
    """{type code: ('return', bits) | ...} by specialising _calc_bit_length for every CiA 301 signed type."""
    f = repo.func(E, "_calc_bit_length", "C08.R3")
    res = {}
    for name in sorted(O.SIGNED):
        code, kind, bits, signed = O.DATA_TYPES[name]
        res[name] = (bits, partial_eval(folder, f.node, f.mod, None, {f.params[0]: code}))
    return f, res
