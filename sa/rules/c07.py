"""C07 -- a disturbed SDO transfer fails loudly and does not poison the next one."""
from __future__ import annotations

import ast

from .. import oracles as O
from ..facts import assigned_targets
from ..fold import Scope, dotted, names_in, src
from .common import (always_exits, is_observational_stmt, attr_stores, ctx, ff_for, find_calls, must_pass, node_calls, own_nodes, path_text)

CL = "canopen/sdo/client.py"
SV = "canopen/sdo/server.py"

# (function, expected response specifier (bits 7..5 value << 5), sub-command check (mask, value) or None, multiplexer check?)
SITES = [
    ("ReadableStream.__init__", O.SCS["upload_initiate"] << 5, None, True),
    ("ReadableStream.read", O.SCS["upload_segment"] << 5, None, False),
    ("WritableStream.__init__", O.SCS["download_initiate"] << 5, None, False),
    ("WritableStream.write", None, None, False),            # two responses, handled per branch below
    ("BlockUploadStream.__init__", O.SCS["block_upload"] << 5, None, True),
    ("BlockUploadStream._end_upload", O.SCS["block_upload"] << 5, (0x3, 1), False),
    ("BlockDownloadStream.__init__", O.SCS["block_download"] << 5, None, True),
    ("BlockDownloadStream._block_ack", O.SCS["block_download"] << 5, (0x3, 2), False),
]

EXPLANATION = (
    "R1 in request_response an exhausted retry budget passes abort(0x05040000) and then re-raises (must-pass-through); "
    "a time-out of the queue raises SdoCommunicationError; R2 the stale-response flush dominates the first send of "
    "every request; R3 validate-before-use at the eight response consumers: every statement using bytes of a response "
    "is dominated by the specifier check that raises, the checked constant is the CiA 301 partner of the request, "
    "block sub-commands and multiplexers are checked where the response carries them; R4 the toggle comparison "
    "dominates the data return of a segment read; R6 no residue: SdoClient rebinds only `responses` outside __init__, "
    "stream state lives in per-open() objects, both server initiate handlers reset toggle and buffer together; R8 structural assumptions shared by all properties: no class-level mutable object is mutated in place by instances, no method re-runs the constructor, logging statements cannot raise (typed eager formatting, divisions), no mutable default argument is kept or mutated, no new truth-value test of a None-able number, a look-up memory the pinned tree does not have is keyed by all its inputs (arithmetic keys folded over a grid of addresses) and, on the serving side, emptied somewhere."
    ' R1 also: outside the retry loop no handler around a request/response exchange completes normally without a recovery call; R6 skips counters / time stamps that nothing in the package reads.'
    ' R4 also: the upload ends on the c bit of the validated segment response only (_done is not set from an announced size); R6 also: what a completed download stored is an immutable copy of the payload (store clause shared with C02.R11).'
)
ASSUMPTIONS = [
    "not decided: running the disturbances (lost/duplicated/stale frames at every step) -- only the guards that make "
    "them fail loudly are decided",
    "observation, not a rule: BlockDownloadStream.close() accepts any response with bit 0 set as the end confirmation",
]


def run(chk):
    repo, folder = ctx(chk)
    mod = repo.mod(CL, "C07")
    sc = Scope(mod)
    # ------------------------------------------------------------------ R1
    rr = repo.func(CL, "SdoClient.request_response", "C07.R1")
    ff = ff_for(chk, rr, "C07.R1")
    handlers = [n for n in own_nodes(rr.node) if isinstance(n, ast.ExceptHandler) and "SdoCommunicationError" in src(n.type or ast.Constant(None))]
    chk.floor("R1", len(handlers), 1, "except SdoCommunicationError in request_response")
    for h in handlers:
        raises = [n for n in ast.walk(h) if isinstance(n, ast.Raise)]
        chk.check(bool(raises), "R1", f"{CL}:SdoClient.request_response | exhausted retries re-raise", rr.loc(h), "the time-out is swallowed when retries are exhausted")
        hnode = ff.cfg.node_of(h)
        for r in raises:
            rnode = ff.cfg.node_of(r)
            wit = must_pass(ff.cfg, lambda n: node_calls(n, "self.abort"), from_node=hnode, to_nodes=[rnode], skip_exc=True)
            chk.check(wit is None, "R1", f"{CL}:SdoClient.request_response | abort before raising", rr.loc(r),
                      f"the error is raised without telling the server (no abort frame): {path_text(wit) if wit else ''}")
        for c in find_calls(h, "self.abort"):
            code = folder.try_fold(c.args[0], Scope(mod, rr.cls), None) if c.args else None
            chk.check(code == O.ABORT["timeout"], "R1", f"{CL}:SdoClient.request_response | time-out code", rr.loc(c),
                      f"abort code {code!r}; CiA 301 time-out code is 0x05040000")
        # a path from the handler that does not raise goes round the loop and sends again
        ends = must_pass(ff.cfg, lambda n: node_calls(n, "self.send_request") or (n.kind == "stmt" and isinstance(n.ast, ast.Raise)), from_node=hnode)
        chk.check(ends is None, "R1", f"{CL}:SdoClient.request_response | time-out either retries or raises", rr.loc(h),
                  f"after a time-out a path returns normally without data: {path_text(ends) if ends else ''}")
        for r in raises:
            g = [(ff.norm(e, subst=False), p) for e, p in ff.facts_at(r)]
            ok = any((not p and t == "retries_left") or (p and t in (ff.canon("retries_left == 0"), ff.canon("retries_left <= 0"), ff.canon("retries_left < 1"))) for t, p in g)
            chk.check(ok, "R1", f"{CL}:SdoClient.request_response | raises when the retries are used up", rr.loc(r),
                      f"the time-out is re-raised under {g}: with the polarity wrong the loop retries for ever (or gives up at once)")
        init = [n for n in own_nodes(rr.node) if isinstance(n, ast.Assign) and src(n.targets[0]) == "retries_left"]
        chk.check(len(init) == 1 and src(init[0].value) == "self.MAX_RETRIES" and ff.cfg.dominates(ff.cfg.node_of(init[0]), hnode), "R1",
                  f"{CL}:SdoClient.request_response | retry budget initialised", rr.loc(), f"{[src(i) for i in init]}")
        # retries are bounded: the counter decreases in the handler
        dec = [n for n in ast.walk(h) if isinstance(n, ast.AugAssign) and isinstance(n.op, ast.Sub) and src(n.target) == "retries_left"]
        chk.check(bool(dec), "R1", f"{CL}:SdoClient.request_response | bounded retries", rr.loc(h), "retry counter is not decremented")
    rd = repo.func(CL, "SdoClient.read_response", "C07.R1")
    chk.saw(rd)
    eh = [n for n in own_nodes(rd.node) if isinstance(n, ast.ExceptHandler) and "Empty" in src(n.type or ast.Constant(None))]
    chk.check(bool(eh) and all(any(isinstance(x, ast.Raise) and "SdoCommunicationError" in src(x) for x in ast.walk(h)) and always_exits(h.body) for h in eh), "R1",
              f"{CL}:SdoClient.read_response | silence raises", rd.loc(), "queue.Empty does not become SdoCommunicationError")
    gets = [c for c in find_calls(rd.node, ".get") if src(c.func.value) == "self.responses"]
    for c in gets:
        kw = {k.arg: src(k.value) for k in c.keywords}
        chk.check(kw.get("timeout") == "self.RESPONSE_TIMEOUT" and kw.get("block", "True") == "True", "R1", f"{CL}:SdoClient.read_response | bounded wait", rd.loc(c), f"{src(c)}")

    # a failed exchange surfaces: outside the retry loop of request_response no handler around a request / response exchange may
    # complete normally for an SDO error (the caller would take the transfer for done)
    n_h = 0
    for cname, k in repo.mod(CL, "C07.R1").classes.items():
        for mname, m in k.methods.items():
            if (cname, mname) == ("SdoClient", "request_response"):
                continue
            for t in [n for n in own_nodes(m.node) if isinstance(n, ast.Try)]:
                if not any(isinstance(c, ast.Call) and isinstance(c.func, ast.Attribute) and c.func.attr in ("request_response", "read_response", "send_request") for b in t.body for c in ast.walk(b)):
                    continue
                for h in t.handlers:
                    names = {dotted(e) for e in (h.type.elts if isinstance(h.type, ast.Tuple) else [h.type])} if h.type is not None else {"BaseException"}
                    if not names & {"SdoError", "SdoCommunicationError", "SdoAbortedError", "Exception", "BaseException"}:
                        continue
                    n_h += 1
                    recovers = any(isinstance(x, ast.Call) and (dotted(x.func) or "").split(".")[0] not in ("logger", "log", "logging") for b in h.body for x in ast.walk(b))
                    chk.check(recovers or (always_exits(h.body) and any(isinstance(x, ast.Raise) for x in ast.walk(h))), "R1", f"{CL}:{cname}.{mname} | a failed exchange is not swallowed", m.loc(h),
                              f"`except {', '.join(sorted(n_ for n_ in names if n_))}` around the exchange completes normally: an abort or time-out at this step is lost and the caller takes "
                              f"the transfer for done while the server never committed it")
    chk.ok("R1", f"{CL} | handlers around exchanges re-raise", CL, f"{n_h} handlers outside the retry loop")

    # ------------------------------------------------------------------ R2 flush before send
    from . import shared
    shared.client_flush(chk, "R2")

    # ------------------------------------------------------------------ R3 validate before use
    validate_sites(chk)

    # ------------------------------------------------------------------ R4 toggle compare dominates data return
    rdd = repo.func(CL, "ReadableStream.read", "C07.R4")
    fr = ff_for(chk, rdd, "C07.R4")
    rets = [n for n in own_nodes(rdd.node) if isinstance(n, ast.Return) and n.value is not None and "response" in src(n.value)]
    chk.floor("R4", len(rets), 1, "data return in ReadableStream.read")
    for r in rets:
        g = [fr.norm(e, subst=False) for e, p in fr.facts_at(r) if p]
        chk.check(fr.canon("res_command & TOGGLE_BIT == self._toggle") in g or _toggle_fact(fr, r)
                  or _dominating_check(fr, fr.cfg.node_of(r), ["res_command & TOGGLE_BIT != self._toggle"]), "R4", f"{CL}:ReadableStream.read | toggle checked before data", rdd.loc(r),
                  "segment data is returned without comparing the response's toggle bit with the expected one")

    # the upload ends where the server says it ends: `_done` is set from the c bit of the validated segment response only (an
    # announced size may come from a stale initiate response; trusting it cuts the data short without any error)
    for st in [n for n in own_nodes(rdd.node) if isinstance(n, ast.Assign) and any(dotted(t) == "self._done" for t in n.targets)]:
        if folder.try_fold(st.value, Scope(rdd.mod), None) is not True:
            continue
        g = [(fr.norm(e, subst=False), p) for e, p in fr.facts_at(st)]
        okd = any(p and ("NO_MORE_DATA" in t or t.replace(" ", "") in ("1&res_command", "res_command&1")) for t, p in g) or any((p and "exp_data is not None" in t) or (not p and "exp_data is None" in t) for t, p in g)
        chk.check(okd, "R4", f"{CL}:ReadableStream.read | end of upload taken from the c bit", rdd.loc(st),
                  f"`self._done = True` under {g}: the transfer is declared complete without the server's last-segment flag; with a stale or wrong size the caller gets truncated data and no error")

    # ------------------------------------------------------------------ R6 no residue
    cli = repo.cls(CL, "SdoClient", "C07.R6")
    for mname, m in cli.methods.items():
        if mname == "__init__":
            continue
        for n in own_nodes(m.node):
            if isinstance(n, (ast.Assign, ast.AugAssign, ast.AnnAssign)):
                for t in assigned_targets(n):
                    if t.startswith("self.") and t.count(".") == 1:
                        if is_observational_stmt(repo, n):
                            continue              # a counter / time stamp nothing in the package reads is not transfer state
                        chk.check(t == "self.responses", "R6", f"{CL}:SdoClient.{mname} | rebinds {t}", m.loc(n),
                                  "transfer state stored on the client object survives into the next transfer")
    chk.ok("R6", f"{CL}:SdoClient | only `responses` is rebound outside __init__", f"{CL}:{cli.node.lineno}")
    op = repo.func(CL, "SdoClient.open", "C07.R6")
    chk.saw(op)
    made = {dotted(c.func) for c in ast.walk(op.node) if isinstance(c, ast.Call)} & {"ReadableStream", "WritableStream", "BlockUploadStream", "BlockDownloadStream"}
    chk.check(len(made) == 4, "R6", f"{CL}:SdoClient.open | fresh stream object per transfer", op.loc(), f"open() constructs {sorted(made)}")
    shared.server_reset(chk, "R6")
    # "the next transfer on the same server completes correctly" and "never success with different data" presuppose that what a
    # completed download stored is an immutable copy: a later, disturbed transfer that re-uses the server's buffer must not reach it
    shared.store_exact(chk, "R6")

    # ------------------------------------------------------------------ R8 instances are independent (shared clause)
    from . import shared as _shared
    _shared.isolation(chk, "R8", rels=['canopen/sdo/client.py', 'canopen/sdo/base.py', 'canopen/sdo/server.py'])


def _toggle_fact(fr, r) -> bool:
    for e, p in fr.facts_at(r):
        t = fr.norm(e, subst=False)
        if p and "self._toggle" in t and "==" in t and "16" in t:
            return True
    return False


def _response_vars(f):
    """(response variable, [(unpack stmt, names)])"""
    resp = None
    for n in own_nodes(f.node):
        if isinstance(n, ast.Assign) and isinstance(n.value, ast.Call) and (src(n.value.func).endswith("request_response") or src(n.value.func).endswith("read_response")) \
                and isinstance(n.targets[0], ast.Name):
            resp = n.targets[0].id
    return resp


def _derived(f, resp):
    derived = {resp}
    unpacks = []
    changed = True
    while changed:
        changed = False
        for n in own_nodes(f.node):
            if isinstance(n, ast.Assign) and names_in(n.value) & derived and not (isinstance(n.value, ast.Call) and src(n.value.func).endswith("_response")):
                tg = set()
                for t in n.targets:
                    for e in (t.elts if isinstance(t, ast.Tuple) else [t]):
                        d = dotted(e)
                        if d:
                            tg.add(d)
                is_unpack = isinstance(n.value, ast.Call) and "unpack" in src(n.value.func) or isinstance(n.value, ast.Subscript)
                if is_unpack and all(not t.startswith("self.") or True for t in tg):
                    if n not in unpacks:
                        unpacks.append(n)
                new = {t for t in tg if not t.startswith("self.")}
                if not new <= derived:
                    derived |= new
                    changed = True
    return derived, unpacks


def pos_check_needed_for_unpack(a) -> bool:
    # decoding the frame into locals (or attributes that are only meaningful when the function returns normally)
    # is not a use; what is done with the decoded values is
    return False


def _dominating_check(fx, node, forms_ne) -> bool:
    """A test `X != expected` (any of forms_ne) whose true branch always exits dominates `node`."""
    for t in fx.cfg.nodes:
        if t.kind != "test":
            continue
        tn = fx.norm(t.ast, subst=False)
        owner = getattr(t, "owner", None)
        if owner is None:
            continue
        if tn in [fx.canon(x) for x in forms_ne] and always_exits(owner.body) and fx.cfg.dominates(t, node):
            # and the node is not inside the raising branch
            if not any(node.ast is x for s_ in owner.body for x in ast.walk(s_)):
                return True
        if tn in [fx.canon(x.replace("!=", "==")) for x in forms_ne] and owner.orelse and always_exits(owner.orelse) and fx.cfg.dominates(t, node):
            if not any(node.ast is x for s_ in owner.orelse for x in ast.walk(s_)):
                return True
    return False


def validate_sites(chk, classes=None):
    """R3 for every response consumer (or only those of the named stream classes; used by C12/C13 for the block streams)."""
    repo, folder = ctx(chk)
    # the refusal itself must be the SDO error: building its message may not be able to raise something else
    climod = repo.mod(CL, "C07.R3")
    safe_calls = {"pretty_index", "str", "hex", "len", "repr", "int", "format", "bytes", "binascii.hexlify"}
    n_r = 0
    for f_ in list(climod.funcs.values()) + [m_ for c_ in climod.classes.values() for m_ in c_.methods.values()]:
        if classes is not None and (f_.cls is None or f_.cls.name not in classes):
            continue
        for rs in [n for n in own_nodes(f_.node) if isinstance(n, ast.Raise) and isinstance(n.exc, ast.Call) and (dotted(n.exc.func) or "").startswith("Sdo")]:
            n_r += 1
            risky = [x for a in list(rs.exc.args) + [k.value for k in rs.exc.keywords] for x in ast.walk(a)
                     if (isinstance(x, ast.Call) and (dotted(x.func) or "?") not in safe_calls and not (isinstance(x.func, ast.Attribute) and x.func.attr in ("hex", "upper", "lower", "join", "format")))]
            chk.check(not risky, "R3", f"{f_.key} | `raise {dotted(rs.exc.func)}` cannot fail while building its message", f_.loc(rs),
                      f"`{src(risky[0])[:60]}` is evaluated to build the error text; if it raises (KeyError from a dictionary lookup, ...) the caller sees that exception instead of the "
                      f"SDO error, and handlers such as PdoMap.read's `except (KeyError, SdoAbortedError)` swallow it" if risky else "")
    chk.floor("R3", n_r, 3, "raise sites of SDO errors in the client")
    for fq, scs, sub, mux in SITES:
        if classes is not None and fq.split(".")[0] not in classes:
            continue
        f = repo.func(CL, fq, "C07.R3")
        fx = ff_for(chk, f, "C07.R3")
        if fq == "WritableStream.write":
            _site_write(chk, folder, f, fx)
            continue
        _site(chk, folder, f, fx, scs, sub, mux)
    if classes is None or "BlockDownloadStream" in classes:
        cl = repo.func(CL, "BlockDownloadStream.close", "C07.R3")
        fcl = ff_for(chk, cl, "C07.R3")
        rs = [n for n in own_nodes(cl.node) if isinstance(n, ast.Raise)]
        ok = any(any(fcl.is_form(e, "res_command & END_BLOCK_TRANSFER") and not p for e, p in fcl.facts_at(r)) for r in rs)
        chk.check(ok, "R3", f"{CL}:BlockDownloadStream.close | end confirmation checked", cl.loc(), "the end-of-block-download response is not checked")


def _site(chk, folder, f, fx, scs, sub, mux):
    resp = _response_vars(f)
    if resp is None:
        chk.unk("R3", f"{f.key} | response", f.loc(), "no `response = ...request_response/read_response(...)`")
        return
    derived, unpacks = _derived(f, resp)
    cmdvar = None
    for u in unpacks:
        if isinstance(u.targets[0], ast.Tuple) and isinstance(u.value, ast.Call) and "unpack" in src(u.value.func) \
                and isinstance(u.targets[0].elts[0], ast.Name):
            a = u.value.args
            is_sdo = src(u.value.func).startswith("SDO_STRUCT.")
            buf = a[0] if is_sdo else (a[1] if len(a) > 1 else None)
            off = (a[1] if len(a) > 1 else None) if is_sdo else (a[2] if len(a) > 2 else None)
            if buf is not None and src(buf).split("[")[0] == resp and (off is None or folder.try_fold(off, Scope(f.mod), None) == 0):
                cmdvar = src(u.targets[0].elts[0])
                break
    if cmdvar is None:
        chk.unk("R3", f"{f.key} | command byte", f.loc(), "no unpack of the response's command byte")
        return
    spec_forms = [f"{cmdvar} & 0xE0 == {scs}", f"{cmdvar} == {scs}"]
    n_uses = 0
    for n in fx.cfg.nodes:
        if n.kind not in ("stmt", "test") or n.ast is None:
            continue
        a = n.ast
        if a in unpacks and not pos_check_needed_for_unpack(a):
            continue
        used = names_in(a) & derived
        if not used:
            continue
        if isinstance(a, ast.Assign) and isinstance(a.value, ast.Call) and src(a.value.func).endswith("_response"):
            continue
        facts = fx.facts_at(a)
        pos = any(p and any(fx.norm(e, subst=False) == fx.canon(s) for s in spec_forms) for e, p in facts)
        neg = any((not p and any(fx.norm(e, subst=False) == fx.canon(s) for s in spec_forms)) or
                  (p and any(fx.norm(e, subst=False) == fx.canon(s.replace("==", "!=")) for s in spec_forms)) for e, p in facts)
        if n.kind == "test" and any(fx.norm(a, subst=False) in (fx.canon(s), fx.canon(s.replace("==", "!="))) for s in spec_forms):
            continue                      # the check itself
        if neg or isinstance(a, ast.Raise):
            continue                      # error branch (message text may quote the byte)
        if isinstance(a, ast.Expr) and isinstance(a.value, ast.Call) and (src(a.value.func).startswith("logger.")):
            continue
        n_uses += 1
        pos = pos or _dominating_check(fx, n, [x.replace("==", "!=") for x in spec_forms])
        chk.check(pos, "R3", f"{f.key} | `{src(a)[:50]}` after specifier check", f.loc(a),
                  f"bytes of the response are used before its command specifier was validated (expected check `{spec_forms[0]}` that raises)")
    # the failing branch raises
    checks = [n for n in fx.cfg.nodes if n.kind == "test" and any(fx.norm(n.ast, subst=False) in (fx.canon(s), fx.canon(s.replace("==", "!="))) for s in spec_forms)]
    if not checks:
        chk.bad("R3", f"{f.key} | specifier check present", f.loc(), f"no test `{spec_forms[0].replace('==', '!=')}` on the response")
    for c in checks:
        owner = getattr(c, "owner", None)
        neq = "!=" in fx.norm(c.ast, subst=False)
        body = owner.body if (owner is not None and neq) else (owner.orelse if owner is not None else [])
        chk.check(owner is not None and always_exits(body) and any(isinstance(x, ast.Raise) for s in body for x in ast.walk(s)), "R3",
                  f"{f.key} | wrong specifier raises", f.loc(c.ast), "the mismatch branch does not raise")
    if sub is not None:
        m, v = sub
        forms = [f"{cmdvar} & {m} == {v}"]
        rets = [n for n in own_nodes(f.node) if isinstance(n, ast.Return)] or []
        ends = rets if rets else [None]
        tests = [n for n in fx.cfg.nodes if n.kind == "test" and fx.norm(n.ast, subst=False) in (fx.canon(forms[0]), fx.canon(forms[0].replace("==", "!=")))]
        chk.check(bool(tests), "R3", f"{f.key} | sub-command checked", f.loc(), f"no test `{forms[0]}` on the response")
        for r in rets:
            g = [fx.norm(e, subst=False) for e, p in fx.facts_at(r) if p]
            chk.check(fx.canon(forms[0]) in g, "R3", f"{f.key} | sub-command validated before return", f.loc(r), f"returns under {g}")
        if not rets:
            # fall-through function (_block_ack): state updates must follow the sub-command check
            for s_ in [n for n in own_nodes(f.node) if isinstance(n, ast.Assign) and any((dotted(t) or "").startswith("self.") for t in n.targets)]:
                g = [fx.norm(e, subst=False) for e, p in fx.facts_at(s_) if p]
                chk.check(fx.canon(forms[0]) in g, "R3", f"{f.key} | `{src(s_)[:40]}` after sub-command check", f.loc(s_), f"state updated under {g}")
    if mux:
        stores = [n for n in own_nodes(f.node) if isinstance(n, (ast.Assign, ast.AugAssign)) and names_in(n) & (derived - {resp}) - {cmdvar}
                  or (isinstance(n, ast.Assign) and names_in(n.value) & derived and any((dotted(t) or "").startswith("self.") for t in n.targets))]
        want = [fx.canon("res_index == index"), fx.canon("res_subindex == subindex")]
        seen_mux = False
        for s_ in stores:
            if s_ in unpacks:
                continue
            g = [fx.norm(e, subst=False) for e, p in fx.facts_at(s_) if p]
            if any("res_index" in x for x in g) or True:
                ok = all(w in g for w in want)
                seen_mux = seen_mux or ok
                if any((dotted(t) or "").startswith("self.") for t in getattr(s_, "targets", [getattr(s_, "target", None)]) if t is not None):
                    chk.check(ok, "R3", f"{f.key} | `{src(s_)[:40]}` after multiplexer check", f.loc(s_),
                              "data of a response for a different object (wrong multiplexer) is accepted")
        chk.check(seen_mux, "R3", f"{f.key} | multiplexer check", f.loc(), "the response's multiplexer is not compared with the requested one")


def _site_write(chk, folder, f, fx):
    # two request/response exchanges; each raise-check pairs with the branch's request
    want = {True: O.SCS["download_initiate"] << 5, False: O.SCS["download_segment"] << 5}
    resp_assigns = [n for n in own_nodes(f.node) if isinstance(n, ast.Assign) and isinstance(n.value, ast.Call) and src(n.value.func).endswith("request_response")]
    chk.floor("R3", len(resp_assigns), 2, "request_response calls in WritableStream.write")
    for ra in resp_assigns:
        g = [(src(e), p) for e, p in fx.facts_at(ra)]
        exp = ("self._exp_header is not None", True) in g
        scs = want[exp]
        node = fx.cfg.node_of(ra)
        # the next statements: unpack + check that raises
        region = fx.cfg.reach_from(node, skip_exc=True)
        tests = [n for n in region if n.kind == "test" and ("res_command" in src(n.ast))
                 and fx.cfg.dominates(node, n)]
        ok = False
        for t in tests:
            tn = fx.norm(t.ast, subst=False)
            if tn in (fx.canon(f"res_command & 0xE0 != {scs}"), fx.canon(f"res_command != {scs}")):
                owner = getattr(t, "owner", None)
                ok = owner is not None and always_exits(owner.body)
        chk.check(ok, "R3", f"{f.key} | {'expedited' if exp else 'segment'} response validated", f.loc(ra),
                  f"the response to the {'expedited download' if exp else 'download segment'} is not checked for specifier 0x{scs:02X}")
        # success bookkeeping (pos, return) only after the check
    for r in [n for n in own_nodes(f.node) if isinstance(n, ast.Return) and n.value is not None and src(n.value) == "bytes_sent"]:
        wit = must_pass(fx.cfg, lambda n: n.kind == "test" and "res_command" in src(n.ast), to_nodes=[fx.cfg.node_of(r)])
        chk.check(wit is None, "R3", f"{f.key} | success reported only after a validated response", f.loc(r), f"{path_text(wit) if wit else ''}")
