"""C09 -- saving a PDO configuration follows the safe procedure and reads back identically."""
from __future__ import annotations

import ast

from .. import oracles as O
from ..cfg import typestate
from ..fold import Scope, dotted, src
from ..facts import assigned_targets
from .common import (attr_stores, ctx, enclosing, expand_or_terms, ff_for, find_calls, must_pass, node_calls, or_terms, own_nodes, path_text,
                     subscript_target)

B = "canopen/pdo/base.py"
PI = "canopen/pdo/__init__.py"
RN = "canopen/node/remote.py"

EXPLANATION = (
    "R1 write-order automaton over every CFG path of PdoMap.save (events: INV = COB-ID store with the invalid bit, "
    "COM(k), CNT0 = mapping count zeroed, ENT = mapping entry, CNT = count set to len(map), VAL = COB-ID store without "
    "the invalid bit, SUB): first SDO store is INV, no ENT before CNT0, CNT after the last ENT, VAL last, at most once, "
    "only under `self.enabled`, SUB only after VAL and on every path after it, entry sub-index counter starts at 1 and is "
    "advanced exactly once per mapped variable; R2 read(): old map cleared before the loop, loop over sub-indices "
    "1..count with count and entries from map_array, add_variable(index, subindex, size) under `index and size`; R2 flag constants are bits 31/30, RTR flag OR-ed exactly when not "
    "rtr_allowed at both stores, mapping word index<<16|sub<<8|length in save equals the shifts/masks of read, read "
    "masks 29 id bits and tests each flag == 0; R3 attribute<->sub-index pairs of save and read are equal and equal "
    "{1,2,3,5,6}; R4 subscribe() is guarded by enabled and subscribes (cob_id, on_message), read ends in subscribe() on "
    "every normal path; R5 optional sub-entries read under >= 254; R6 predefined COB-IDs base+0x100*n+id for n<4 with "
    "bases 0x200/0x180; R7 load_configuration reads from the dictionary then saves, generic loop skips 0x1400-0x1BFF; "
    "R8 the dictionary value source prefers value over default by `is not None` (0 is a legal value); R11 ODVariable.__len__ per data type (default mapping length; shared with C04.R5); R10 structural assumptions shared by all properties: no class-level mutable object is mutated in place by instances, no method re-runs the constructor, logging statements cannot raise (typed eager formatting, divisions), no mutable default argument is kept or mutated, no new truth-value test of a None-able number, a look-up memory the pinned tree does not have is keyed by all its inputs (arithmetic keys folded over a grid of addresses) and, on the serving side, emptied somewhere."
    ' R6 also: PdoMaps.__init__ covers all 512 communication records; R2 also: every mapping entry is a new PdoVariable.'
    ' R10 includes the lock clauses (no SDO exchange while holding a lock a receive callback takes).'
    ' R1 also: no write to the communication or mapping record sits in a finally/except block of save(); R3 also: an optional parameter is written whenever it is set (no other condition in force at the write), read() pairs follow a local.'
)
ASSUMPTIONS = [
    "not decided: device behaviour and SDO outcomes; a store inside try/except SdoAbortedError counts as attempted",
    "SdoVariable.raw assignment is one SDO download of the encoded value (decided under C03.R1)",
]


def run(chk):
    repo, folder = ctx(chk)
    mod = repo.mod(B, "C09")
    sc = Scope(mod)
    NV = folder.try_fold(mod.consts.get("PDO_NOT_VALID", ast.Constant(value=None)), sc, None)
    RTR = folder.try_fold(mod.consts.get("RTR_NOT_ALLOWED", ast.Constant(value=None)), sc, None)
    chk.check(NV == 1 << O.PDO_NOT_VALID_BIT, "R2", f"{B}:PDO_NOT_VALID", B, f"PDO_NOT_VALID = {NV!r}; CiA 301: bit 31")
    chk.check(RTR == 1 << O.PDO_NO_RTR_BIT, "R2", f"{B}:RTR_NOT_ALLOWED", B, f"RTR_NOT_ALLOWED = {RTR!r}; CiA 301: bit 30")

    save = repo.func(B, "PdoMap.save", "C09.R1")
    ff = ff_for(chk, save, "C09.R1")
    fsc = Scope(mod, save.cls)

    def classify(st):
        """event for an assignment statement, or None"""
        if not isinstance(st, ast.Assign) or len(st.targets) != 1:
            return None
        tg = subscript_target(st.targets[0])
        if tg is None:
            return None
        base, k = tg
        kv = folder.try_fold(k, fsc, None)
        if base == "com_record":
            if kv == 1:
                terms = expand_or_terms(ff, st.value)
                vals = [folder.try_fold(t, fsc, None) for t in terms]
                has_nv = any(isinstance(v, int) and v & (1 << 31) for v in vals)
                return ("INV" if has_nv else "VAL", st)
            if kv is None:
                return ("COM?", st)
            return (f"COM{kv}", st)
        if base == "map_array":
            if kv == 0:
                v = folder.try_fold(st.value, fsc, None)
                if v == 0:
                    return ("CNT0", st)
                if src(st.value) == "len(self.map)":
                    return ("CNT", st)
                return ("CNT?", st)
            return ("ENT", st)
        return None

    events = {}
    for n in ff.cfg.nodes:
        if n.kind == "stmt":
            ev = classify(n.ast)
            if ev:
                events[n] = ev[0]
            elif isinstance(n.ast, ast.Expr) and isinstance(n.ast.value, ast.Call) and dotted(n.ast.value.func) == "self.subscribe":
                events[n] = "SUB"
    kinds = sorted(set(events.values()))
    chk.floor("R1", len(events), 9, "SDO store / subscribe events in PdoMap.save")
    for bad in ("COM?", "CNT?"):
        for n, e in events.items():
            if e == bad:
                chk.unk("R1", f"{B}:PdoMap.save | {src(n.ast)[:60]}", save.loc(n.ast), "store to a communication/mapping entry that cannot be classified")

    # DFA state: (inv, cnt0, ent, cnt, val)
    def step(n, s):
        e = events.get(n)
        if e is None:
            return [s]
        inv, cnt0, ent, cnt, val = s
        if val and e != "SUB":
            return [f"ERR:{e} after the PDO was validated (validation must be the last SDO write)"]
        if not inv and e != "INV":
            return [f"ERR:{e} before the PDO was invalidated (COB-ID with bit 31 must be written first)"]
        if e == "INV":
            return [(True, cnt0, ent, cnt, val)]
        if e.startswith("COM"):
            return [s]
        if e == "CNT0":
            if ent:
                return ["ERR:mapping count zeroed after entries were written"]
            return [(inv, True, ent, False, val)]
        if e == "ENT":
            if not cnt0:
                return ["ERR:mapping entry written before the mapping count was zeroed"]
            if cnt:
                return ["ERR:mapping entry written after the mapping count was set"]
            return [(inv, cnt0, True, cnt, val)]
        if e == "CNT":
            if not cnt0:
                return ["ERR:mapping count set although it was never zeroed"]
            return [(inv, cnt0, ent, True, val)]
        if e == "VAL":
            if not cnt:
                return ["ERR:PDO validated before the mapping count was set"]
            facts = [src(x) for x, p in ff.facts_at(n.ast) if p]
            if "self.enabled" not in facts:
                return ["ERR:PDO validated although it is not guarded by `self.enabled`"]
            return [(inv, cnt0, ent, cnt, True)]
        if e == "SUB":
            if not val:
                return ["ERR:subscribe() before the PDO was validated"]
            return [s]
        return [s]

    ex, rz, errs, IN = typestate(ff.cfg, [(False, False, False, False, False)], step)
    chk.product_states += sum(len(v) for v in IN.values() if v)
    for n, s, why in errs:
        chk.bad("R1", f"{B}:PdoMap.save | {why}", save.loc(n.ast), f"{why}; statement `{src(n.ast)[:80]}` reached in state inv/cnt0/ent/cnt/val={s}")
    for s in sorted(ex):
        inv, cnt0, ent, cnt, val = s
        if not inv and not any(s):
            # early return: must be the `cob_id is None` case only
            continue
        chk.check(inv and cnt0 and cnt, "R1", f"{B}:PdoMap.save | exit state {s}", save.loc(),
                  "a normal path ends " + ("without zeroing the mapping count" if not cnt0 else "without setting the mapping count"))
    chk.check(bool(ex) and not errs, "R1", f"{B}:PdoMap.save | write order on all paths", save.loc(), "see the errors above",
              f"events {kinds}; exit states {sorted(ex)}")
    # the only silent exit is the `cob_id is None` return
    for r in [n for n in own_nodes(save.node) if isinstance(n, ast.Return)]:
        g = [src(e) for e, p in ff.facts_at(r) if p]
        chk.check("self.cob_id is None" in g, "R1", f"{B}:PdoMap.save | early return", save.loc(r), f"save() returns early under {g}")
    # VAL on the path where enabled: every path with fact enabled reaches VAL -> check: a VAL exists and is the COB-ID with flags
    n_val = [n for n, e in events.items() if e == "VAL"]
    n_inv = [n for n, e in events.items() if e == "INV"]
    chk.check(len(n_val) >= 1, "R1", f"{B}:PdoMap.save | validation present", save.loc(), "the PDO is never validated again")

    # after validation the node is subscribed on every path; the entry sub-index starts at 1 and advances by 1 per entry
    for n in n_val:
        wit = must_pass(ff.cfg, lambda m: events.get(m) == "SUB", from_node=n)
        chk.check(wit is None, "R1", f"{B}:PdoMap.save | subscribe after validation", save.loc(n.ast),
                  f"a path from the validating COB-ID write to the end of save() does not subscribe: {path_text(wit) if wit else ''}")
    ent_nodes = [n for n, e in events.items() if e == "ENT"]
    for n in ent_nodes:
        k = subscript_target(n.ast.targets[0])[1]
        if not isinstance(k, ast.Name):
            chk.unk("R1", f"{B}:PdoMap.save | entry sub-index `{src(k)}`", save.loc(n.ast), "mapping entry sub-index is not a plain counter variable")
            continue
        enum = [l for l in enclosing(save.node, n.ast, (ast.For,)) if isinstance(l.iter, ast.Call) and dotted(l.iter.func) == "enumerate"
                and l.iter.args and src(l.iter.args[0]) == "self.map" and isinstance(l.target, ast.Tuple) and src(l.target.elts[0]) == k.id]
        if enum:
            st_ = enum[0].iter.args[1] if len(enum[0].iter.args) > 1 else next((kw.value for kw in enum[0].iter.keywords if kw.arg == "start"), None)
            chk.check(st_ is not None and folder.try_fold(st_, fsc, None) == 1, "R1", f"{B}:PdoMap.save | entry sub-index starts at 1", save.loc(n.ast),
                      f"`{src(enum[0].iter)}`: the first mapping entry is sub-index 1")
            continue
        loops = [l for l in enclosing(save.node, n.ast, (ast.For,)) if src(l.iter) == "self.map"]
        chk.check(bool(loops), "R1", f"{B}:PdoMap.save | entries written per mapped variable", save.loc(n.ast), "mapping entry store is not inside `for var in self.map`")
        if not loops:
            continue
        loop = loops[0]
        inits = [m for m in ff.cfg.nodes if m.kind == "stmt" and isinstance(m.ast, ast.Assign) and src(m.ast.targets[0]) == k.id
                 and not enclosing(save.node, m.ast, (ast.For,))]
        ok_init = [m for m in inits if folder.try_fold(m.ast.value, fsc, None) == 1 and ff.cfg.dominates(m, n)]
        chk.check(len(inits) == 1 and len(ok_init) == 1, "R1", f"{B}:PdoMap.save | entry sub-index starts at 1", save.loc(n.ast),
                  f"`{k.id}` initialised by {[src(m.ast) for m in inits]}; the first mapping entry is sub-index 1")
        incs = [m for m in own_nodes(loop) if isinstance(m, ast.AugAssign) and src(m.target) == k.id]
        ok_inc = [m for m in incs if isinstance(m.op, ast.Add) and folder.try_fold(m.value, fsc, None) == 1 and m in loop.body]
        other = [m for m in own_nodes(loop) if isinstance(m, ast.Assign) and k.id in assigned_targets(m)]
        chk.check(len(incs) == 1 and len(ok_inc) == 1 and not other, "R1", f"{B}:PdoMap.save | entry sub-index advances by one", save.loc(n.ast),
                  f"`{k.id}` updated in the loop by {[src(m) for m in incs + other]}; expected exactly one unconditional `{k.id} += 1` per mapped variable")

    # ------------------------------------------------------------------ R2 encodings
    for n in n_inv + n_val:
        st = n.ast
        terms = expand_or_terms(ff, st.value)
        tsrc = [src(t) for t in terms]
        chk.check("self.cob_id" in tsrc, "R2", f"{B}:PdoMap.save | {events[n]} carries cob_id", save.loc(st), f"COB-ID store is {tsrc}")
        rtr_terms = [t for t in terms if isinstance(t, ast.IfExp)]
        ok = False
        why = f"no conditional RTR term in {tsrc}"
        for t in rtr_terms:
            body, orelse = folder.try_fold(t.body, fsc, None), folder.try_fold(t.orelse, fsc, None)
            test = ff.norm(t.test, subst=False)
            if test == "not self.rtr_allowed" and body == 1 << 30 and orelse == 0:
                ok = True
            elif test == "self.rtr_allowed" and body == 0 and orelse == 1 << 30:
                ok = True
            else:
                why = f"RTR term `{src(t)}` sets bit 30 under the wrong condition or with the wrong constant"
        chk.check(ok, "R2", f"{B}:PdoMap.save | {events[n]} RTR flag polarity", save.loc(st), why)
        extra = [s_ for s_, t in zip(tsrc, terms) if s_ != "self.cob_id" and not isinstance(t, ast.IfExp)
                 and folder.try_fold(t, fsc, None) not in ((1 << 31),)]
        chk.check(not extra, "R2", f"{B}:PdoMap.save | {events[n]} no foreign terms", save.loc(st), f"unexpected terms {extra}")
    # mapping word
    ents = [n.ast for n, e in events.items() if e == "ENT"]
    plain = []
    for st in ents:
        g = [(ff.norm(e, subst=False), p) for e, p in ff.facts_at(st)]
        curtis = any("curtis_hack" in t and p for t, p in g)
        if not curtis:
            plain.append(st)
    chk.floor("R2", len(plain), 1, "standard mapping-word store")
    for st in plain:
        terms = sorted(ff.norm(t, subst=False) for t in or_terms(st.value))
        chk.check(terms == sorted(["var.index << 16", "var.subindex << 8", "var.length"]), "R2", f"{B}:PdoMap.save | mapping word", save.loc(st),
                  f"mapping entry is {' | '.join(terms)}; CiA 301: index << 16 | subindex << 8 | length")
    read = repo.func(B, "PdoMap.read", "C09.R2")
    fr = ff_for(chk, read, "C09.R2")
    wv = [n.targets[0].id for n in own_nodes(read.node) if isinstance(n, ast.Assign) and isinstance(n.targets[0], ast.Name) and isinstance(n.value, ast.Call)
          and dotted(n.value.func) == "_raw_from" and "map_array" in src(n.value) and any(isinstance(l, ast.For) and any(x is n for x in ast.walk(l)) for l in own_nodes(read.node))]
    wv = wv[0] if wv else "value"          # the local holding the mapping word, whatever it is called
    want = {"index": [f"{wv} >> 16"], "subindex": [f"{wv} >> 8 & 255", f"({wv} >> 8) & 255"], "size": [f"{wv} & 127", f"{wv} & 255"]}
    for nm, forms in want.items():
        sts = [n for n in own_nodes(read.node) if isinstance(n, ast.Assign) and isinstance(n.targets[0], ast.Name) and n.targets[0].id == nm]
        plain_r = [s for s in sts if not any("curtis_hack" in src(e) and p for e, p in fr.facts_at(s))]
        chk.floor("R2", len(plain_r), 1, f"decode of mapping field {nm} in read")
        for s in plain_r:
            got = fr.norm(s.value, subst=False)
            chk.check(fr.is_form(s.value, *forms), "R2", f"{B}:PdoMap.read | mapping field {nm}", read.loc(s),
                      f"{nm} decoded as {got}; save() encodes index<<16 | sub<<8 | length")
    from . import shared as _sh
    _sh.cob_id_fields(chk, "R2")

    from . import shared
    shared.read_mapping_loop(chk, "R2")
    shared.mapping_length_exact(chk, "R2")
    shared.fill_map_complete(chk, "R1")

    # ------------------------------------------------------------------ R3 sub-index agreement
    save_pairs, read_pairs = {}, {}
    for n, e in events.items():
        if e.startswith("COM") and e[3:].isdigit():
            v = src(n.ast.value)
            if v.startswith("self."):
                save_pairs[v[5:]] = int(e[3:])
    assigns_in_order = sorted([n for n in own_nodes(read.node) if isinstance(n, ast.Assign)], key=lambda n: (n.lineno, n.col_offset))
    for s in assigns_in_order:
        t = dotted(s.targets[0])
        val = s.value
        if t and t.startswith("self.") and isinstance(val, ast.Name):
            # the value travels through a local (`value = _raw_from(...)` in the try body, the store in its else clause): the nearest
            # definition of that local above the store
            prev = [d for d in assigns_in_order if isinstance(d.targets[0], ast.Name) and d.targets[0].id == val.id and (d.lineno, d.col_offset) < (s.lineno, s.col_offset)]
            if prev:
                val = prev[-1].value
        if t and t.startswith("self.") and isinstance(val, ast.Call) and dotted(val.func) == "_raw_from" and val.args:
            a = val.args[0]
            if isinstance(a, ast.Subscript) and dotted(a.value) == "self.com_record":
                k = folder.try_fold(a.slice, fsc, None)
                read_pairs[t[5:]] = k
    want_pairs = {k: v for k, v in O.PDO_SUBS.items() if k != "cob_id"}
    chk.check(save_pairs == want_pairs, "R3", f"{B}:PdoMap.save | attribute/sub-index pairs", save.loc(),
              f"save writes {save_pairs}; CiA 301 communication record: {want_pairs}")
    chk.check(read_pairs == want_pairs, "R3", f"{B}:PdoMap.read | attribute/sub-index pairs", read.loc(),
              f"read fills {read_pairs}; CiA 301 communication record: {want_pairs}")
    # each optional attribute is written only when it is set
    for n, e in events.items():
        if e.startswith("COM") and e[3:].isdigit():
            v = src(n.ast.value)
            g = [src(x) for x, p in ff.facts_at(n.ast) if p]
            chk.check(f"{v} is not None" in g, "R3", f"{B}:PdoMap.save | {v} only when set", save.loc(n.ast), f"written under {g}")
            # ... and whenever it is set: another condition in force at the write (the transmission type, a derived property, a
            # flag) leaves the device with the value it had before for the configurations that condition excludes
            allg = [(src(x), p) for x, p in ff.facts_at(n.ast)]
            other = [(t, p) for t, p in allg if v not in t and "self.enabled" not in t and "self.cob_id" not in t]
            chk.check(not other, "R3", f"{B}:PdoMap.save | {v} written whenever it is set", save.loc(n.ast),
                      f"`{src(n.ast)[:50]}` also depends on {other}: for a configuration where that does not hold the device keeps its old value, the read-back differs from what was configured")

    # the PDO is re-validated only when every write before it went through: no write to the communication or mapping record sits in a
    # `finally:` or `except` block (a half-written mapping would be switched on)
    for tr in [x for x in ast.walk(save.node) if isinstance(x, ast.Try)]:
        for blk, what in [(tr.finalbody, "finally")] + [(h.body, "except") for h in tr.handlers]:
            for x in [y for b_ in blk for y in ast.walk(b_)]:
                if isinstance(x, ast.Assign) and any(isinstance(t, ast.Attribute) and t.attr == "raw" and ("com_record" in src(t) or "map_array" in src(t)) for t in x.targets):
                    chk.bad("R1", f"{B}:PdoMap.save | `{src(x.targets[0])}` written on the normal path only", save.loc(x),
                            f"`{src(x)[:60]}` is in a `{what}:` block: it also runs when an earlier write was aborted or timed out, so the device is re-enabled (and the node subscribes) "
                            f"with a mapping that was only partly written")
    # ------------------------------------------------------------------ R4 subscribe
    shared.pdo_subscribe(chk, "R4")
    wit = must_pass(fr.cfg, lambda n: n.kind == "stmt" and isinstance(n.ast, ast.Expr) and isinstance(n.ast.value, ast.Call)
                    and dotted(n.ast.value.func) == "self.subscribe")
    chk.check(wit is None, "R4", f"{B}:PdoMap.read | ends in subscribe()", read.loc(), f"a normal path of read() does not subscribe: {path_text(wit) if wit else ''}")
    # subscribe in read comes after `enabled` and `cob_id` are set
    for s in attr_stores(read.node, "enabled") + attr_stores(read.node, "cob_id"):
        for n in fr.cfg.nodes:
            if n.kind == "stmt" and isinstance(n.ast, ast.Expr) and isinstance(n.ast.value, ast.Call) and dotted(n.ast.value.func) == "self.subscribe":
                chk.check(fr.cfg.dominates(fr.cfg.node_of(s), n), "R4", f"{B}:PdoMap.read | {src(s.targets[0])} before subscribe", read.loc(s),
                          "subscribe() can run before the flag/id was decoded")

    # ------------------------------------------------------------------ R5 optional entries
    for attr in ("inhibit_time", "event_timer", "sync_start_value"):
        for s in attr_stores(read.node, attr):
            g = [fr.norm(e, subst=False) for e, p in fr.facts_at(s) if p]
            chk.check("self.trans_type >= 254" in g or "self.trans_type > 253" in g, "R5", f"{B}:PdoMap.read | {attr} for event-driven types", read.loc(s),
                      f"{attr} read under {g}; expected transmission types >= 254")

    # ------------------------------------------------------------------ R6 predefined COB-IDs
    pm = repo.func(B, "PdoMaps.__init__", "C09.R6")
    fp = ff_for(chk, pm, "C09.R6")
    sts = [n for n in own_nodes(pm.node) if isinstance(n, ast.Assign) and src(n.targets[0]).endswith(".predefined_cob_id")]
    chk.floor("R6", len(sts), 1, "predefined_cob_id store")
    for s in sts:
        terms = sorted(fp.norm(t, subst=False) for t in _add_terms(s.value))
        g = [fp.norm(e, subst=False) for e, p in fp.facts_at(s) if p]
        chk.check(terms == sorted(["cob_base", "256 * map_no", "pdo_node.node.id"]) or terms == sorted(["cob_base", "map_no * 256", "pdo_node.node.id"]),
                  "R6", f"{B}:PdoMaps.__init__ | formula", pm.loc(s), f"predefined COB-ID = {' + '.join(terms)}; expected base + 0x100*n + node id")
        chk.check("map_no < 4" in g or "map_no <= 3" in g, "R6", f"{B}:PdoMaps.__init__ | first four only", pm.loc(s), f"assigned under {g}")
    # all 512 PDOs of a direction are looked for: the ranges the constructor iterates or filters by, with the offsets bound, cover
    # communication records com_offset .. com_offset + 511 (map numbers 0 .. 511)
    from .common import substitute_src
    spans = []
    for c in [x for x in ast.walk(pm.node) if isinstance(x, ast.Call) and dotted(x.func) == "range"]:
        r_ = folder.try_fold(substitute_src(c, {"com_offset": 0x1400, "map_offset": 0x1600}), Scope(pm.mod, pm.cls), None)
        if isinstance(r_, range) and len(r_) > 4:
            spans.append((c, r_))
    if not spans:
        chk.unk("R6", f"{B}:PdoMaps.__init__ | all 512 PDOs", pm.loc(), "no range over the PDO numbers found")
    for c, r_ in spans:
        full = (r_.step == 1 and len(r_) == 512 and r_.start in (0, 1, 0x1400, 0x1600))
        chk.check(full, "R6", f"{B}:PdoMaps.__init__ | all 512 PDOs", pm.loc(c),
                  f"`{src(c)}` covers {len(r_)} values ({r_.start:#x}..{(r_[-1] if len(r_) else r_.start):#x}); a direction has 512 communication records, PDO 512 "
                  f"(index offset 0x1FF) included")
    key_st = [n for n in own_nodes(pm.node) if isinstance(n, ast.Assign) and src(n.targets[0]).startswith("self.maps[")]
    for s in key_st:
        chk.check(src(s.targets[0]) == "self.maps[map_no + 1]", "R6", f"{B}:PdoMaps.__init__ | PDO numbering", pm.loc(s), f"{src(s.targets[0])}")
    pim = repo.mod(PI, "C09.R6")
    for cname, want_args in (("RPDO", [0x1400, 0x1600, O.RPDO_BASE]), ("TPDO", [0x1800, 0x1A00, O.TPDO_BASE])):
        ini = repo.func(PI, f"{cname}.__init__", "C09.R6")
        chk.saw(ini)
        cs = [c for c in ast.walk(ini.node) if isinstance(c, ast.Call) and dotted(c.func) == "PdoMaps"]
        chk.floor("R6", len(cs), 1, f"PdoMaps(...) in {cname}")
        for c in cs:
            got = [folder.try_fold(a, Scope(pim), None) for a in c.args]
            got = [got[0], got[1], got[3] if len(got) > 3 else None]
            chk.check(got == want_args, "R6", f"{PI}:{cname}.__init__ | offsets and base", ini.loc(c),
                      f"PdoMaps({[hex(x) if isinstance(x, int) else x for x in got]}); expected {[hex(x) for x in want_args]}")

    # ------------------------------------------------------------------ R7 load_configuration
    lc = repo.func(RN, "RemoteNode.load_configuration", "C09.R7")
    fl = ff_for(chk, lc, "C09.R7")
    reads = [c for c in find_calls(lc.node, ".read") if dotted(c.func) == "self.pdo.read"]
    saves = [c for c in find_calls(lc.node, ".save") if dotted(c.func) == "self.pdo.save"]
    chk.check(len(reads) == 1 and len(saves) == 1, "R7", f"{RN}:RemoteNode.load_configuration | read+save", lc.loc(), "expected one pdo.read and one pdo.save")
    if len(reads) == 1 and len(saves) == 1:
        kw = {k.arg: folder.try_fold(k.value, Scope(lc.mod), None) for k in reads[0].keywords}
        pos = [folder.try_fold(a, Scope(lc.mod), None) for a in reads[0].args]
        chk.check(kw.get("from_od") is True or pos[:1] == [True], "R7", f"{RN}:RemoteNode.load_configuration | from_od", lc.loc(reads[0]),
                  "the PDO configuration is not taken from the object dictionary")
        a, b = fl.cfg.node_of(fl.stmt_of(reads[0])), fl.cfg.node_of(fl.stmt_of(saves[0]))
        chk.check(fl.cfg.dominates(a, b), "R7", f"{RN}:RemoteNode.load_configuration | read before save", lc.loc(), "save() can run before read()")
        loops = [n for n in fl.cfg.nodes if n.kind == "for"]
        for lp in loops[:1]:
            chk.check(fl.cfg.dominates(b, lp), "R7", f"{RN}:RemoteNode.load_configuration | PDO first", lc.loc(), "generic loop can run before the PDO save")
    conts = [n for n in own_nodes(lc.node) if isinstance(n, ast.Continue)]
    ok = False
    for c in conts:
        g = [fl.norm(e, subst=False) for e, p in fl.facts_at(c) if p]
        if "5120 <= obj.index" in " ".join(g) or "obj.index >= 5120" in g:
            if "obj.index < 7168" in g or "obj.index <= 7167" in g:
                ok = True
    chk.check(ok, "R7", f"{RN}:RemoteNode.load_configuration | skips PDO objects", lc.loc(), "objects 0x1400-0x1BFF are not skipped by the generic loop")

    # ------------------------------------------------------------------ R8 value source
    rf = repo.func(B, "read._raw_from", "C09.R8") if repo.try_func(B, "read._raw_from") else None
    if rf is None:
        # nested function of the method: find it
        inner = [n for n in ast.walk(read.node) if isinstance(n, ast.FunctionDef) and n.name == "_raw_from"]
        if not inner:
            chk.unk("R8", f"{B}:PdoMap.read._raw_from", read.loc(), "helper _raw_from not found")
            return
        from ..loader import Func
        rf = Func(name="_raw_from", qualname="PdoMap.read._raw_from", node=inner[0], mod=mod, cls=save.cls, kind="nested")
    fq = ff_for(chk, rf, "C09.R8")
    rets = [n for n in own_nodes(rf.node) if isinstance(n, ast.Return) and n.value is not None]
    seen = {}
    for r in rets:
        v = src(r.value)
        g = [(fq.norm(e, subst=False), p) for e, p in fq.facts_at(r)]
        seen[v] = g
        if any(isinstance(x, ast.BoolOp) for x in ast.walk(r.value)):
            chk.bad("R8", f"{B}:PdoMap.read._raw_from | {v}", rf.loc(r), f"`{v}` selects the source by truthiness: a dictionary value of 0 is replaced by the default")
    if "param.od.value" in seen:
        g = seen["param.od.value"]
        chk.check(("param.od.value is not None", True) in g and ("from_od", True) in g, "R8", f"{B}:PdoMap.read._raw_from | value when set", rf.loc(),
                  f"param.od.value returned under {g}; expected `from_od and value is not None`")
    elif not any(isinstance(x, ast.BoolOp) for r in rets for x in ast.walk(r.value)):
        chk.unk("R8", f"{B}:PdoMap.read._raw_from | value source", rf.loc(), f"returns {list(seen)}")
    if "param.od.default" in seen:
        g = seen["param.od.default"]
        chk.check(("param.od.value is None", True) in g and ("from_od", True) in g, "R8", f"{B}:PdoMap.read._raw_from | default otherwise", rf.loc(),
                  f"param.od.default returned under {g}")
    if "param.raw" in seen:
        chk.check(("from_od", False) in seen["param.raw"], "R8", f"{B}:PdoMap.read._raw_from | SDO when not from_od", rf.loc(), f"param.raw under {seen['param.raw']}")

    # ------------------------------------------------------------------ R11 ODVariable.__len__ per data type (mapping entries carry len(od) as bit length by default; shared with C04.R5)
    from . import c04 as _c04len
    _c04len.bit_length_by_type(chk, "R11")
    # ------------------------------------------------------------------ R10 instances are independent (shared clause)
    from . import shared as _shared
    _shared.isolation(chk, "R10", rels=['canopen/pdo/base.py', 'canopen/pdo/__init__.py', 'canopen/node/remote.py'])


def _add_terms(e):
    if isinstance(e, ast.BinOp) and isinstance(e.op, ast.Add):
        return _add_terms(e.left) + _add_terms(e.right)
    return [e]
