"""Helpers shared by the rule modules."""
from __future__ import annotations

import ast
import copy
from typing import Dict, List, Optional, Tuple

from ..cfg import CFG
from ..facts import AttrWrites, FuncFacts
from ..fold import AbsentAttribute, Folder, RecordVal, Scope, Unfoldable, dotted, src
from ..loader import AnalysisError, Func, Repo

def ctx(chk):
    """(repo, folder) shared per run (stored on the repo object: no global state survives a run)."""
    repo = chk.repo
    if not hasattr(repo, "_verif_folder"):
        repo._verif_folder = Folder(repo)
        repo._verif_ff = {}
    return repo, repo._verif_folder


def ff_for(chk, func: Func, rule: str) -> FuncFacts:
    repo, folder = ctx(chk)
    cache = repo._verif_ff
    if func.key not in cache:
        cache[func.key] = FuncFacts(repo, folder, func, rule)
    chk.saw(func)
    if func.key not in getattr(chk, "_cfg_counted", set()):
        chk._cfg_counted = getattr(chk, "_cfg_counted", set()) | {func.key}
        chk.saw_cfg(cache[func.key].cfg)
    return cache[func.key]


class _Subst(ast.NodeTransformer):
    def __init__(self, mapping: Dict[str, ast.expr]):
        self.mapping = mapping

    def visit_Name(self, node):
        if node.id in self.mapping:
            return copy.deepcopy(self.mapping[node.id])
        return node

    def visit_Attribute(self, node):
        d = dotted(node)
        if d in self.mapping:
            return copy.deepcopy(self.mapping[d])
        self.generic_visit(node)
        return node


def substitute(e: ast.expr, mapping: Dict[str, ast.expr]) -> ast.expr:
    out = _Subst(mapping).visit(copy.deepcopy(e))
    ast.fix_missing_locations(out)
    return out


def const_map(env: Dict[str, int]) -> Dict[str, ast.expr]:
    return {k: ast.Constant(value=v) for k, v in env.items()}


def always_exits(stmts: List[ast.stmt]) -> bool:
    """Every path through the block ends in raise/return/continue/break."""
    if not stmts:
        return False
    last = stmts[-1]
    if isinstance(last, (ast.Raise, ast.Return, ast.Continue, ast.Break)):
        return True
    if isinstance(last, ast.If):
        return bool(last.orelse) and always_exits(last.body) and always_exits(last.orelse)
    return False


def always_raises(stmts: List[ast.stmt]) -> bool:
    if not stmts:
        return False
    last = stmts[-1]
    if isinstance(last, ast.Raise):
        return True
    if isinstance(last, ast.If):
        return bool(last.orelse) and always_raises(last.body) and always_raises(last.orelse)
    return False


def handler_always_raises(h: ast.ExceptHandler) -> bool:
    return always_raises(h.body)


def resolve_callee(repo: Repo, func: Func, call: ast.Call) -> Optional[Func]:
    d = dotted(call.func)
    if d is None:
        return None
    if "." not in d:
        if d in func.mod.funcs:
            return func.mod.funcs[d]
        imp = func.mod.imports.get(d)
        if imp and imp[0] == "sym" and imp[1] in repo.modules:
            return repo.modules[imp[1]].funcs.get(imp[2])
        return None
    head, _, meth = d.rpartition(".")
    if func.cls is not None and head in ("self", "cls"):
        return repo.method(func.cls, meth)
    if func.cls is not None and head == "super()":
        for b in repo.mro(func.cls)[1:]:
            if meth in b.methods:
                return b.methods[meth]
    if func.cls is not None and head == func.cls.name:
        return repo.method(func.cls, meth)
    return None


def exit_facts_of_call(repo: Repo, folder: Folder, caller: Func, call: ast.Call) -> List[Tuple[ast.expr, bool]]:
    """Facts that hold when `call` returns normally: the callee's must-facts at its exit, parameters replaced
    by the actual arguments (one level of inlining for guard helpers)."""
    callee = resolve_callee(repo, caller, call)
    if callee is None:
        return []
    try:
        cf = FuncFacts(repo, folder, callee, "inline")
        IN = cf.facts_in()
    except AnalysisError:
        return []
    ex = IN.get(cf.cfg.exit)
    if not ex:
        return []
    params = callee.params
    if callee.cls is not None and callee.kind != "static" and params and params[0] in ("self", "cls"):
        params = params[1:]
    mapping: Dict[str, ast.expr] = {}
    for p, a in zip(params, call.args):
        if isinstance(a, ast.Starred):
            return []
        mapping[p] = a
    for kw in call.keywords:
        if kw.arg:
            mapping[kw.arg] = kw.value
    # defaults for parameters not passed
    a = callee.node.args
    pos = a.posonlyargs + a.args
    for p, dflt in zip(reversed(pos), reversed(a.defaults)):
        mapping.setdefault(p.arg, dflt)
    out = []
    for key, pol in ex:
        e = cf._fact_ast[key]
        free = {n.id for n in ast.walk(e) if isinstance(n, ast.Name)}
        if not free <= set(mapping) | {"self"} | set(dir(__builtins__)) | {"len", "min", "max", "int"}:
            # mentions a local of the callee: substitute its single definition if possible
            e = cf.norm_ast(e)
        out.append((substitute(e, mapping), pol))
    return out


def facts_with_calls(ff: FuncFacts, at: ast.AST, repo: Repo, folder: Folder) -> List[Tuple[ast.expr, bool]]:
    """Must-facts at `at`, plus the exit facts of guard-helper calls that dominate it."""
    facts = list(ff.facts_at(at))
    nodes = ff.cfg.nodes_of(at)
    if not nodes:
        return facts
    doms = ff.cfg.dominators().get(nodes[0], set())
    for n in doms:
        if n.kind != "stmt" or n is nodes[0]:
            continue
        st = n.ast
        call = None
        if isinstance(st, ast.Expr) and isinstance(st.value, ast.Call):
            call = st.value
        if call is None:
            continue
        facts += exit_facts_of_call(repo, folder, ff.func, call)
    return facts


def range_constraints(ff: FuncFacts, at: ast.AST, subject: str, attr_env: Dict[str, int], repo: Repo,
                      folder: Folder) -> Tuple[Optional[int], Optional[int]]:
    """Inclusive [lo, hi] that the facts at `at` impose on the expression whose source is `subject`, with the
    attributes in attr_env replaced by constants.  None = unbounded on that side."""
    lo = hi = None
    mapping = const_map(attr_env)
    sc = ff.scope
    for e, pol in facts_with_calls(ff, at, repo, folder):
        if not pol or not isinstance(e, ast.Compare) or len(e.ops) != 1:
            continue
        e = ff.norm_ast(e) if False else e
        l, r, op = e.left, e.comparators[0], type(e.ops[0])
        ls, rs = src(_resolve(ff, l)), src(_resolve(ff, r))
        if ls == subject:
            other, left = r, True
        elif rs == subject:
            other, left = l, False
        else:
            continue
        other = substitute(_resolve(ff, other), mapping)
        try:
            b = folder.fold(other, sc)
        except Unfoldable:
            continue
        if not isinstance(b, int):
            continue
        if not left:
            op = {ast.Lt: ast.Gt, ast.Gt: ast.Lt, ast.LtE: ast.GtE, ast.GtE: ast.LtE}.get(op, op)
        if op is ast.Lt:
            hi = b - 1 if hi is None else min(hi, b - 1)
        elif op is ast.LtE:
            hi = b if hi is None else min(hi, b)
        elif op is ast.Gt:
            lo = b + 1 if lo is None else max(lo, b + 1)
        elif op is ast.GtE:
            lo = b if lo is None else max(lo, b)
        elif op is ast.Eq:
            lo = b if lo is None else max(lo, b)
            hi = b if hi is None else min(hi, b)
    return lo, hi


def _resolve(ff: FuncFacts, e: ast.expr) -> ast.expr:
    """Replace single-definition locals by their definitions (no folding)."""
    defs = ff.single_defs()
    mapping = {k: v for k, v in defs.items()}
    for _ in range(4):
        new = substitute(e, mapping)
        if ast.dump(new) == ast.dump(e):
            break
        e = new
    return e


def stmts_in_order(fn: ast.FunctionDef) -> List[ast.stmt]:
    out = []

    def rec(body):
        for st in body:
            out.append(st)
            for fld in ("body", "orelse", "finalbody"):
                sub = getattr(st, fld, None)
                if isinstance(sub, list) and sub and isinstance(sub[0], ast.stmt):
                    rec(sub)
            for h in getattr(st, "handlers", []) or []:
                rec(h.body)
    rec(fn.body)
    return out


def find_calls(node: ast.AST, suffix: str) -> List[ast.Call]:
    """Calls whose dotted callee ends with `suffix` (e.g. '.request_response' or 'struct.pack_into')."""
    out = []
    for c in ast.walk(node):
        if isinstance(c, ast.Call):
            d = dotted(c.func) or src(c.func)
            if d and (d == suffix or d.endswith(suffix if suffix.startswith(".") else "." + suffix)):
                out.append(c)
    return out


def own_nodes(fn: ast.FunctionDef):
    """ast.walk that does not descend into nested function definitions or lambdas."""
    stack = list(ast.iter_child_nodes(fn))[::-1]
    while stack:
        n = stack.pop()
        yield n                 # source order (pre-order), so that stable sorts by line keep the order of statements sharing a line
        if isinstance(n, (ast.FunctionDef, ast.AsyncFunctionDef, ast.Lambda, ast.ClassDef)):
            continue
        stack.extend(list(ast.iter_child_nodes(n))[::-1])


# ------------------------------------------------------------------------------------------------
# structural helpers

def parent_map(fn: ast.AST) -> Dict[int, ast.AST]:
    pm = {}
    for n in ast.walk(fn):
        for c in ast.iter_child_nodes(n):
            pm[id(c)] = n
    return pm


def enclosing(fn: ast.AST, node: ast.AST, kinds) -> List[ast.AST]:
    pm = parent_map(fn)
    out = []
    cur = pm.get(id(node))
    while cur is not None:
        if isinstance(cur, kinds):
            out.append(cur)
        cur = pm.get(id(cur))
    return out


def inside_with(fn: ast.AST, node: ast.AST, ctx_src: str) -> bool:
    for w in enclosing(fn, node, (ast.With,)):
        for it in w.items:
            if src(it.context_expr) == ctx_src:
                return True
    return False


def attr_stores(fn: ast.AST, attr: str) -> List[ast.stmt]:
    """Statements that assign self.<attr> (Assign/AugAssign/AnnAssign)."""
    out = []
    for n in own_nodes(fn):
        if isinstance(n, ast.Assign):
            for t in n.targets:
                for e in (t.elts if isinstance(t, (ast.Tuple, ast.List)) else [t]):
                    if dotted(e) == f"self.{attr}":
                        out.append(n)
        elif isinstance(n, (ast.AugAssign, ast.AnnAssign)) and dotted(n.target) == f"self.{attr}":
            out.append(n)
    return out


def must_pass(cfg: CFG, is_event, from_node=None, to_nodes=None, skip_exc=True, skip_edge=None) -> Optional[List]:
    """None if every path from `from_node` (default entry) to a node of `to_nodes` (default normal exit)
    passes through a node for which is_event() holds; otherwise a witness path (list of nodes)."""
    start = from_node or cfg.entry
    targets = set(to_nodes) if to_nodes is not None else {cfg.exit}
    prev = {start: None}
    stack = [start]
    while stack:
        n = stack.pop()
        if n in targets and n is not start:
            path = []
            cur = n
            while cur is not None:
                path.append(cur)
                cur = prev[cur]
            return list(reversed(path))
        for s, lab in n.succs:
            if skip_exc and lab == "exc":
                continue
            if skip_edge is not None and skip_edge(n, lab):
                continue
            if s in prev:
                continue
            if is_event(s):
                continue
            prev[s] = n
            stack.append(s)
    return None


def node_calls(node, suffix: str) -> bool:
    """CFG node contains a call whose dotted name ends with suffix."""
    a = node.ast
    if a is None or node.kind == "handler":
        return False
    probe = a
    if node.kind == "for":
        probe = a.iter
    elif node.kind == "with":
        probe = ast.Tuple(elts=[i.context_expr for i in a.items], ctx=ast.Load())
    return bool(find_calls(probe, suffix))


def path_text(path) -> str:
    return " -> ".join(f"{n.kind}@{n.lineno}" for n in path if n.kind not in ("entry",))


class ReachingDefs:
    """Reaching definitions for local names and dotted attributes within one function (subscript stores count as
    definitions of their base)."""

    def __init__(self, cfg: CFG):
        from ..cfg import forward
        from ..facts import assigned_targets
        self.cfg = cfg
        self.defsites: Dict[int, ast.AST] = {}

        def transfer(n, st):
            a = n.ast
            if a is None:
                return st
            if n.kind == "test":
                tg = set()
                for x in ast.walk(a):
                    if isinstance(x, ast.NamedExpr) and isinstance(x.target, ast.Name):
                        tg.add(x.target.id)
            elif isinstance(a, (ast.stmt, ast.ExceptHandler)):
                tg = assigned_targets(a)
            else:
                tg = set()
            if not tg:
                return st
            d = dict(st)
            self.defsites[n.id] = a
            for t in tg:
                d[t] = frozenset({n.id})
            return frozenset(d.items())

        def join(a, b):
            da, db = dict(a), dict(b)
            out = {}
            for k in set(da) | set(db):
                out[k] = da.get(k, frozenset({-1})) | db.get(k, frozenset({-1}))
            return frozenset(out.items())

        self.IN, self.OUT = forward(cfg, frozenset(), transfer, join)

    def defs_at(self, node, name: str) -> List[Optional[ast.AST]]:
        """Definition statements of `name` reaching entry of CFG node (None = parameter/initial value)."""
        st = self.IN.get(node)
        if st is None:
            return []
        ids = dict(st).get(name, frozenset({-1}))
        return [self.defsites.get(i) if i >= 0 else None for i in sorted(ids)]
def or_terms(e: ast.expr) -> List[ast.expr]:
    if isinstance(e, ast.BinOp) and isinstance(e.op, ast.BitOr):
        return or_terms(e.left) + or_terms(e.right)
    return [e]


def subscript_target(t: ast.expr):
    """For `self.X[k].raw` return ('X', k_expr) else None."""
    if isinstance(t, ast.Attribute) and t.attr == "raw" and isinstance(t.value, ast.Subscript):
        base = dotted(t.value.value)
        if base and base.startswith("self."):
            return base[5:], t.value.slice
    return None


def expand_or_terms(ff, e: ast.expr, depth: int = 0) -> List[ast.expr]:
    """OR-terms of `e`, looking through locals that are assigned exactly once."""
    out = []
    for t in or_terms(e):
        if isinstance(t, ast.Name) and depth < 4:
            d = ff.one_def(t.id)
            if d is not None:
                out += expand_or_terms(ff, d, depth + 1)
                continue
        out.append(t)
    return out


class _SubstSrc(ast.NodeTransformer):
    """Replace every sub-expression whose source text equals a key."""

    def __init__(self, mapping: Dict[str, ast.expr]):
        self.mapping = mapping

    def visit(self, node):
        if isinstance(node, ast.expr):
            try:
                t = ast.unparse(node)
            except Exception:  # noqa
                t = None
            if t in self.mapping:
                return copy.deepcopy(self.mapping[t])
        return super().visit(node)


def substitute_src(e: ast.expr, mapping: Dict[str, object]) -> ast.expr:
    m = {k: (v if isinstance(v, ast.AST) else ast.Constant(value=v)) for k, v in mapping.items()}
    out = _SubstSrc(m).visit(copy.deepcopy(e))
    ast.fix_missing_locations(out)
    return out


def conj_of_facts(facts: List[Tuple[ast.expr, bool]]) -> ast.expr:
    vals = []
    for e, p in facts:
        vals.append(copy.deepcopy(e) if p else ast.UnaryOp(op=ast.Not(), operand=copy.deepcopy(e)))
    if not vals:
        return ast.Constant(value=True)
    if len(vals) == 1:
        return vals[0]
    return ast.BoolOp(op=ast.And(), values=vals)


def inline_property(repo: Repo, cls_rel: str, cls_name: str, prop: str, recv: str) -> Optional[ast.expr]:
    """Body expression of a one-line property `return <expr>` with `self` replaced by `recv`."""
    try:
        f = repo.func(cls_rel, f"{cls_name}.{prop}")
    except AnalysisError:
        return None
    body = [s for s in f.node.body if not (isinstance(s, ast.Expr) and isinstance(s.value, ast.Constant))]
    if len(body) != 1 or not isinstance(body[0], ast.Return) or body[0].value is None:
        return None
    return substitute(body[0].value, {"self": ast.parse(recv, mode="eval").body})


class CalleeRaised(Unfoldable):
    """A function specialised inside an expression ended in `raise`: the exception is the expression's outcome."""

    def __init__(self, exc_name):
        super().__init__(f"callee raises {exc_name}")
        self.exc_name = exc_name


def partial_eval(folder: Folder, func_node: ast.FunctionDef, mod, cls, env: Dict[str, object], local_funcs: Optional[Dict[str, ast.FunctionDef]] = None,
                 depth: int = 0, effects=None, free: Optional[Dict[str, object]] = None):
    """Specialise a small pure function for concrete arguments by folding: ('return', value) | ('raise', name) |
    ('unknown', why).  Handles if/elif/else, assignments to names, return, raise and calls of sibling local functions.
    This is constant folding with bound parameters over the function's own syntax -- nothing of the repository runs."""
    # effects = (set of dotted callee names, list): a statement-level call of one of them is recorded as (name, folded args) in the
    # list, in program order; statement-level calls of local functions are specialised in turn (their effects go to the same
    # list).  free = bindings visible in every specialised function (closure variables of nested functions).  Reading an
    # attribute a probe object (fold.RecordVal) does not have ends the run with ('raise', 'AttributeError').
    if depth > 6:
        return ("unknown", "recursion")
    env = {**(free or {}), **env}
    local_funcs = local_funcs or {}

    class _Inline(ast.NodeTransformer):
        def visit_Call(self, node):
            self.generic_visit(node)
            if isinstance(node.func, ast.Name) and node.func.id in local_funcs and not node.keywords:
                callee = local_funcs[node.func.id]
                sc_ = Scope(mod, cls, dict(env))
                try:
                    args = [folder.fold(a, sc_) for a in node.args]
                except Unfoldable:
                    return node
                params = [a.arg for a in callee.args.args]
                r = partial_eval(folder, callee, mod, cls, dict(zip(params, args)), local_funcs, depth + 1, effects, free)
                if r[0] == "raise":
                    raise CalleeRaised(r[1])
                if r[0] == "return" and isinstance(r[1], (int, str, bool, float, type(None), bytes)):
                    return ast.Constant(value=r[1])
            return node

    def fold(e):
        e2 = _Inline().visit(copy.deepcopy(e))
        ast.fix_missing_locations(e2)
        return folder.fold(e2, Scope(mod, cls, env))

    def run(stmts):
        for st in stmts:
            if isinstance(st, ast.Expr) and isinstance(st.value, ast.Constant):
                continue
            if isinstance(st, ast.Expr) and isinstance(st.value, ast.Call) and effects is not None:
                c_ = st.value
                nm_ = dotted(c_.func) or ""
                if nm_.split(".")[0] in ("logger", "log", "logging", "warnings"):
                    continue
                if nm_ in effects[0] and not c_.keywords:
                    try:
                        effects[1].append((nm_, tuple(fold(a) for a in c_.args)))
                    except CalleeRaised as e_:
                        return ("raise", e_.exc_name)
                    except AbsentAttribute:
                        return ("raise", "AttributeError")
                    except Unfoldable as e:
                        return ("unknown", f"`{src(st)[:60]}`: {e}")
                    continue
                if isinstance(c_.func, ast.Name) and c_.func.id in local_funcs and not c_.keywords:
                    callee = local_funcs[c_.func.id]
                    try:
                        args = [fold(a) for a in c_.args]
                    except CalleeRaised as e_:
                        return ("raise", e_.exc_name)
                    except AbsentAttribute:
                        return ("raise", "AttributeError")
                    except Unfoldable as e:
                        return ("unknown", f"`{src(st)[:60]}`: {e}")
                    r = partial_eval(folder, callee, mod, cls, dict(zip([a.arg for a in callee.args.args], args)), local_funcs, depth + 1, effects, free)
                    if r[0] != "return":
                        return r
                    continue
            if isinstance(st, ast.If):
                try:
                    t = fold(st.test)
                except CalleeRaised as e_:
                    return ("raise", e_.exc_name)
                except AbsentAttribute:
                    return ("raise", "AttributeError")
                except Unfoldable as e:
                    return ("unknown", f"test `{src(st.test)}`: {e}")
                r = run(st.body if t else st.orelse)
                if r is not None:
                    return r
            elif isinstance(st, ast.Return):
                if st.value is None:
                    return ("return", None)
                try:
                    return ("return", fold(st.value))
                except CalleeRaised as e_:
                    return ("raise", e_.exc_name)
                except AbsentAttribute:
                    return ("raise", "AttributeError")
                except Unfoldable as e:
                    if "invalid literal" in str(e) or "could not convert" in str(e):
                        return ("raise", "ValueError")
                    return ("unknown", f"return `{src(st.value)}`: {e}")
                except KeyError as e:
                    return ("raise", "KeyError")
            elif isinstance(st, ast.Raise):
                f_ = st.exc.func if isinstance(st.exc, ast.Call) else st.exc
                return ("raise", dotted(f_) if f_ is not None else "reraise")
            elif isinstance(st, ast.Assign) and len(st.targets) == 1 and isinstance(st.targets[0], ast.Name):
                try:
                    env[st.targets[0].id] = fold(st.value)
                except CalleeRaised as e_:
                    return ("raise", e_.exc_name)
                except AbsentAttribute:
                    return ("raise", "AttributeError")
                except Unfoldable as e:
                    return ("unknown", f"`{src(st)}`: {e}")
            elif isinstance(st, ast.For) and not st.orelse:
                # a loop over a table that folds to a concrete sequence (at most 256 items): run it on the folded items
                try:
                    seq = fold(st.iter)
                except Unfoldable as e:
                    return ("unknown", f"loop over `{src(st.iter)}`: {e}")
                if isinstance(seq, dict):
                    seq = list(seq)
                if not isinstance(seq, (list, tuple)) or len(seq) > 256:
                    return ("unknown", f"loop over `{src(st.iter)}`")
                stop = False
                for item in seq:
                    if isinstance(st.target, ast.Name):
                        env[st.target.id] = item
                    elif isinstance(st.target, ast.Tuple) and all(isinstance(e_, ast.Name) for e_ in st.target.elts) and isinstance(item, (tuple, list)) and len(item) == len(st.target.elts):
                        for e_, v_ in zip(st.target.elts, item):
                            env[e_.id] = v_
                    else:
                        return ("unknown", f"loop target `{src(st.target)}`")
                    if any(isinstance(x, (ast.Break, ast.Continue)) for b_ in st.body for x in ast.walk(b_)):
                        return ("unknown", "break/continue in a loop")
                    r = run(st.body)
                    if r is not None:
                        return r
            elif isinstance(st, ast.AugAssign) and isinstance(st.target, ast.Name):
                try:
                    env[st.target.id] = fold(ast.BinOp(left=ast.Name(id=st.target.id, ctx=ast.Load()), op=st.op, right=st.value))
                except Unfoldable as e:
                    return ("unknown", f"`{src(st)}`: {e}")
            elif isinstance(st, ast.Try):
                r = run(st.body)
                if r is not None and r[0] == "raise":
                    for h in st.handlers:
                        names = [dotted(x) for x in (h.type.elts if isinstance(h.type, ast.Tuple) else [h.type])] if h.type is not None else [r[1]]
                        if r[1] in names or "Exception" in names:
                            r = run(h.body)
                            break
                if r is not None:
                    return r
            elif isinstance(st, ast.Pass):
                continue
            else:
                return ("unknown", f"statement `{src(st)[:40]}`")
        return None
    r = run(func_node.body)
    return r if r is not None else ("return", None)


class RuleProxy:
    """Record the results of another property's rule module under one rule id of this property (used where a property's
    statement contains another property's clause, e.g. C03 contains the codec of C04)."""

    def __init__(self, chk, rule: str):
        self._chk, self._rule = chk, rule

    def __getattr__(self, name):
        return getattr(self._chk, name)

    def _r(self, rule):
        return f"{self._rule}/{rule}"

    def ok(self, rule, *a, **k):
        return self._chk.ok(self._r(rule), *a, **k)

    def bad(self, rule, *a, **k):
        return self._chk.bad(self._r(rule), *a, **k)

    def unk(self, rule, *a, **k):
        return self._chk.unk(self._r(rule), *a, **k)

    def check(self, cond, rule, *a, **k):
        return self._chk.check(cond, self._r(rule), *a, **k)

    def floor(self, rule, *a, **k):
        return self._chk.floor(self._r(rule), *a, **k)

    def fixture(self, rule, *a, **k):
        return self._chk.fixture(self._r(rule), *a, **k)


def observational_attrs(repo) -> Set[str]:
    """See effects.observational_attrs_of: attribute names of the package that nothing reads except to report them."""
    cached = getattr(repo, "_observational_attrs", None)
    if cached is None:
        from ..effects import observational_attrs_of
        cached = observational_attrs_of([m.tree for m in repo.modules.values()])
        repo._observational_attrs = cached
    return cached


_OBS_PURE_CALLS = {"time.time", "time.monotonic", "time.perf_counter", "len", "max", "min", "int", "float", "bytes", "str", "bool", "abs", "sum", "tuple", "round"}


_OBS_PURE_METHODS = {"qsize", "empty", "full", "count", "keys", "values", "items", "copy", "bit_length", "total_seconds", "hex"}


def is_observational_stmt(repo, st: ast.stmt) -> bool:
    """A statement that only reports: a logging call, or a store / in-place update of attributes of self that nothing in the package
    reads (observational_attrs) with a value built from pure operations."""
    if isinstance(st, ast.Expr) and isinstance(st.value, ast.Call) and (dotted(st.value.func) or "").split(".")[0] in ("logger", "log", "logging"):
        return True
    if isinstance(st, (ast.Assign, ast.AugAssign, ast.AnnAssign)):
        tg = st.targets if isinstance(st, ast.Assign) else [st.target]
        obs = observational_attrs(repo)
        if not all(isinstance(t, ast.Attribute) and isinstance(t.value, ast.Name) and t.value.id == "self" and t.attr in obs for t in tg):
            return False
        v = st.value
        if v is None:
            return True
        return all((dotted(c.func) or "") in _OBS_PURE_CALLS or (isinstance(c.func, ast.Attribute) and c.func.attr in _OBS_PURE_METHODS) for c in ast.walk(v) if isinstance(c, ast.Call)) \
            and not any(isinstance(x, (ast.Yield, ast.YieldFrom, ast.Await, ast.NamedExpr, ast.Lambda)) for x in ast.walk(v))
    return False


def only_rejects(stmts, cls=None, depth: int = 0) -> bool:
    """A block that changes nothing and either falls through or raises: pass, logging, raise, ifs/asserts made of those, and calls
    of methods of the same class whose bodies are such blocks (argument validation moved into a helper)."""
    for st in stmts:
        if isinstance(st, (ast.Pass, ast.Raise, ast.Assert)):
            continue
        if isinstance(st, ast.Expr) and isinstance(st.value, ast.Constant):
            continue
        if isinstance(st, ast.Expr) and isinstance(st.value, ast.Call):
            d = dotted(st.value.func) or ""
            if d.split(".")[0] in ("logger", "log", "logging", "warnings"):
                continue
            if cls is not None and depth < 2 and d.startswith("self.") and d.count(".") == 1 and d[5:] in cls.methods \
                    and only_rejects(cls.methods[d[5:]].node.body, cls, depth + 1):
                continue
            return False
        if isinstance(st, ast.If):
            if any(isinstance(x, (ast.NamedExpr, ast.Await, ast.Yield)) for x in ast.walk(st.test)):
                return False
            if only_rejects(st.body, cls, depth) and only_rejects(st.orelse, cls, depth):
                continue
            return False
        return False
    return True


def reject_probes(chk, rule: str, f, probes, what: str, free=None):
    """Argument validation must not reject what the property says is legal: the function is specialised (constant folding over its
    own statements, nothing runs) for each probe -- a dict of parameter values at the ends of the legal range -- and a probe that
    ends in `raise` is a violation.  A probe that cannot be specialised up to the first effect gives no verdict (the validation, if
    any, sits behind something the folder cannot evaluate)."""
    repo, folder = ctx(chk)
    n_dec = 0
    bad = None
    for env in probes:
        e2 = dict(env)
        r = partial_eval(folder, f.node, f.mod, f.cls, e2, None, 0, None, free)
        if r[0] == "raise":
            bad = bad or (env, r[1])
        if r[0] in ("raise", "return"):
            n_dec += 1
    desc = ", ".join(f"{k}={v!r}" if not isinstance(v, int) or isinstance(v, bool) else f"{k}={v:#x}" for k, v in (bad[0].items() if bad else []))
    chk.check(bad is None, rule, f"{f.key} | {what} accepted", f.loc(),
              f"for {desc} the function raises {bad[1] if bad else ''} before doing anything: a legal value at the end of the range is rejected",
              f"specialised for {len(probes)} boundary probes ({n_dec} decided)")


def guarded_raise_probes(chk, rule: str, f, ff, var: str, values, what: str, only_fresh_of=None):
    """No `raise` of the function is reached for a legal value of `var`: for every raise statement the conditions in force that
    speak about `var` alone (and constants) are evaluated for each legal value; if they all hold for one, that value is refused.
    Facts that mention anything else are left out (they can only make the raise rarer), so the verdict errs toward reporting only
    when the conditions about `var` are the only ones, i.e. a validation of `var`."""
    repo, folder = ctx(chk)
    sc = Scope(f.mod, f.cls)
    n_r = 0
    for r in [n for n in own_nodes(f.node) if isinstance(n, ast.Raise)]:
        facts = ff.facts_at(r)
        mine, other = [], []
        for e, p in facts:
            names = {x.id for x in ast.walk(e) if isinstance(x, ast.Name)}
            free = {nm for nm in names if nm != var and folder.try_fold(ast.Name(id=nm, ctx=ast.Load()), sc, _NOVAL) is _NOVAL and nm not in ("range", "int", "len", "isinstance", "str", "float", "bool")}
            (other if free or var not in names else mine).append((e, p))
        if not mine or other:
            continue
        n_r += 1
        g = conj_of_facts(mine)
        for v in values:
            val = folder.try_fold(substitute_src(g, {var: v}), sc, _NOVAL)
            if val is not _NOVAL and val:
                chk.bad(rule, f"{f.key} | {what} accepted", f.loc(r),
                        f"`{src(r)[:70]}` is reached for {var} = {v!r} (conditions {[(src(e), p) for e, p in mine]}): a legal value is refused")
                return
    chk.ok(rule, f"{f.key} | {what} accepted", f.loc(), f"{n_r} validations of {var} evaluated at {list(values)}")


_NOVAL = object()


def guarded_raise_envs(chk, rule: str, f, ff, envs, what: str):
    """Like guarded_raise_probes for several quantities at once: `envs` is a list of {source text: value} bindings describing legal
    situations (e.g. {'self._blksize': 10, 'ackseq': 10, 'blksize': 4}).  A raise is reached in a legal situation when every
    condition in force that can be evaluated under the binding holds, at least one of them mentions a bound quantity, and every
    condition that cannot be evaluated is the failed guard of an earlier rejection (the situation passed that validation)."""
    repo, folder = ctx(chk)
    sc = Scope(f.mod, f.cls)
    from ..canon import negate
    exits = set()
    for n in own_nodes(f.node):
        if isinstance(n, ast.If) and always_exits(n.body):
            exits.add(ff.norm(n.test, subst=False))
            # a chained / conjunctive guard is recorded by the facts as its parts
            t_ = negate(copy.deepcopy(n.test))
            for part in (t_.values if isinstance(t_, ast.BoolOp) and isinstance(t_.op, ast.And) else [t_]):
                exits.add(ff.norm(negate(copy.deepcopy(part)), subst=False))
    n_r = 0
    for r in [n for n in own_nodes(f.node) if isinstance(n, ast.Raise)]:
        facts = ff.facts_at(r)
        for env in envs:
            ok, mentions = True, False
            for e, p in facts:
                val = folder.try_fold(substitute_src(e, env), sc, _NOVAL)
                if val is _NOVAL:
                    # the condition that would have held in the rejecting branch
                    rej = ff.norm(e, subst=False) if not p else ff.norm(negate(copy.deepcopy(e)), subst=False)
                    if rej not in exits:
                        ok = False
                        break
                    continue
                if any(k in src(e) for k in env):
                    mentions = True
                if bool(val) != p:
                    ok = False
                    break
            if ok and mentions:
                chk.bad(rule, f"{f.key} | {what} accepted", f.loc(r),
                        f"`{src(r)[:70]}` is reached for {env} (conditions {[(src(e), p) for e, p in facts]}): a legal situation is refused")
                return
        n_r += 1
    chk.ok(rule, f"{f.key} | {what} accepted", f.loc(), f"{n_r} raise statements evaluated for {len(envs)} legal situations")
