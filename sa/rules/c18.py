"""C18 -- LSS requests, responses and the fast-scan procedure."""
from __future__ import annotations

import ast
import struct as _struct

from .. import oracles as O
from ..fold import Scope, Unfoldable, dotted, src
from ..frames import Unrecognised, frame_at
from .common import (always_exits, attr_stores, ctx, ff_for, find_calls, must_pass, node_calls, own_nodes, path_text)

L = "canopen/lss.py"
NET = "canopen/network.py"

# repository constant name -> CiA 305 service role (slot values: the names are the repository's, the numbers the standard's)
CS_NAMES = {
    "CS_SWITCH_STATE_GLOBAL": "switch_state_global", "CS_CONFIGURE_NODE_ID": "configure_node_id",
    "CS_CONFIGURE_BIT_TIMING": "configure_bit_timing", "CS_ACTIVATE_BIT_TIMING": "activate_bit_timing",
    "CS_STORE_CONFIGURATION": "store_configuration", "CS_SWITCH_STATE_SELECTIVE_VENDOR_ID": "switch_selective_vendor",
    "CS_SWITCH_STATE_SELECTIVE_PRODUCT_CODE": "switch_selective_product",
    "CS_SWITCH_STATE_SELECTIVE_REVISION_NUMBER": "switch_selective_revision",
    "CS_SWITCH_STATE_SELECTIVE_SERIAL_NUMBER": "switch_selective_serial",
    "CS_SWITCH_STATE_SELECTIVE_RESPONSE": "switch_selective_response",
    "CS_IDENTIFY_REMOTE_SLAVE_VENDOR_ID": "identify_remote_vendor", "CS_IDENTIFY_REMOTE_SLAVE_PRODUCT_CODE": "identify_remote_product",
    "CS_IDENTIFY_REMOTE_SLAVE_REVISION_NUMBER_LOW": "identify_remote_rev_low",
    "CS_IDENTIFY_REMOTE_SLAVE_REVISION_NUMBER_HIGH": "identify_remote_rev_high",
    "CS_IDENTIFY_REMOTE_SLAVE_SERIAL_NUMBER_LOW": "identify_remote_serial_low",
    "CS_IDENTIFY_REMOTE_SLAVE_SERIAL_NUMBER_HIGH": "identify_remote_serial_high",
    "CS_IDENTIFY_NON_CONFIGURED_REMOTE_SLAVE": "identify_non_configured_remote", "CS_IDENTIFY_SLAVE": "identify_slave",
    "CS_IDENTIFY_NON_CONFIGURED_SLAVE": "identify_non_configured_slave", "CS_FAST_SCAN": "fast_scan",
    "CS_INQUIRE_VENDOR_ID": "inquire_vendor", "CS_INQUIRE_PRODUCT_CODE": "inquire_product",
    "CS_INQUIRE_REVISION_NUMBER": "inquire_revision", "CS_INQUIRE_SERIAL_NUMBER": "inquire_serial", "CS_INQUIRE_NODE_ID": "inquire_node_id",
}
# builder -> (byte 0 expression, {offset/slice: expected value})
BUILDERS = {
    "send_switch_state_global": ("CS_SWITCH_STATE_GLOBAL", {(1, 2): "mode"}),
    "activate_bit_timing": ("CS_ACTIVATE_BIT_TIMING", {(1, 3): ("<H", ["switch_delay_ms"])}),
    "send_identify_non_configured_remote_slave": ("CS_IDENTIFY_NON_CONFIGURED_REMOTE_SLAVE", {}),
    "__send_fast_scan_message": (None, {(0, 8): ("<BIBBB", ["CS_FAST_SCAN", "id_number", "bit_checker", "lss_sub", "lss_next"])}),
    "__send_lss_address": ("req_cs", {(1, 5): ("<I", ["number"])}),
    "__send_inquire_node_id": ("CS_INQUIRE_NODE_ID", {}),
    "__send_inquire_lss_address": ("req_cs", {}),
    "__send_configure": ("req_cs", {(1, 2): "value1", (2, 3): "value2"}),
}

EXPLANATION = (
    "R1 eight request builders: the frame handed to __send_command is bytearray(8), byte 0 is the service's command "
    "specifier, every other store writes exactly calcsize(fmt) bytes of a little-endian pack of the builder's own "
    "parameters (unmodified) at the offset CiA 305 defines; R2 all multi-byte formats are little-endian; R3 the 25 CS "
    "constants equal CiA 305 and each public service passes the right specifier and arguments; R4 one send site on "
    "LSS_TX_COBID = 0x7E5, responses received on 0x7E4 (subscribed in Network.__init__) and queued as bytes copies, "
    "stale responses flushed before sending; R5 configure/inquire: specifier mismatch and non-zero error code raise "
    "LssError before the normal exit, silence raises LssError; R6 ListMessageNeedResponse equals the set of confirmed "
    "services; fast scan: probe order and constants (bit check 128 first, bits 31..0, LSSNext = (sub + 1) mod 4 "
    "evaluated for sub = 0..3, bit set exactly when unanswered, success returns the four accumulated words); R7 structural assumptions shared by all properties: no class-level mutable object is mutated in place by instances, no method re-runs the constructor, logging statements cannot raise (typed eager formatting, divisions), no mutable default argument is kept or mutated, no new truth-value test of a None-able number, a look-up memory the pinned tree does not have is keyed by all its inputs (arithmetic keys folded over a grid of addresses) and, on the serving side, emptied somewhere."
    ' R4 also: every LSS response specifier of CiA 305 passes any early exit of on_message_received.'
    ' R3 also: the delegating methods do not re-bind their parameters.'
    ' R3 also: every call of a delegating service reaches its request (no early return of a remembered answer, no range check in front of it).'
)
ASSUMPTIONS = [
    "not decided: the 128-bit search result against a slave model, timing (sleep) requirements of slaves",
]


def run(chk):
    repo, folder = ctx(chk)
    mod = repo.mod(L, "C18")
    sc = Scope(mod)
    cls = repo.cls(L, "LssMaster", "C18")
    # ------------------------------------------------------------------ R3 constants
    n = 0
    for name, role in CS_NAMES.items():
        if name not in mod.consts:
            chk.bad("R3", f"{L}:{name}", L, "command specifier constant missing")
            continue
        v = folder.try_fold(mod.consts[name], sc, None)
        n += 1
        chk.check(v == O.LSS_CS[role], "R3", f"{L}:{name}", f"{L}:{mod.consts[name].lineno}", f"{name} = {v!r}; CiA 305 {role}: 0x{O.LSS_CS[role]:02X}")
    chk.floor("R3", n, 25, "LSS command specifier constants")
    tx = folder.try_fold(cls.consts.get("LSS_TX_COBID", ast.Constant(None)), sc, None)
    rx = folder.try_fold(cls.consts.get("LSS_RX_COBID", ast.Constant(None)), sc, None)
    chk.check(tx == O.LSS_TX and rx == O.LSS_RX, "R4", f"{L}:LssMaster COB-IDs", f"{L}:{cls.node.lineno}", f"TX {tx!r} RX {rx!r}; CiA 305: 0x7E5 / 0x7E4")

    # ------------------------------------------------------------------ R1/R2 builders
    nb = 0
    for name, (b0, fields) in BUILDERS.items():
        f = repo.func(L, f"LssMaster.{name}", "C18.R1")
        ff = ff_for(chk, f, "C18.R1")
        calls = find_calls(f.node, "self.__send_command")
        chk.check(len(calls) == 1, "R1", f"{L}:LssMaster.{name} | one request per call", f.loc(), f"{len(calls)} __send_command calls")
        for c in calls:
            nb += 1
            stmt = ff.stmt_of(c)
            site = f"{L}:LssMaster.{name}"
            try:
                fr = frame_at(ff, c.args[0], stmt)
            except Unrecognised as e:
                chk.unk("R1", site, f.loc(stmt), str(e))
                continue
            whole_pack = fr.origin == "pack" and fr.length == 8 and not fr.stores and bool(fr.parts) and all(isinstance(p_[0], str) and p_[0] == fr.parts[0][0] for p_ in fr.parts)
            chk.check(fr.length == 8 and (fr.origin == "bytearray" or whole_pack), "R1", f"{site} | 8 zero-initialised bytes", f.loc(stmt), f"frame is {fr.origin} of {fr.length} bytes")
            seen = {}
            if whole_pack:
                # the frame is one struct.pack of all 8 bytes: the same as zeroed bytes with one store over [0, 8)
                fmt = fr.parts[0][0]
                chk.check(isinstance(fmt, str) and fmt.startswith("<"), "R2", f"{site} | little-endian [0, 8)", f.loc(stmt), f"format {fmt!r}")
                seen[(0, 8)] = (fmt, [src(a) for _f, a in fr.parts])
            for st in fr.stores:
                if st.lo is None or st.hi is None:
                    chk.unk("R1", f"{site} | store `{src(st.stmt)[:40]}`", f.loc(st.stmt), "store position is not constant")
                    continue
                v = st.value
                if isinstance(v, ast.Call) and (dotted(v.func) or "") == "struct.pack":
                    fmt = folder.try_fold(v.args[0], sc, None)
                    vals = [src(a) for a in v.args[1:]]
                    ok_w = isinstance(fmt, str) and _struct.calcsize(fmt) == st.hi - st.lo
                    chk.check(ok_w, "R1", f"{site} | width of bytes [{st.lo}, {st.hi})", f.loc(st.stmt),
                              f"`{src(st.stmt)}` stores {_struct.calcsize(fmt) if isinstance(fmt, str) else '?'} bytes into a slice of {st.hi - st.lo}: the frame is resized")
                    chk.check(isinstance(fmt, str) and fmt.startswith("<"), "R2", f"{site} | little-endian [{st.lo}, {st.hi})", f.loc(st.stmt), f"format {fmt!r}")
                    seen[(st.lo, st.hi)] = (fmt, vals)
                else:
                    chk.check(st.hi - st.lo == 1, "R1", f"{site} | byte store [{st.lo}]", f.loc(st.stmt), f"`{src(st.stmt)}` is not a single-byte store")
                    vv = v
                    # `x & 0xFF` stores the same byte as `x` for every value a byte store accepts (0..255)
                    if isinstance(vv, ast.BinOp) and isinstance(vv.op, ast.BitAnd):
                        for a_, b_ in ((vv.left, vv.right), (vv.right, vv.left)):
                            if folder.try_fold(b_, sc, None) == 0xFF:
                                vv = a_
                    seen[(st.lo, st.hi)] = src(vv)
                chk.check(st.hi <= 8, "R1", f"{site} | store inside the frame", f.loc(st.stmt), f"bytes [{st.lo}, {st.hi}) exceed 8")
            if b0 is not None:
                chk.check(seen.get((0, 1)) == b0, "R3", f"{site} | command specifier", f.loc(stmt), f"byte 0 is {seen.get((0, 1))!r}; expected {b0}")
                seen.pop((0, 1), None)
            chk.check(seen == fields, "R1", f"{site} | parameter fields", f.loc(stmt),
                      f"frame fields {seen}; CiA 305 layout of this request: {fields} (parameters must reach the frame unmodified)")
    chk.floor("R1", nb, 8, "LSS request builders")

    # ------------------------------------------------------------------ R3 public services pass the right specifier
    want_calls = {
        "send_switch_state_selective": [("__send_lss_address", ["CS_SWITCH_STATE_SELECTIVE_VENDOR_ID", "vendorId"]),
                                        ("__send_lss_address", ["CS_SWITCH_STATE_SELECTIVE_PRODUCT_CODE", "productCode"]),
                                        ("__send_lss_address", ["CS_SWITCH_STATE_SELECTIVE_REVISION_NUMBER", "revisionNumber"]),
                                        ("__send_lss_address", ["CS_SWITCH_STATE_SELECTIVE_SERIAL_NUMBER", "serialNumber"])],
        "send_identify_remote_slave": [("__send_lss_address", ["CS_IDENTIFY_REMOTE_SLAVE_VENDOR_ID", "vendorId"]),
                                       ("__send_lss_address", ["CS_IDENTIFY_REMOTE_SLAVE_PRODUCT_CODE", "productCode"]),
                                       ("__send_lss_address", ["CS_IDENTIFY_REMOTE_SLAVE_REVISION_NUMBER_LOW", "revisionNumberLow"]),
                                       ("__send_lss_address", ["CS_IDENTIFY_REMOTE_SLAVE_REVISION_NUMBER_HIGH", "revisionNumberHigh"]),
                                       ("__send_lss_address", ["CS_IDENTIFY_REMOTE_SLAVE_SERIAL_NUMBER_LOW", "serialNumberLow"]),
                                       ("__send_lss_address", ["CS_IDENTIFY_REMOTE_SLAVE_SERIAL_NUMBER_HIGH", "serialNumberHigh"])],
        "configure_node_id": [("__send_configure", ["CS_CONFIGURE_NODE_ID", "new_node_id"])],
        "configure_bit_timing": [("__send_configure", ["CS_CONFIGURE_BIT_TIMING", "0", "new_bit_timing"])],
        "store_configuration": [("__send_configure", ["CS_STORE_CONFIGURATION"])],
        "inquire_node_id": [("__send_inquire_node_id", [])],
        "inquire_lss_address": [("__send_inquire_lss_address", ["req_cs"])],
        "send_switch_mode_global": [("send_switch_state_global", ["mode"])],
    }
    for name, exp in want_calls.items():
        f = repo.func(L, f"LssMaster.{name}", "C18.R3")
        chk.saw(f)
        got = []
        for c in sorted([x for x in ast.walk(f.node) if isinstance(x, ast.Call) and (dotted(x.func) or "").startswith("self.")], key=lambda x: (x.lineno, x.col_offset)):
            got.append((dotted(c.func)[5:], [src(a) for a in c.args]))
        chk.check(got == exp, "R3", f"{L}:LssMaster.{name} | specifier and arguments", f.loc(), f"calls {got}; expected {exp}")
        # every call of the service puts its request on the bus: no exit (a remembered answer, a range check of a value the slave is
        # entitled to judge itself) lies in front of the delegate call
        if exp:
            first = min((c.lineno for c in ast.walk(f.node) if isinstance(c, ast.Call) and (dotted(c.func) or "") == "self." + exp[0][0]), default=None)
            for x in own_nodes(f.node):
                if isinstance(x, (ast.Return, ast.Raise)) and first is not None and x.lineno < first:
                    if isinstance(x, ast.Return) and isinstance(x.value, ast.Attribute) and dotted(x.value.value) == "self":
                        # a remembered answer matters only if something remembers one (a store outside the constructor)
                        cls_ = repo.cls(L, "LssMaster", "C18.R3")
                        if not any(isinstance(n_, (ast.Assign, ast.AugAssign)) and any(dotted(t_) == src(x.value) for t_ in (n_.targets if isinstance(n_, ast.Assign) else [n_.target]))
                                   for mn_, m_ in cls_.methods.items() if mn_ != "__init__" for n_ in ast.walk(m_.node)):
                            continue
                    what = "returns" if isinstance(x, ast.Return) else "raises"
                    chk.bad("R3", f"{L}:LssMaster.{name} | the request is sent on every call", f.loc(x),
                            f"`{src(x)[:60]}` {what} before {exp[0][0]}() is reached: for some arguments / histories no request frame is sent and the answer does not come from the "
                            f"slave that is selected now (CiA 305 lets the slave judge the value: node id 255 un-configures, 0 and 128..254 are answered with an error code)")
        # what is handed on is what the caller gave: the parameters are not re-bound on the way
        from ..facts import assigned_targets
        for st_ in own_nodes(f.node):
            if isinstance(st_, (ast.Assign, ast.AugAssign, ast.AnnAssign)):
                hit = sorted(set(f.params[1:]) & assigned_targets(st_))
                chk.check(not hit, "R3", f"{L}:LssMaster.{name} | arguments reach the request unchanged", f.loc(st_),
                          f"`{src(st_)[:70]}` replaces {', '.join(hit)} before the request is built: the frame carries another value than the one asked for")
    sel = repo.func(L, "LssMaster.send_switch_state_selective", "C18.R3")
    fsel = ff_for(chk, sel, "C18.R3")
    rets = [n_ for n_ in own_nodes(sel.node) if isinstance(n_, ast.Return)]
    true_rets = [r for r in rets if folder.try_fold(r.value, sc, None) is True]
    ok = len(true_rets) == 1 and _spec_fact(fsel, true_rets[0], "response", "CS_SWITCH_STATE_SELECTIVE_RESPONSE")
    chk.check(ok, "R3", f"{L}:LssMaster.send_switch_state_selective | confirmed by 0x44", sel.loc(), "True is not returned exactly for the selective-switch response specifier")

    # ------------------------------------------------------------------ R4 send site, reception
    sc_f = repo.func(L, "LssMaster.__send_command", "C18.R4")
    fsc = ff_for(chk, sc_f, "C18.R4")
    sends = find_calls(sc_f.node, ".send_message")
    chk.check(len(sends) == 1 and [src(a) for a in sends[0].args] == ["self.LSS_TX_COBID", "message"], "R4", f"{L}:LssMaster.__send_command | send site", sc_f.loc(), f"{[src(c) for c in sends]}")
    n_send = 0
    for m in cls.methods.values():
        n_send += len(find_calls(m.node, ".send_message"))
    chk.check(n_send == 1, "R4", f"{L}:LssMaster | single send site", f"{L}:{cls.node.lineno}", f"{n_send} send_message calls in LssMaster")
    snd_nodes = [n_ for n_ in fsc.cfg.nodes if node_calls(n_, ".send_message")]
    wit = must_pass(fsc.cfg, lambda n_: n_ in snd_nodes)
    chk.check(wit is None, "R4", f"{L}:LssMaster.__send_command | every request is sent", sc_f.loc(), f"{path_text(wit) if wit else ''}")
    flush_t = [n_ for n_ in fsc.cfg.nodes if n_.kind == "test" and fsc.is_form(n_.ast, "not self.responses.empty()")]
    flush_s = [n_ for n_ in fsc.cfg.nodes if n_.kind == "stmt" and isinstance(n_.ast, ast.Assign) and dotted(n_.ast.targets[0]) == "self.responses" and src(n_.ast.value) == "queue.Queue()"]
    chk.check(bool(flush_t) and bool(flush_s) and all(fsc.cfg.dominates(t, s_) for t in flush_t for s_ in snd_nodes) and not any(fl in fsc.cfg.reach_from(s_) for fl in flush_s for s_ in snd_nodes),
              "R4", f"{L}:LssMaster.__send_command | stale responses flushed before sending", sc_f.loc(), "a stale response would be taken as the answer")
    omr = repo.func(L, "LssMaster.on_message_received", "C18.R4")
    chk.saw(omr)
    puts = find_calls(omr.node, "self.responses.put")
    chk.check(len(puts) == 1 and [src(a) for a in puts[0].args] == ["bytes(data)"], "R4", f"{L}:LssMaster.on_message_received | queues a copy", omr.loc(), f"{[src(c) for c in puts]}")
    # every response a slave may send (CiA 305: the confirmed services answer with their own specifier, selective switch with 0x44,
    # fast scan with 0x4F) is queued: no early exit of on_message_received is taken for such a frame
    fomr = ff_for(chk, omr, "C18.R4")
    legal_cs = sorted({0x11, 0x13, 0x17, O.LSS_CS["switch_selective_response"], O.LSS_CS["identify_slave"], 0x5A, 0x5B, 0x5C, 0x5D, 0x5E})
    from .common import conj_of_facts
    dropped = None
    for r_ in [n for n in own_nodes(omr.node) if isinstance(n, ast.Return)]:
        g_ = conj_of_facts(fomr.facts_at(r_))
        for cs_ in legal_cs:
            v_ = folder.try_fold(g_, Scope(omr.mod, omr.cls, {omr.params[1]: O.LSS_RX, omr.params[2]: bytes([cs_, 0, 0, 0, 0, 0, 0, 0]), omr.params[3]: 0.0}), None)
            if v_:
                dropped = dropped or (r_, cs_)
    chk.check(dropped is None, "R4", f"{L}:LssMaster.on_message_received | every LSS response is queued", omr.loc(dropped[0]) if dropped else omr.loc(),
              f"a response with command specifier {dropped[1]:#04x} leaves through `{src(dropped[0])}` without being queued: the request it answers times out with "
              f"'No LSS response received'" if dropped else "", f"early exits evaluated for specifiers {[hex(c) for c in legal_cs]}")
    ni = repo.func(NET, "Network.__init__", "C18.R4")
    chk.saw(ni)
    subs = [c for c in find_calls(ni.node, "self.subscribe") if [src(a) for a in c.args] == ["self.lss.LSS_RX_COBID", "self.lss.on_message_received"]]
    chk.check(len(subs) == 1, "R4", f"{NET}:Network.__init__ | LSS responses subscribed", ni.loc(), "no subscribe(lss.LSS_RX_COBID, lss.on_message_received)")

    # ------------------------------------------------------------------ R5 response checks
    # silence
    eh = [h for h in own_nodes(sc_f.node) if isinstance(h, ast.ExceptHandler) and "Empty" in src(h.type or ast.Constant(None))]
    chk.check(bool(eh) and all(always_exits(h.body) and any(isinstance(x, ast.Raise) and "LssError" in src(x) for x in ast.walk(h)) for h in eh), "R5",
              f"{L}:LssMaster.__send_command | silence raises LssError", sc_f.loc(), "a missing response does not raise LssError")
    gets = [c for c in find_calls(sc_f.node, "self.responses.get")]
    for c in gets:
        kw = {k.arg: src(k.value) for k in c.keywords}
        chk.check(kw.get("timeout") == "self.RESPONSE_TIMEOUT", "R5", f"{L}:LssMaster.__send_command | bounded wait", sc_f.loc(c), src(c))
        g = [(fsc.norm(e, subst=False), p) for e, p in fsc.facts_at(fsc.stmt_of(c))]
    early = [r for r in own_nodes(sc_f.node) if isinstance(r, ast.Return)]
    for r in early:
        g = [(fsc.norm(e, subst=False), p) for e, p in fsc.facts_at(r)]
        v = r.value
        vd = fsc.raw_def_at(v.id, r) if isinstance(v, ast.Name) else None
        if isinstance(v, ast.Name) and vd is not None and isinstance(vd, ast.Call) and dotted(vd.func) == "self.responses.get":
            chk.ok("R5", f"{L}:LssMaster.__send_command | returns the queued response", sc_f.loc(r), src(vd))
            continue
        if isinstance(v, ast.Name) and vd is None:
            chk.bad("R5", f"{L}:LssMaster.__send_command | `return {v.id}`", sc_f.loc(r), f"`{v.id}` is not uniquely defined here (neither None nor the queued response)")
            continue
        if isinstance(v, ast.Name) and folder.try_fold(vd, sc, 1) is None or (isinstance(v, ast.Constant) and v.value is None) or v is None:
            ok = any((not p and t in (fsc.canon("bool(message[0] in ListMessageNeedResponse)"), fsc.canon("message[0] in ListMessageNeedResponse")))
                     or (p and t == fsc.canon("message[0] not in ListMessageNeedResponse")) for t, p in g)
            chk.check(ok, "R5", f"{L}:LssMaster.__send_command | no answer awaited only for unconfirmed services", sc_f.loc(r), f"returns without a response under {g}")
    # a confirmed service always waits for the answer: every normal path either takes the "unconfirmed" edge or reads the queue
    get_nodes = [n_ for n_ in fsc.cfg.nodes if node_calls(n_, "self.responses.get")]
    chk.floor("R5", len(get_nodes), 1, "responses.get in __send_command")

    def unconfirmed_edge(n_, lab):
        if n_.kind != "test":
            return False
        t = fsc.norm(n_.ast, subst=False)
        pos = (fsc.canon("bool(message[0] in ListMessageNeedResponse)"), fsc.canon("message[0] in ListMessageNeedResponse"))
        neg = (fsc.canon("message[0] not in ListMessageNeedResponse"), fsc.canon("not bool(message[0] in ListMessageNeedResponse)"), fsc.canon("not message[0] in ListMessageNeedResponse"))
        return (t in pos and lab == "F") or (t in neg and lab == "T")
    wit = must_pass(fsc.cfg, lambda n_: n_ in get_nodes, skip_edge=unconfirmed_edge)
    chk.check(wit is None, "R5", f"{L}:LssMaster.__send_command | a confirmed service waits for its answer", sc_f.loc(),
              f"a path for a service in ListMessageNeedResponse returns without reading the response queue: {path_text(wit) if wit else ''}")
    for name, cs_expect, fmt_expect, ret in (("__send_inquire_node_id", "CS_INQUIRE_NODE_ID", "<BB", "current_node_id"),
                                             ("__send_inquire_lss_address", "req_cs", "<BI", "part_of_address"),
                                             ("__send_configure", "req_cs", "<BB", None)):
        f = repo.func(L, f"LssMaster.{name}", "C18.R5")
        ff = ff_for(chk, f, "C18.R5")
        unp = [n_ for n_ in own_nodes(f.node) if isinstance(n_, ast.Assign) and isinstance(n_.value, ast.Call) and (dotted(n_.value.func) or "").endswith("unpack_from")]
        ok = len(unp) == 1 and folder.try_fold(unp[0].value.args[0], sc, None) == fmt_expect and src(unp[0].value.args[1]) == "response" and len(unp[0].value.args) == 2
        chk.check(ok, "R5", f"{L}:LssMaster.{name} | response decoded {fmt_expect}", f.loc(), f"{[src(u) for u in unp]}")
        if not ok:
            continue
        names = [src(e) for e in unp[0].targets[0].elts]
        tests = [n_ for n_ in ff.cfg.nodes if n_.kind == "test" and ff.is_form(n_.ast, f"{names[0]} != {cs_expect}")]
        good = [t for t in tests if getattr(t, "owner", None) is not None and always_exits(t.owner.body) and any(isinstance(x, ast.Raise) and "LssError" in src(x) for s_ in t.owner.body for x in ast.walk(s_))]
        chk.check(bool(good), "R5", f"{L}:LssMaster.{name} | wrong specifier raises LssError", f.loc(), f"no `if {names[0]} != {cs_expect}: raise LssError`")
        wit = must_pass(ff.cfg, lambda n_: n_ in good)
        chk.check(wit is None and bool(good), "R5", f"{L}:LssMaster.{name} | specifier checked on every normal path", f.loc(), f"{path_text(wit) if wit else ''}")
        if ret is not None:
            rets_ = [r for r in own_nodes(f.node) if isinstance(r, ast.Return) and r.value is not None]
            chk.check(len(rets_) == 1 and src(rets_[0].value) == names[1], "R5", f"{L}:LssMaster.{name} | returns the slave's answer", f.loc(), f"{[src(r) for r in rets_]}")
        else:
            et = [n_ for n_ in ff.cfg.nodes if n_.kind == "test" and ff.is_form(n_.ast, f"{names[1]} != ERROR_NONE", f"{names[1]} != 0", f"{names[1]}")]
            goode = [t for t in et if getattr(t, "owner", None) is not None and always_exits(t.owner.body) and any(isinstance(x, ast.Raise) and "LssError" in src(x) for s_ in t.owner.body for x in ast.walk(s_))]
            wit = must_pass(ff.cfg, lambda n_: n_ in goode)
            chk.check(bool(goode) and wit is None, "R5", f"{L}:LssMaster.{name} | error code raises LssError", f.loc(), "a non-zero error code does not raise LssError on every path")

    # ------------------------------------------------------------------ R6 confirmed services
    lst = folder.try_fold(mod.consts.get("ListMessageNeedResponse", ast.Constant(None)), sc, None)
    chk.check(lst is not None and set(lst) == O.LSS_CONFIRMED, "R6", f"{L}:ListMessageNeedResponse", L,
              f"confirmed services {sorted(hex(x) for x in (lst or []))}; builders that read a response need {sorted(hex(x) for x in O.LSS_CONFIRMED)}")
    chk.analysed_tables.append("ListMessageNeedResponse")
    _fast_scan(chk, repo, folder, sc)

    # ------------------------------------------------------------------ R7 instances are independent (shared clause)
    from . import shared as _shared
    _shared.isolation(chk, "R7", rels=['canopen/lss.py'])


def _spec_fact(ff, at, buf: str, const: str) -> bool:
    """A fact `<byte 0 of buf> == const` holds at `at` (byte 0 read directly or through a local)."""
    forms = {f"struct.unpack_from('<B', {buf})[0]", f"struct.unpack_from('B', {buf})[0]", f"{buf}[0]"}
    for e, p in ff.facts_at(at):
        if not p or not isinstance(e, ast.Compare) or not isinstance(e.ops[0], ast.Eq):
            continue
        sides = [e.left, e.comparators[0]]
        for a, b in (sides, sides[::-1]):
            if ff.norm(b, subst=False) != ff.canon(const):
                continue
            x = a
            if isinstance(x, ast.Name) and ff.one_def(x.id) is not None:
                x = ff.one_def(x.id)
            if src(x) in forms:
                return True
    return False


def _fast_scan(chk, repo, folder, sc):
    f = repo.func(L, "LssMaster.fast_scan", "C18.R6")
    ff = ff_for(chk, f, "C18.R6")
    calls = sorted(find_calls(f.node, "self.__send_fast_scan_message"), key=lambda c: c.lineno)
    chk.floor("R6", len(calls), 3, "fast-scan probes")
    # the values in force at the first probe: the straight-line assignments that precede it (literals or names, whichever)
    init = {}
    first_stmt = ff.stmt_of(calls[0]) if calls else None
    for n in f.node.body:
        if first_stmt is not None and any(x is calls[0] for x in ast.walk(n)):
            break
        if isinstance(n, ast.Assign) and isinstance(n.targets[0], ast.Name):
            init[n.targets[0].id] = folder.try_fold(n.value, Scope(f.mod, f.cls, {k: v for k, v in init.items() if v is not None}), None)
    chk.check(init.get("lss_id") == [0, 0, 0, 0], "R6", f"{L}:LssMaster.fast_scan | identity starts as four zero words", f.loc(), f"initial values {init}")
    if calls:
        env0 = {k: v for k, v in init.items() if v is not None}
        vals = [folder.try_fold(a, Scope(f.mod, f.cls, env0), None) for a in calls[0].args]
        chk.check(vals == [0, 128, 0, 0], "R6", f"{L}:LssMaster.fast_scan | initial probe (id 0, bit check 128, sub 0, next 0)", f.loc(calls[0]),
                  f"the first probe is sent with (id, bit check, sub, next) = {vals} ({src(calls[0])}); CiA 305: (0, 0x80, 0, 0)")
    for c in calls[1:]:
        got = [src(a) for a in c.args]
        in_bit_loop = any(isinstance(w, ast.While) and "lss_bit_check" in src(w.test) and any(x is c for x in ast.walk(w)) for w in own_nodes(f.node))
        # behind the bit loop the bit-check counter is 0: the confirm probe may name the counter or say 0
        ok_args = got == ["lss_id[lss_sub]", "lss_bit_check", "lss_sub", "lss_next"] or (not in_bit_loop and got == ["lss_id[lss_sub]", "0", "lss_sub", "lss_next"])
        chk.check(ok_args, "R6", f"{L}:LssMaster.fast_scan | probe arguments line {c.lineno}", f.loc(c), src(c))
    whiles = [n for n in own_nodes(f.node) if isinstance(n, ast.While)]
    outer = [w for w in whiles if ff.is_form(w.test, "lss_sub < 4", "lss_sub <= 3")]
    inner = [w for w in whiles if ff.is_form(w.test, "lss_bit_check > 0", "lss_bit_check >= 1")]
    chk.check(len(outer) == 1 and len(inner) == 1, "R6", f"{L}:LssMaster.fast_scan | loops over 4 words x 32 bits", f.loc(), f"loops {[src(w.test) for w in whiles]}")
    if len(inner) == 1:
        w = inner[0]
        first = w.body[0]
        ok = isinstance(first, ast.AugAssign) and isinstance(first.op, ast.Sub) and src(first.target) == "lss_bit_check" and folder.try_fold(first.value, sc, None) == 1
        chk.check(ok, "R6", f"{L}:LssMaster.fast_scan | bit index decremented before use", f.loc(first), src(first))
        # set to 32 right before the inner loop
        pre = [n for n in own_nodes(f.node) if isinstance(n, ast.Assign) and src(n.targets[0]) == "lss_bit_check" and folder.try_fold(n.value, sc, None) == 32]
        chk.check(len(pre) == 1, "R6", f"{L}:LssMaster.fast_scan | 32 bits per word", f.loc(), "lss_bit_check is not reset to 32 per word")
        sets = [n for n in ast.walk(w) if isinstance(n, ast.AugAssign) and isinstance(n.op, ast.BitOr) and src(n.target) == "lss_id[lss_sub]"]
        ok = len(sets) == 1 and ff.is_form(sets[0].value, "1 << lss_bit_check")
        chk.check(ok, "R6", f"{L}:LssMaster.fast_scan | bit accumulated", f.loc(), f"{[src(s_) for s_ in sets]}")
        for s_ in sets:
            g = [(src(e), p) for e, p in ff.facts_at(s_)]
            chk.check(any(not p and "__send_fast_scan_message" in t for t, p in g), "R6", f"{L}:LssMaster.fast_scan | bit set exactly when the probe is unanswered", f.loc(s_), f"{g}")
    nxt = [n for n in own_nodes(f.node) if isinstance(n, ast.Assign) and src(n.targets[0]) == "lss_next" and n not in f.node.body]
    chk.floor("R6", len(nxt), 1, "LSSNext computation")
    for n in nxt:
        wrong = []
        for sub in range(4):
            try:
                v = folder.fold(n.value, Scope(ff.scope.mod, ff.scope.cls, {"lss_sub": sub}))
            except Unfoldable as e:
                chk.unk("R6", f"{L}:LssMaster.fast_scan | LSSNext", f.loc(n), f"`{src(n.value)}` does not evaluate: {e}")
                wrong = None
                break
            if v != (sub + 1) % 4:
                wrong.append((sub, v))
        if wrong is not None:
            chk.check(not wrong, "R6", f"{L}:LssMaster.fast_scan | LSSNext = (LSSSub + 1) mod 4", f.loc(n),
                      f"`{src(n.value)}` gives LSSNext {wrong[0][1]} for LSSSub {wrong[0][0]} (CiA 305: {(wrong[0][0] + 1) % 4}; after the last word LSSNext must wrap to 0 "
                      f"or the slave does not enter configuration state)" if wrong else "", "evaluated for LSSSub = 0..3")
    incs = [n for n in own_nodes(f.node) if isinstance(n, ast.AugAssign) and src(n.target) == "lss_sub"]
    chk.check(len(incs) == 1 and isinstance(incs[0].op, ast.Add) and folder.try_fold(incs[0].value, sc, None) == 1, "R6", f"{L}:LssMaster.fast_scan | next word", f.loc(), "")
    rets = [n for n in own_nodes(f.node) if isinstance(n, ast.Return)]
    succ = [r for r in rets if src(r.value) == "(True, lss_id)"]
    fail = [r for r in rets if src(r.value) == "(False, None)"]
    chk.check(len(succ) == 1 and len(fail) >= 1 and len(succ) + len(fail) == len(rets), "R6", f"{L}:LssMaster.fast_scan | results", f.loc(), f"{[src(r) for r in rets]}")
    for r in fail:
        if outer and any(r is x for x in ast.walk(outer[0])):
            ig = None
            for n in ast.walk(outer[0]):
                if isinstance(n, ast.If) and any(s_ is r for s_ in n.body):
                    ig = n.test
            ok = ig is not None and isinstance(ig, ast.UnaryOp) and isinstance(ig.operand, ast.Call) and src(ig.operand.func) == "self.__send_fast_scan_message" \
                and [src(a) for a in ig.operand.args] in (["lss_id[lss_sub]", "lss_bit_check", "lss_sub", "lss_next"], ["lss_id[lss_sub]", "0", "lss_sub", "lss_next"])
            if ok:
                # it is the confirm probe: issued after LSSNext was advanced
                nx = [n for n in ast.walk(outer[0]) if isinstance(n, ast.Assign) and src(n.targets[0]) == "lss_next"]
                ok = bool(nx) and nx[0].lineno < r.lineno
            chk.check(ok, "R6", f"{L}:LssMaster.fast_scan | gives up only when the confirm probe is unanswered", f.loc(r),
                      f"`return (False, None)` under `{src(ig) if ig is not None else '?'}`: silence on the 32 bit probes is the legal answer of a slave whose identity part is "
                      f"all ones; only the confirm probe (bit check 0, after LSSNext advanced) decides")
    # the initial probe decides between "no unconfigured slave" and the scan
    if calls and succ:
        first = calls[0]
        ifs = [n for n in own_nodes(f.node) if isinstance(n, ast.If) and any(x is first for x in ast.walk(n.test))]
        okp = False
        why = "the first probe is not the test of an if statement"
        if len(ifs) == 1:
            i0 = ifs[0]
            pos = i0.test is first
            neg = isinstance(i0.test, ast.UnaryOp) and isinstance(i0.test.op, ast.Not) and i0.test.operand is first
            in_body = any(x is succ[0] for b in i0.body for x in ast.walk(b))
            in_else = any(x is succ[0] for b in i0.orelse for x in ast.walk(b))
            if pos:
                okp = in_body
            elif neg:
                okp = in_else or (not in_body and always_exits(i0.body))
            why = f"`if {src(i0.test)[:60]}`: the scan and its success result are on the {'answered' if okp else 'unanswered'} side"
        chk.check(okp, "R6", f"{L}:LssMaster.fast_scan | the scan runs exactly when the initial probe is answered", f.loc(first), why)
    wit = must_pass(ff.cfg, lambda n_: n_.kind == "stmt" and isinstance(n_.ast, ast.Return))
    chk.check(wit is None, "R6", f"{L}:LssMaster.fast_scan | every outcome is an explicit (found, identity) pair", f.loc(),
              f"a path falls off the end and returns None: {path_text(wit) if wit else ''}")
    for r in succ:
        if outer:
            lp = [n for n in ff.cfg.nodes if n.kind == "test" and n.ast is outer[0].test]
            chk.check(bool(lp) and ff.cfg.dominates(lp[0], ff.cfg.node_of(r)) and not any(r is x for x in ast.walk(outer[0])), "R6", f"{L}:LssMaster.fast_scan | success after all four words", f.loc(r), "")
    fsm = repo.func(L, "LssMaster.__send_fast_scan_message", "C18.R6")
    ffs = ff_for(chk, fsm, "C18.R6")
    rt = [n for n in own_nodes(fsm.node) if isinstance(n, ast.Return)]
    tr = [r for r in rt if folder.try_fold(r.value, sc, None) is True]
    ok = len(tr) == 1 and _spec_fact(ffs, tr[0], "recv_msg", "CS_IDENTIFY_SLAVE")
    chk.check(ok, "R6", f"{L}:LssMaster.__send_fast_scan_message | answered = identify-slave response", fsm.loc(), "True is not returned exactly for specifier 0x4F")
    hs = [h for h in own_nodes(fsm.node) if isinstance(h, ast.ExceptHandler) and "LssError" in src(h.type or ast.Constant(None))]
    ok = bool(hs) and all(len(h.body) == 1 and isinstance(h.body[0], ast.Return) and folder.try_fold(h.body[0].value, sc, None) is False for h in hs)
    chk.check(ok, "R6", f"{L}:LssMaster.__send_fast_scan_message | silence = unanswered", fsm.loc(), "LssError is not turned into False")
