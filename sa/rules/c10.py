"""C10 -- frames reach exactly the handlers subscribed at that moment."""
from __future__ import annotations

import ast
from collections import Counter

from .. import oracles as O
from ..fold import Scope, dotted, src
from .common import (ctx, ff_for, find_calls, must_pass, node_calls, own_nodes, path_text)

NET = "canopen/network.py"
RN = "canopen/node/remote.py"
LN = "canopen/node/local.py"

EXPLANATION = (
    "R1 subscribe appends only under `callback not in <the list of that id>`; unsubscribe removes by equality (never by "
    "identity: bound methods are equal, not identical); R2 notify iterates the list of exactly can_id and calls "
    "callback(can_id, data, timestamp) for every element (no break/return in the loop); R3 pairing: the multiset of "
    "(id, callback) pairs subscribed in associate_network equals the multiset unsubscribed in remove_network for "
    "RemoteNode and LocalNode, add_sdo registers the channel in the list remove_network walks; __setitem__ removes the "
    "old node before associating the new one, __delitem__ removes before deleting; R4 both can.Message constructions "
    "pass is_extended_id = can_id > 0x7FF and id/data/remote from their parameters; R5 the error/remote filter "
    "dominates notify in the listener; R6 scanner: append guarded by not-in, != 0 and service in SERVICES, SERVICES = "
    "predefined connection set, masks 0x780/0x7F and ids above 0x7FF excluded; R7 every library call of unsubscribe "
    "names its callback; R9 structural assumptions shared by all properties: no class-level mutable object is mutated in place by instances, no method re-runs the constructor, logging statements cannot raise (typed eager formatting, divisions), no mutable default argument is kept or mutated, no new truth-value test of a None-able number, a look-up memory the pinned tree does not have is keyed by all its inputs (arithmetic keys folded over a grid of addresses) and, on the serving side, emptied somewhere."
    ' R2 also: frame parameters re-bound only under `is None`, the scanner sees every frame on every path; R7 ignores zero-argument unsubscribe() of other classes.'
)
ASSUMPTIONS = [
    "not decided: arbitrary histories including re-entrant subscribe/unsubscribe from inside a callback",
    "callbacks are opaque; list.remove/`in` use equality (CPython list semantics)",
]


PAYLOAD_FORMS = ("data", "None if data is None else bytearray(data)", "bytearray(data)", "bytes(data)", "None if data is None else bytes(data)",
                 "bytearray() if data is None else bytearray(data)", "b'' if data is None else bytes(data)")   # can.Message takes None as "no data"


def run(chk):
    repo, folder = ctx(chk)
    net = repo.mod(NET, "C10")
    # ------------------------------------------------------------------ R1 subscribe / unsubscribe
    sub = repo.func(NET, "Network.subscribe", "C10.R1")
    fs = ff_for(chk, sub, "C10.R1")
    apps = find_calls(sub.node, ".append")
    chk.floor("R1", len(apps), 1, "append in Network.subscribe")
    for c in apps:
        lst = src(c.func.value)
        g = [(fs.norm(e, subst=False), p) for e, p in fs.facts_at(fs.stmt_of(c))]
        ok = (fs.canon(f"callback not in {lst}"), True) in g
        chk.check(ok and lst == "self.subscribers[can_id]" and [src(a) for a in c.args] == ["callback"], "R1",
                  f"{NET}:Network.subscribe | no-duplicate guard", sub.loc(c), f"`{src(c)}` under {g}: subscribing the same callback twice would duplicate delivery")
    _identity_scan(chk, sub, "R1")
    uns = repo.func(NET, "Network.unsubscribe", "C10.R1")
    fu = ff_for(chk, uns, "C10.R1")
    _identity_scan(chk, uns, "R1")
    rem = [c for c in find_calls(uns.node, ".remove")]
    dels = [n for n in own_nodes(uns.node) if isinstance(n, ast.Delete)]
    chk.check(len(rem) == 1 and src(rem[0]) == "self.subscribers[can_id].remove(callback)", "R1", f"{NET}:Network.unsubscribe | removes that callback",
              uns.loc(), f"removal is {[src(c) for c in rem] or 'not a list.remove(callback)'}; expected self.subscribers[can_id].remove(callback)"
              if not _filter_removal(uns) else "filtered rebuild of the list")
    if rem:
        g = [(src(e), p) for e, p in fu.facts_at(fu.stmt_of(rem[0]))]
        chk.check(("callback is not None", True) in g or ("callback is None", False) in g, "R1", f"{NET}:Network.unsubscribe | remove when callback given",
                  uns.loc(rem[0]), f"remove under {g}")
    for d in dels:
        g = [(src(e), p) for e, p in fu.facts_at(d)]
        chk.check(("callback is None", True) in g and src(d) == "del self.subscribers[can_id]", "R1", f"{NET}:Network.unsubscribe | bare form drops the id",
                  uns.loc(d), f"`{src(d)}` under {g}")

    # ------------------------------------------------------------------ R2 notify
    no = repo.func(NET, "Network.notify", "C10.R2")
    fn = ff_for(chk, no, "C10.R2")
    loops = [n for n in own_nodes(no.node) if isinstance(n, ast.For)]
    chk.floor("R2", len(loops), 1, "dispatch loop in notify")
    for lp in loops:
        it = lp.iter
        if isinstance(it, ast.Name) and fn.one_def(it.id) is not None:
            it = fn.one_def(it.id)
        # `self.subscribers.get(can_id, <empty literal>)` is the guarded lookup in one expression: the list of can_id when there is
        # one, nothing to iterate otherwise
        inner_it = it.args[0] if isinstance(it, ast.Call) and dotted(it.func) in ("list", "tuple") and len(it.args) == 1 else it
        get_form = isinstance(inner_it, ast.Call) and dotted(inner_it.func) == "self.subscribers.get" and len(inner_it.args) == 2 and not inner_it.keywords \
            and src(inner_it.args[0]) == "can_id" and isinstance(inner_it.args[1], (ast.Tuple, ast.List)) and not inner_it.args[1].elts
        chk.check(get_form or src(it) in ("self.subscribers[can_id]", "list(self.subscribers[can_id])", "tuple(self.subscribers[can_id])"), "R2",
                  f"{NET}:Network.notify | list of exactly can_id", no.loc(lp), f"iterates {src(it)}")
        g = [src(e) for e, p in fn.facts_at(lp) if p]
        chk.check(get_form or "can_id in self.subscribers" in g, "R2", f"{NET}:Network.notify | guarded lookup", no.loc(lp), f"loop under {g}")
        calls = [c for c in ast.walk(lp) if isinstance(c, ast.Call) and dotted(c.func) == src(lp.target)]
        ok = len(calls) == 1 and [src(a) for a in calls[0].args] == ["can_id", "data", "timestamp"] and not calls[0].keywords and len(lp.body) == 1
        chk.check(ok, "R2", f"{NET}:Network.notify | callback(can_id, data, timestamp) once each", no.loc(lp), f"loop body {[src(s) for s in lp.body]}")
        chk.check(not [n for n in ast.walk(lp) if isinstance(n, (ast.Break, ast.Return, ast.Continue, ast.If))], "R2",
                  f"{NET}:Network.notify | every subscriber", no.loc(lp), "the dispatch loop can skip subscribers")
    from . import shared as _sh
    _sh.notify_params_unchanged(chk, "R2")
    # the scanner sees every dispatched frame: no path through notify() leaves before scanner.on_message_received(can_id)
    scans = [n for n in fn.cfg.nodes if n.kind == "stmt" and isinstance(n.ast, ast.Expr) and isinstance(n.ast.value, ast.Call) and dotted(n.ast.value.func) == "self.scanner.on_message_received"]
    chk.floor("R2", len(scans), 1, "scanner hand-off in notify")
    wit = must_pass(fn.cfg, lambda n: n in scans)
    chk.check(wit is None, "R2", f"{NET}:Network.notify | the scanner sees every frame", no.loc(), f"a path leaves notify() without scanner.on_message_received(): {path_text(wit) if wit else ''}")

    # ------------------------------------------------------------------ R3 pairing
    for rel, cname, floor in ((RN, "RemoteNode", 4), (LN, "LocalNode", 2)):
        a = repo.func(rel, f"{cname}.associate_network", "C10.R3")
        r = repo.func(rel, f"{cname}.remove_network", "C10.R3")
        chk.saw(a); chk.saw(r)
        # idiom "remember what was registered": remove_network undoes the pairs recorded in a list attribute
        rec = None
        for lp in [n for n in own_nodes(r.node) if isinstance(n, ast.For) and isinstance(n.iter, ast.Attribute) and dotted(n.iter.value) == "self" and isinstance(n.target, ast.Tuple)]:
            tg = [src(e) for e in lp.target.elts]
            if any(isinstance(c, ast.Call) and dotted(c.func) == "self.network.unsubscribe" and [src(x) for x in c.args] == tg for c in ast.walk(lp)):
                rec = lp.iter.attr
        if rec is not None:
            cls_ = repo.cls(rel, cname, "C10.R3")
            n_pairs = 0
            for n in own_nodes(a.node):
                if isinstance(n, (ast.Assign, ast.AugAssign)) and dotted(n.targets[0] if isinstance(n, ast.Assign) else n.target) == f"self.{rec}":
                    n_pairs += sum(1 for x in ast.walk(n.value) if isinstance(x, ast.Tuple) and len(x.elts) == 2)
            chk.floor("R3", n_pairs, floor, f"recorded (id, handler) pairs in {cname}.associate_network")
            replay = [lp for lp in own_nodes(a.node) if isinstance(lp, ast.For) and src(lp.iter) == f"self.{rec}" and any(
                isinstance(c, ast.Call) and dotted(c.func) == "network.subscribe" and isinstance(lp.target, ast.Tuple) and [src(x) for x in c.args] == [src(e) for e in lp.target.elts] for c in ast.walk(lp))]
            chk.check(len(replay) == 1, "R3", f"{rel}:{cname}.associate_network | subscribes exactly the recorded pairs", a.loc(), f"no `for id, cb in self.{rec}: network.subscribe(id, cb)`")
            for mname, meth in cls_.methods.items():
                for c in [c for c in ast.walk(meth.node) if isinstance(c, ast.Call) and isinstance(c.func, ast.Attribute) and c.func.attr == "subscribe"]:
                    if any(c is x for lp in replay for x in ast.walk(lp)):
                        continue
                    pair = [src(x) for x in c.args]
                    recorded = any(isinstance(k, ast.Call) and dotted(k.func) == f"self.{rec}.append" and len(k.args) == 1 and isinstance(k.args[0], ast.Tuple)
                                   and [src(x) for x in k.args[0].elts] == pair for k in ast.walk(meth.node))
                    chk.check(recorded, "R3", f"{rel}:{cname}.{mname} | every subscription is recorded for removal", meth.loc(c),
                              f"`{src(c)[:70]}` registers a handler that self.{rec} does not know: remove_network() leaves it subscribed, the old node's handler keeps seeing frames")
            fr = ff_for(chk, r, "C10.R3")
            drops = [n for n in fr.cfg.nodes if n.kind == "stmt" and isinstance(n.ast, ast.Assign) and dotted(n.ast.targets[0]) == "self.network"]
            for d in drops:
                late = [n for n in fr.cfg.reach_from(d) if node_calls(n, ".unsubscribe")]
                chk.check(not late, "R3", f"{rel}:{cname}.remove_network | unsubscribe before dropping the network", r.loc(d.ast), "unsubscribe after self.network was reset")
            continue
        subs = _pairs(a, "network.subscribe", "network")
        unsubs = _pairs(r, "self.network.unsubscribe", "self.network")
        chk.floor("R3", len(subs), floor, f"subscriptions in {cname}.associate_network")
        for k in sorted(set(subs) | set(unsubs)):
            chk.check(subs[k] == unsubs[k], "R3", f"{rel}:{cname} | pair {k}", a.loc(),
                      f"subscribed {subs[k]}x in associate_network, unsubscribed {unsubs[k]}x in remove_network: "
                      + ("the old node's handler keeps receiving frames after removal/replacement" if subs[k] > unsubs[k] else "removal raises for a handler never registered"))
        # unsubscribes happen before the network reference is dropped
        fr = ff_for(chk, r, "C10.R3")
        drops = [n for n in fr.cfg.nodes if n.kind == "stmt" and isinstance(n.ast, ast.Assign) and dotted(n.ast.targets[0]) == "self.network"]
        for d in drops:
            late = [n for n in fr.cfg.reach_from(d) if node_calls(n, ".unsubscribe")]
            chk.check(not late, "R3", f"{rel}:{cname}.remove_network | unsubscribe before dropping the network", r.loc(d.ast), "unsubscribe after self.network was reset")
    ads = repo.func(RN, "RemoteNode.add_sdo", "C10.R3")
    fa = ff_for(chk, ads, "C10.R3")
    app = [c for c in find_calls(ads.node, ".append") if src(c.func.value) == "self.sdo_channels"]
    chk.check(len(app) == 1, "R3", f"{RN}:RemoteNode.add_sdo | channel registered for removal", ads.loc(), "new SDO channel is not appended to sdo_channels")
    wit = must_pass(fa.cfg, lambda n: node_calls(n, "sdo_channels.append"))
    chk.check(wit is None, "R3", f"{RN}:RemoteNode.add_sdo | on every path", ads.loc(), f"{path_text(wit) if wit else ''}")
    for c in find_calls(ads.node, ".subscribe"):
        cl = src(app[0].args[0]) if app else "client"
        chk.check([src(x) for x in c.args] == [f"{cl}.tx_cobid", f"{cl}.on_response"], "R3", f"{RN}:RemoteNode.add_sdo | same pair as associate_network", ads.loc(c), src(c))

    si = repo.func(NET, "Network.__setitem__", "C10.R3")
    fsi = ff_for(chk, si, "C10.R3")
    rm = [n for n in fsi.cfg.nodes if node_calls(n, ".remove_network")]
    asn = [n for n in fsi.cfg.nodes if node_calls(n, ".associate_network")]
    sto = [n for n in fsi.cfg.nodes if n.kind == "stmt" and isinstance(n.ast, ast.Assign) and src(n.ast.targets[0]) == "self.nodes[node_id]"]
    chk.floor("R3", len(rm) + len(asn) + len(sto), 3, "remove/associate/store in __setitem__")
    for a_ in asn:
        late = [n for n in fsi.cfg.reach_from(a_) if n in rm]
        chk.check(not late, "R3", f"{NET}:Network.__setitem__ | old node removed before the new one is associated", si.loc(a_.ast),
                  "remove_network() of the old node runs after associate_network() of the new node: re-assigning the same node object "
                  "(or two nodes sharing handlers) leaves it without subscriptions")
        wit = must_pass(fsi.cfg, lambda n: n in rm, to_nodes=[a_],
                        skip_edge=lambda n, lab: n.kind == "test" and src(n.ast) == "node_id in self.nodes" and lab == "F")
        chk.check(wit is None, "R3", f"{NET}:Network.__setitem__ | replace removes the old node", si.loc(a_.ast),
                  f"a path associates the new node while an old node may still be subscribed: {path_text(wit) if wit else ''}")
    for c in find_calls(si.node, ".remove_network"):
        recv = c.func.value
        if isinstance(recv, ast.Name) and fsi.one_def(recv.id) is not None:
            recv = fsi.one_def(recv.id)
        chk.check(src(recv) == "self.nodes[node_id]", "R3", f"{NET}:Network.__setitem__ | removes the old node", si.loc(c), src(c))
    wit = must_pass(fsi.cfg, lambda n: n in asn)
    chk.check(wit is None, "R3", f"{NET}:Network.__setitem__ | new node associated", si.loc(), f"{path_text(wit) if wit else ''}")
    di = repo.func(NET, "Network.__delitem__", "C10.R3")
    fdi = ff_for(chk, di, "C10.R3")
    rm = [n for n in fdi.cfg.nodes if node_calls(n, ".remove_network")]
    dl = [n for n in fdi.cfg.nodes if n.kind == "stmt" and isinstance(n.ast, ast.Delete)]
    chk.check(len(rm) == 1 and len(dl) == 1 and fdi.cfg.dominates(rm[0], dl[0]), "R3", f"{NET}:Network.__delitem__ | remove before delete", di.loc(),
              "node deleted without (or before) remove_network()")

    # ------------------------------------------------------------------ R4 outgoing frames
    sites = []
    for fq in ("Network.send_message", "PeriodicMessageTask.__init__"):
        f = repo.func(NET, fq, "C10.R4")
        chk.saw(f)
        for c in [x for x in ast.walk(f.node) if isinstance(x, ast.Call) and dotted(x.func) == "can.Message"]:
            sites.append((f, c))
    chk.floor("R4", len(sites), 2, "can.Message constructions")
    for f, c in sites:
        ff = ff_for(chk, f, "C10.R4")
        kw = {k.arg: k.value for k in c.keywords}
        ext = kw.get("is_extended_id")
        chk.check(ext is not None and ff.is_form(ext, "can_id > 0x7FF", "can_id >= 0x800"), "R4", f"{NET}:{f.qualname} | extended format rule", f.loc(c),
                  f"is_extended_id = {src(ext) if ext is not None else 'missing'}; must be exactly `can_id > 0x7FF`")
        chk.check(src(kw.get("arbitration_id", ast.Constant(None))) == "can_id" and src(kw.get("data", ast.Constant(None))) in PAYLOAD_FORMS
                  and src(kw.get("is_remote_frame", ast.Constant(None))) == "remote" and not c.args, "R4", f"{NET}:{f.qualname} | id, data, remote", f.loc(c),
                  f"message built from { {k: src(v) for k, v in kw.items()} }")
    sm = repo.func(NET, "Network.send_message", "C10.R4")
    fsm = ff_for(chk, sm, "C10.R4")
    sends = [c for c in find_calls(sm.node, ".send") if dotted(c.func) == "self.bus.send"]
    chk.check(len(sends) == 1 and [src(a) for a in sends[0].args] == ["msg"], "R4", f"{NET}:Network.send_message | one bus.send(msg)", sm.loc(), f"{[src(c) for c in sends]}")
    wit = must_pass(fsm.cfg, lambda n: node_calls(n, "self.bus.send"))
    chk.check(wit is None, "R4", f"{NET}:Network.send_message | every call sends", sm.loc(), f"a path returns without sending: {path_text(wit) if wit else ''}")

    # ------------------------------------------------------------------ R5 listener filter
    from . import shared as _sh10
    _sh10.listener_filter(chk, "R5")

    # ------------------------------------------------------------------ R6 scanner
    sc_cls = repo.cls(NET, "NodeScanner", "C10.R6")
    services = folder.try_fold(sc_cls.consts.get("SERVICES", ast.Constant(None)), Scope(net, sc_cls), None)
    chk.check(services is not None and set(services) == O.SERVICES_NODE, "R6", f"{NET}:NodeScanner.SERVICES", f"{NET}:{sc_cls.node.lineno}",
              f"SERVICES = {sorted(hex(s) for s in services) if services else services}; predefined connection set: {sorted(hex(s) for s in O.SERVICES_NODE)}")
    om = repo.func(NET, "NodeScanner.on_message_received", "C10.R6")
    fo = ff_for(chk, om, "C10.R6")
    apps = [c for c in find_calls(om.node, ".append") if src(c.func.value) == "self.nodes"]
    ins_ = [c for c in find_calls(om.node, ".insert") if src(c.func.value) == "self.nodes"] + [c for c in ast.walk(om.node) if isinstance(c, ast.Call) and dotted(c.func) in ("bisect.insort", "bisect.insort_left", "bisect.insort_right", "insort")]
    srt = [c for c in ast.walk(om.node) if isinstance(c, ast.Call) and (src(c.func) == "self.nodes.sort" or (dotted(c.func) == "sorted" and c.args and src(c.args[0]) == "self.nodes"))]
    for c in ins_ + srt:
        chk.bad("R6", f"{NET}:NodeScanner.on_message_received | ids listed in order of first appearance", om.loc(c),
                f"`{src(c)[:60]}` places the id by value, not at the end: the list is no longer in the order in which the nodes were first seen")
    if not (ins_ or srt):
        chk.floor("R6", len(apps), 1, "append in NodeScanner.on_message_received")
    for c in apps:
        arg = c.args[0]
        g = [fo.norm(e) for e, p in fo.facts_at(fo.stmt_of(c)) if p]
        nid = fo.norm(arg)
        chk.check(nid == fo.canon("can_id & 0x7F"), "R6", f"{NET}:NodeScanner.on_message_received | node id mask", om.loc(c), f"appends {nid}; node id is can_id & 0x7F")
        chk.check(f"{nid} not in self.nodes" in g, "R6", f"{NET}:NodeScanner.on_message_received | listed once", om.loc(c), f"append under {g}")
        chk.check(f"{nid} != 0" in g, "R6", f"{NET}:NodeScanner.on_message_received | node id 0 excluded", om.loc(c), f"append under {g}")
        svc = [x for x in g if x.endswith("in self.SERVICES")]
        chk.check(svc == [fo.canon("can_id & 0x780") + " in self.SERVICES"], "R6", f"{NET}:NodeScanner.on_message_received | service filter", om.loc(c),
                  f"service test {svc}; expected (can_id & 0x780) in SERVICES")
        bound = any(x in (fo.canon("can_id <= 0x7FF"), fo.canon("can_id < 0x800")) for x in g)
        chk.check(bound, "R6", f"{NET}:NodeScanner.on_message_received | ids beyond 11 bits excluded", om.loc(c),
                  f"the masks 0x780|0x7F keep 11 of 29 identifier bits and no guard bounds can_id (facts {g}): 0x10000701 would list node 1")
    sr = repo.func(NET, "NodeScanner.search", "C10.R6")
    chk.saw(sr)
    for c in find_calls(sr.node, ".send_message"):
        payload = c.args[1]
        fsr = ff_for(chk, sr, "C10.R6")
        if isinstance(payload, ast.Name) and fsr.one_def(payload.id) is not None:
            payload = fsr.one_def(payload.id)
        v = folder.try_fold(payload, Scope(net), None)
        chk.check(fsr.norm(c.args[0], subst=False) == fsr.canon("0x600 + node_id") and v == b"\x40\x00\x10\x00\x00\x00\x00\x00", "R6",
                  f"{NET}:NodeScanner.search | probe frame", sr.loc(c), f"sends {src(c.args[0])}, {v!r}")

    # ------------------------------------------------------------------ R7 who may bare-unsubscribe
    n_sites = 0
    for f in repo.all_funcs():
        for c in find_calls(f.node, ".unsubscribe"):
            nargs = len(c.args) + len(c.keywords)
            if nargs == 0 and not (dotted(c.func.value) or "").split(".")[-1].endswith("network"):
                continue                  # Network.unsubscribe needs the CAN id: a call without arguments is another class's method of that name
            n_sites += 1
            chk.check(nargs >= 2, "R7", f"{f.key} | {src(c)}", f.loc(c),
                      "unsubscribe(id) without a callback removes every handler of that id, including those of other owners")
    chk.floor("R7", n_sites, 3, "unsubscribe call sites")
    fired = _bare_fixture()
    chk.fixture("R7", "bare unsubscribe", fired)

    # ------------------------------------------------------------------ R9 instances are independent (shared clause)
    from . import shared as _shared
    _shared.isolation(chk, "R9", rels=['canopen/network.py', 'canopen/node/remote.py', 'canopen/node/local.py', 'canopen/node/base.py'])


def _bare_fixture() -> bool:
    t = ast.parse("def f(network):\n    network.unsubscribe(0x581)\n")
    cs = find_calls(t, ".unsubscribe")
    return len(cs) == 1 and len(cs[0].args) + len(cs[0].keywords) < 2


def _filter_removal(fn) -> bool:
    return any(isinstance(n, (ast.ListComp, ast.GeneratorExp)) for n in ast.walk(fn.node))


def _identity_scan(chk, f, rule):
    """`is` / `is not` applied to the callback: bound methods are re-created on every attribute access."""
    for n in own_nodes(f.node):
        if isinstance(n, ast.Compare) and any(isinstance(o, (ast.Is, ast.IsNot)) for o in n.ops):
            ops = [n.left] + n.comparators
            if any(isinstance(o, ast.Name) and o.id == "callback" for o in ops) and not any(
                    isinstance(o, ast.Constant) and o.value is None for o in ops):
                chk.bad(rule, f"{f.key} | identity comparison of callbacks", f.loc(n),
                        f"`{src(n)}` compares callbacks by identity; bound methods (every handler the library registers) are "
                        f"equal but never identical, so nothing is ever matched")
                return
    chk.ok(rule, f"{f.key} | callbacks compared by equality", f.loc())


def _pairs(f, callee: str, recv: str) -> Counter:
    """Multiset of normalised (id, callback) pairs (loops are keyed by their iterable)."""
    out = Counter()
    for c in find_calls(f.node, callee.split(".")[-1]):
        if dotted(c.func) != callee:
            continue
        ctx_loops = []
        # enclosing for loops
        for lp in [n for n in ast.walk(f.node) if isinstance(n, ast.For)]:
            if any(x is c for x in ast.walk(lp)):
                ctx_loops.append(f"for {src(lp.target)} in {src(lp.iter)}")
        key = (" ".join(ctx_loops), ", ".join(src(a) for a in c.args))
        out[key] += 1
    return out
