"""C15 -- a PDO value set by the producer is the value the consumer reads."""
from __future__ import annotations

import ast

from ..fold import Scope, dotted, src
from .common import (attr_stores, ctx, ff_for, find_calls, inside_with, must_pass, node_calls, own_nodes, path_text)

B = "canopen/pdo/base.py"
COND = "self.receive_condition"

EXPLANATION = (
    "R1 reception guard: every effect of PdoMap.on_message (data, timestamp, period, flag, notify, callbacks) happens "
    "only under `can_id == self.cob_id` and while the map is not transmitting; R2 the frame's data and timestamp are "
    "stored unchanged, the flag is set and notify_all called inside the condition with the stores before the notify, "
    "one loop calls every callback once with the map; the period is derived only from two real timestamps; R3 "
    "wait_for_reception resets the flag and waits inside the condition and returns the timestamp iff a frame arrived; "
    "R4 transmit sends (cob_id, data) of the map; R5 a remote request is sent only under `enabled and rtr_allowed`, as "
    "a remote frame on the map's COB-ID; R6 mapped variables of a received frame read from pdo_parent.data (the object "
    "the reception stores into); R7 a map's handler is registered once however often subscribe() runs (callbacks once per "
    "frame); R8 remote and error frames are not delivered as data; R9 every variable write refreshes a running cyclic transmission; "
    "R10 the bit-field codec (all rules of C05) is part of this property: the value read is the value written; R12 item access designates variables of the current mapping, first match in map order; R13 subscribe() registers an enabled map for (cob_id, on_message) on every call and removes at most its own handler (shared with C09.R4); R14 read() decodes identifier, enabled and rtr_allowed from the COB-ID word of sub-index 1 (evaluated for probe words; the RTR guard of R5 and the reception guard of R1 depend on them; shared with C09.R2); R11 structural assumptions shared by all properties: no class-level mutable object is mutated in place by instances, no method re-runs the constructor, logging statements cannot raise (typed eager formatting, divisions), no mutable default argument is kept or mutated, no new truth-value test of a None-able number, a look-up memory the pinned tree does not have is keyed by all its inputs (arithmetic keys folded over a grid of addresses) and, on the serving side, emptied somewhere."
    " R8 also: Network.notify hands the frame's own id, data and timestamp on (re-bound only under `is None`); R12 also: PdoBase.__getitem__ keeps no memory of earlier answers."
    ' R2 also: the order of stores and notify inside one with-block is free, user callbacks run only after the waiters were woken.'
)
ASSUMPTIONS = [
    "not decided: values and schedules",
    "callbacks are opaque",
]


def run(chk):
    repo, folder = ctx(chk)
    f = repo.func(B, "PdoMap.on_message", "C15.R1")
    ff = ff_for(chk, f, "C15.R1")
    sc = Scope(f.mod, f.cls)
    tr = ff.one_def("is_transmitting")
    if tr is not None:
        chk.check(src(tr) == "self._task is not None", "R1", f"{B}:PdoMap.on_message | transmitting = a periodic task is live", f.loc(), f"{src(tr)}")
    effects = []
    for n in ff.cfg.nodes:
        a = n.ast
        if n.kind == "stmt" and isinstance(a, (ast.Assign, ast.AugAssign)) and any((dotted(t) or "").startswith("self.") for t in (a.targets if isinstance(a, ast.Assign) else [a.target])):
            effects.append(n)
        elif n.kind == "stmt" and (node_calls(n, "notify_all") or node_calls(n, ".notify") or any(isinstance(c, ast.Call) and dotted(c.func) == "callback" for c in ast.walk(a))):
            effects.append(n)
    chk.floor("R1", len(effects), 5, "effects in on_message")
    for n in effects:
        g = [(ff.norm(e), p) for e, p in ff.facts_at(n.ast)]
        ok_id = any(p and t in (ff.canon("can_id == self.cob_id"), ff.canon("self.cob_id == can_id")) for t, p in g)
        ok_tx = any((not p and t in (ff.canon("self._task is not None"),)) or (p and t == ff.canon("self._task is None")) for t, p in g)
        chk.check(ok_id, "R1", f"{B}:PdoMap.on_message | `{src(n.ast)[:40]}` only for the map's own COB-ID", f.loc(n.ast),
                  f"reached under {g}: a frame with another id (e.g. one still delivered by a stale subscription after the map moved) updates this map")
        chk.check(ok_tx, "R1", f"{B}:PdoMap.on_message | `{src(n.ast)[:40]}` not while transmitting", f.loc(n.ast), f"reached under {g}")

    # ------------------------------------------------------------------ R2
    for attr, want in (("data", "data"), ("timestamp", "timestamp"), ("is_received", "True")):
        st = attr_stores(f.node, attr)
        chk.check(len(st) == 1 and src(st[0].value) == want, "R2", f"{B}:PdoMap.on_message | self.{attr} = {want}", f.loc(), f"{[src(s_) for s_ in st]}")
        for s_ in st:
            chk.check(inside_with(f.node, s_, COND), "R2", f"{B}:PdoMap.on_message | self.{attr} under the condition", f.loc(s_), f"written outside `with {COND}`")
    notes = [n for n in ff.cfg.nodes if node_calls(n, "receive_condition.notify_all") or node_calls(n, "receive_condition.notify")]
    chk.check(len(notes) == 1, "R2", f"{B}:PdoMap.on_message | one notify", f.loc(), f"{len(notes)}")
    for nt in notes:
        chk.check(inside_with(f.node, nt.ast, COND), "R2", f"{B}:PdoMap.on_message | notify under the condition", f.loc(nt.ast), "")
        from .common import enclosing as _enclosing
        nt_with = [w for w in _enclosing(f.node, nt.ast, (ast.With,)) if any(src(it.context_expr) == COND for it in w.items)]
        # inside one `with cond:` block the order of the stores and the notify cannot be observed (a woken reader needs the lock)
        late = [n for n in ff.cfg.reach_from(nt, skip_exc=True) if n.kind == "stmt" and isinstance(n.ast, ast.Assign)
                and any(dotted(t) in ("self.data", "self.timestamp", "self.is_received") for t in n.ast.targets)
                and not (nt_with and any(n.ast is x for x in ast.walk(nt_with[-1])))]
        early_cb = [n for n in ff.cfg.nodes if n.kind == "stmt" and any(isinstance(c, ast.Call) and dotted(c.func) == "callback" for c in ast.walk(n.ast))
                    and nt in ff.cfg.reach_from(n, skip_exc=True)]
        chk.check(not early_cb, "R2", f"{B}:PdoMap.on_message | waiters are woken before user callbacks run", f.loc(nt.ast),
                  "a callback runs before notify_all: one that raises leaves wait_for_reception() asleep although the frame was stored")
        chk.check(not late, "R2", f"{B}:PdoMap.on_message | state stored before waking waiters", f.loc(nt.ast), "a woken reader can see the previous frame")
    wit = must_pass(ff.cfg, lambda n: n in notes, skip_edge=lambda n, lab: n.kind == "test" and "can_id" in src(n.ast) and lab == "F")
    chk.check(wit is None, "R2", f"{B}:PdoMap.on_message | every accepted frame wakes waiters", f.loc(), f"{path_text(wit) if wit else ''}")
    loops = [n for n in own_nodes(f.node) if isinstance(n, ast.For) and src(n.iter) == "self.callbacks"]
    ok = len(loops) == 1 and len(loops[0].body) == 1 and src(loops[0].body[0]) == f"{src(loops[0].target)}(self)" and not loops[0].orelse
    chk.check(ok, "R2", f"{B}:PdoMap.on_message | each callback once with the map", f.loc(), f"{[src(lp) for lp in loops]}")
    if loops:
        lpn = [n for n in ff.cfg.nodes if n.kind == "for" and n.ast is loops[0]]
        wit = must_pass(ff.cfg, lambda n: n in lpn, skip_edge=lambda n, lab: n.kind == "test" and "can_id" in src(n.ast) and lab == "F")
        chk.check(wit is None, "R2", f"{B}:PdoMap.on_message | callbacks on every accepted frame", f.loc(), f"{path_text(wit) if wit else ''}")
        for s_ in attr_stores(f.node, "data"):
            chk.check(lpn and lpn[0] in ff.cfg.reach_from(ff.cfg.node_of(s_)), "R2", f"{B}:PdoMap.on_message | callbacks see the new data", f.loc(s_), "")
    per = attr_stores(f.node, "period")
    for s_ in per:
        g = [(src(e), p) for e, p in ff.facts_at(s_)]
        chk.check(src(s_.value) == "timestamp - self.timestamp" and ("self.timestamp is not None", True) in g, "R2", f"{B}:PdoMap.on_message | period from two timestamps", f.loc(s_), f"{src(s_)} under {g}")
        ts = attr_stores(f.node, "timestamp")
        chk.check(all(ff.cfg.node_of(t) in ff.cfg.reach_from(ff.cfg.node_of(s_)) for t in ts), "R2", f"{B}:PdoMap.on_message | period uses the previous timestamp", f.loc(s_), "")
    ac = repo.func(B, "PdoMap.add_callback", "C15.R2")
    chk.saw(ac)
    chk.check([src(c) for c in find_calls(ac.node, ".append")] == ["self.callbacks.append(callback)"], "R2", f"{B}:PdoMap.add_callback", ac.loc(), "")

    # ------------------------------------------------------------------ R3 wait
    w = repo.func(B, "PdoMap.wait_for_reception", "C15.R3")
    fw = ff_for(chk, w, "C15.R3")
    resets = [s_ for s_ in attr_stores(w.node, "is_received") if folder.try_fold(s_.value, sc, None) is False]
    waits = [c for c in find_calls(w.node, ".wait") if dotted(c.func) == f"{COND}.wait"]
    chk.check(len(resets) == 1 and len(waits) == 1 and inside_with(w.node, resets[0], COND) and inside_with(w.node, waits[0], COND), "R3", f"{B}:PdoMap.wait_for_reception | reset and wait under the condition", w.loc(), "")
    if resets and waits:
        chk.check(fw.cfg.dominates(fw.cfg.node_of(resets[0]), fw.cfg.node_of(fw.stmt_of(waits[0]))), "R3", f"{B}:PdoMap.wait_for_reception | reset before wait", w.loc(), "")
        chk.check([src(a) for a in waits[0].args] == ["timeout"], "R3", f"{B}:PdoMap.wait_for_reception | bounded wait", w.loc(), "")
    rets = [n for n in own_nodes(w.node) if isinstance(n, ast.Return)]
    ok = len(rets) == 1 and src(rets[0].value) in ("self.timestamp if self.is_received else None",)
    if not ok and rets:
        ok = all((src(r.value) == "self.timestamp" and ("self.is_received", True) in [(src(e), p) for e, p in fw.facts_at(r)]) or
                 (folder.try_fold(r.value, sc, 1) is None and ("self.is_received", False) in [(src(e), p) for e, p in fw.facts_at(r)]) for r in rets)
    chk.check(ok, "R3", f"{B}:PdoMap.wait_for_reception | timestamp iff a frame arrived", w.loc(), f"{[src(r) for r in rets]}")

    # ------------------------------------------------------------------ R4 transmit
    t = repo.func(B, "PdoMap.transmit", "C15.R4")
    ft = ff_for(chk, t, "C15.R4")
    cs = find_calls(t.node, ".send_message")
    chk.check(len(cs) == 1 and [src(a) for a in cs[0].args] == ["self.cob_id", "self.data"] and not cs[0].keywords and dotted(cs[0].func) == "self.pdo_node.network.send_message", "R4",
              f"{B}:PdoMap.transmit | (cob_id, data) of this map", t.loc(), f"{[src(c) for c in cs]}")
    wit = must_pass(ft.cfg, lambda n: node_calls(n, ".send_message"))
    chk.check(wit is None, "R4", f"{B}:PdoMap.transmit | always sends", t.loc(), f"{path_text(wit) if wit else ''}")

    # ------------------------------------------------------------------ R5 remote request
    r = repo.func(B, "PdoMap.remote_request", "C15.R5")
    fr = ff_for(chk, r, "C15.R5")
    cs = find_calls(r.node, ".send_message")
    chk.floor("R5", len(cs), 1, "send in remote_request")
    for c in cs:
        g = [(src(e), p) for e, p in fr.facts_at(fr.stmt_of(c))]
        chk.check(("self.enabled", True) in g and ("self.rtr_allowed", True) in g, "R5", f"{B}:PdoMap.remote_request | only for an enabled map that allows RTR", r.loc(c),
                  f"the remote frame is sent under {g}: a disabled map or one whose COB-ID forbids RTR must stay silent")
        kw = {k.arg: folder.try_fold(k.value, sc, None) for k in c.keywords}
        a1 = folder.try_fold(c.args[1], sc, "?") if len(c.args) > 1 else "?"
        ok = src(c.args[0]) == "self.cob_id" and (kw.get("remote") is True or (len(c.args) > 2 and folder.try_fold(c.args[2], sc, None) is True)) \
            and (src(c.args[1]) in ("bytes()", "b''", "bytearray()") or a1 in (b"", None))
        chk.check(ok, "R5", f"{B}:PdoMap.remote_request | remote frame on the map's COB-ID", r.loc(c), src(c))
    wit = must_pass(fr.cfg, lambda n: node_calls(n, ".send_message"),
                    skip_edge=lambda n, lab: n.kind == "test" and (("enabled" in src(n.ast) or "rtr_allowed" in src(n.ast))) and _blocks(fr, n, lab))
    chk.check(wit is None, "R5", f"{B}:PdoMap.remote_request | sent whenever allowed", r.loc(), f"{path_text(wit) if wit else ''}")

    # ------------------------------------------------------------------ R6 variables read the map's data
    gv = repo.func(B, "PdoMap._get_variable", "C15.R6")
    chk.saw(gv)
    st = [n for n in own_nodes(gv.node) if isinstance(n, ast.Assign) and src(n.targets[0]) == "var.pdo_parent"]
    chk.check(len(st) == 1 and src(st[0].value) == "self", "R6", f"{B}:PdoMap._get_variable | variable bound to this map", gv.loc(), "")
    for fq in ("PdoVariable.get_data", "PdoVariable.set_data"):
        v = repo.func(B, fq, "C15.R6")
        bufs = {src(n) for n in ast.walk(v.node) if isinstance(n, ast.Attribute) and n.attr == "data" and isinstance(n.value, ast.Attribute)}
        chk.check(bufs == {"self.pdo_parent.data"}, "R6", f"{B}:{fq} | reads/writes the parent map's data", v.loc(), f"{bufs}")
    # ------------------------------------------------------------------ R7-R9 delivery once, data frames only, running task refreshed
    from . import shared
    shared.subscribe_once(chk, "R7")
    shared.listener_filter(chk, "R8")
    shared.notify_params_unchanged(chk, "R8")
    shared.setdata_updates_task(chk, "R9")
    # R10: what the consumer reads are the producer's bits -- the bit-field codec of C05 is a clause of this property
    from . import c05
    from .common import RuleProxy
    c05.run(RuleProxy(chk, "R10"))

    # ------------------------------------------------------------------ R13 the consuming map is registered for its COB-ID (shared with C09.R4)
    from . import shared as _shps
    _shps.pdo_subscribe(chk, "R13")
    # ------------------------------------------------------------------ R14 what read() takes from the COB-ID word (shared with C09.R2): R5 relies on rtr_allowed/enabled
    _shps.cob_id_fields(chk, "R14")
    # ------------------------------------------------------------------ R12 which variable an item access designates (shared clause)
    from . import shared as _shl
    _shl.pdo_lookup(chk, "R12")
    _shl.pdo_collection_lookup(chk, "R12")
    # ------------------------------------------------------------------ R11 instances are independent (shared clause)
    from . import shared as _shared
    _shared.isolation(chk, "R11", rels=['canopen/pdo/base.py', 'canopen/pdo/__init__.py', 'canopen/network.py'])


def _blocks(fr, n, lab) -> bool:
    """Edge of a guard test that leads to the 'not allowed' side."""
    t = src(n.ast)
    if t in ("self.enabled and self.rtr_allowed", "self.rtr_allowed and self.enabled"):
        return lab == "F"
    if t in ("not self.enabled or not self.rtr_allowed", "not self.rtr_allowed or not self.enabled", "not (self.enabled and self.rtr_allowed)"):
        return lab == "T"
    if t in ("self.enabled", "self.rtr_allowed"):
        return lab == "F"
    if t in ("not self.enabled", "not self.rtr_allowed"):
        return lab == "T"
    return False
