"""C11 -- NMT commands, states and heartbeats follow the CiA 301 state machine."""
from __future__ import annotations

import ast

from .. import oracles as O
from ..fold import Scope, dotted, src
from ..loader import AnalysisError
from .common import (ReachingDefs, attr_stores, ctx, ff_for, find_calls, inside_with, must_pass, node_calls,
                     own_nodes, path_text, substitute)

NMT = "canopen/nmt.py"

EXPLANATION = (
    "R1 the three NMT tables folded from the source agree with CiA 301 and with each other; R2 the command filter "
    "of NmtBase.on_command is exactly {own id, 0} and the state store takes COMMAND_TO_STATE[cmd] under "
    "`cmd in COMMAND_TO_STATE` with (cmd, node) unpacked from bytes 0,1; R3 the master emits "
    "send_message(0, [code, self.id]) on every normal path of send_command, the slave emits the boot-up frame "
    "[0] on 0x700+id exactly under `_state == 0`; R4 the state setter reaches send_command on every normal path "
    "and rejects names outside NMT_COMMANDS before it; R5 heartbeat decoding uses only the 0x7F-masked byte, "
    "0 maps to PRE-OPERATIONAL (127); R6 condition-variable protocol of on_heartbeat / wait_for_heartbeat / "
    "wait_for_bootup and NmtError on the silent path; R9 every state change of the slave reaches its heartbeat payload and the heartbeat starts on the boot-up transition (shared with C17.R3): the state a master reports is the one the heartbeat carries; R8 structural assumptions shared by all properties: no class-level mutable object is mutated in place by instances, no method re-runs the constructor, logging statements cannot raise (typed eager formatting, divisions), no mutable default argument is kept or mutated, no new truth-value test of a None-able number, a look-up memory the pinned tree does not have is keyed by all its inputs (arithmetic keys folded over a grid of addresses) and, on the serving side, emptied somewhere."
    ' R6 also: only on_heartbeat notifies state_update while wait_for_heartbeat waits once.'
    ' R5 also: the boot-up test does not look at the raw frame byte.'
    ' R3 also: the master records the commanded state before the frame is sent; R8 also: a table look-up in a log argument cannot fail (its key is a literal, a value taken out of a table whose values are keys, or guarded), and a Condition over a plain Lock counts as a plain lock for the callback clause.'
)
ASSUMPTIONS = [
    "not decided: agreement of master and slave views after every prefix of a command history (runtime), thread timing",
    "heartbeat callbacks are opaque and assumed not to raise",
]


def run(chk):
    repo, folder = ctx(chk)
    mod = repo.mod(NMT, "C11")
    sc = Scope(mod)
    tabs = {}
    for name in ("NMT_STATES", "NMT_COMMANDS", "COMMAND_TO_STATE"):
        if name not in mod.consts:
            raise AnalysisError("C11.R1", f"table {name} not found in {NMT}")
        v = folder.try_fold(mod.consts[name], sc, None)
        if not isinstance(v, dict):
            raise AnalysisError("C11.R1", f"table {name} does not fold to a dict")
        tabs[name] = v
        chk.analysed_tables.append(name)
    states, commands, c2s = tabs["NMT_STATES"], tabs["NMT_COMMANDS"], tabs["COMMAND_TO_STATE"]
    w = lambda n: f"{NMT}:{mod.consts[n].lineno}"  # noqa
    # R1
    for cmd, st in O.NMT_COMMAND_TO_STATE.items():
        chk.check(c2s.get(cmd) == st, "R1", f"COMMAND_TO_STATE[{cmd}]", w("COMMAND_TO_STATE"),
                  f"command {cmd} leads to state {c2s.get(cmd)!r}; CiA 301 says {st}")
    for cmd, st in c2s.items():
        chk.check(st in states, "R1", f"COMMAND_TO_STATE[{cmd}] target", w("COMMAND_TO_STATE"),
                  f"target state number {st} has no name in NMT_STATES")
    for num, name in O.NMT_STATE_NUMBERS.items():
        chk.check(states.get(num) == name, "R1", f"NMT_STATES[{num}]", w("NMT_STATES"),
                  f"state {num} is named {states.get(num)!r}; CiA 301: {name}")
    for name, code in O.NMT_COMMAND_NAMES.items():
        chk.check(commands.get(name) == code, "R1", f"NMT_COMMANDS[{name}]", w("NMT_COMMANDS"),
                  f"command specifier for {name} is {commands.get(name)!r}; CiA 301: {code}")
    for name, code in commands.items():
        if name in states.values():
            tgt = states.get(c2s.get(code))
            chk.check(tgt == name, "R1", f"round trip {name}", w("NMT_COMMANDS"),
                      f"assigning state {name!r} sends command {code}, which the tables map to state {tgt!r}")
        chk.check(code in c2s, "R1", f"NMT_COMMANDS[{name}] known", w("NMT_COMMANDS"),
                  f"command {code} of {name!r} has no entry in COMMAND_TO_STATE")
    chk.floor("R1", len(c2s), 5, "COMMAND_TO_STATE rows")

    # R2 filter
    f = repo.func(NMT, "NmtBase.on_command", "C11.R2")
    ff = ff_for(chk, f, "C11.R2")
    stores = attr_stores(f.node, "_state")
    # receiving a command is passive: no method reachable from on_command (through any subclass override) transmits
    nmt_classes = [c for c in mod.classes.values() if any(k.name == "NmtBase" for k in repo.mro(c))]
    sends_ = []
    seen_m, todo = set(), [("NmtBase", f)]
    while todo:
        cname_, cur = todo.pop()
        for c in ast.walk(cur.node):
            if not isinstance(c, ast.Call):
                continue
            d = dotted(c.func) or ""
            if d.endswith(".send_message") or d.endswith(".send_periodic"):
                sends_.append((cname_, cur, c))
            if isinstance(c.func, ast.Attribute) and dotted(c.func.value) == "self":
                for k in nmt_classes:
                    m_ = k.methods.get(c.func.attr)
                    if m_ is not None and (k.name, c.func.attr) not in seen_m and c.func.attr not in ("update_heartbeat",):
                        seen_m.add((k.name, c.func.attr))
                        todo.append((k.name, m_))
    for cname_, cur, c in sends_:
        chk.bad("R2", f"{NMT}:NmtBase.on_command | receiving a command sends nothing", cur.loc(c),
                f"on_command reaches {cname_}.{cur.name}(), which transmits `{src(c)[:60]}`: a node that merely sees a command on the bus repeats it (master) "
                f"or answers with a boot-up message (slave)")
    if sends_:
        return
    chk.floor("R2", len(stores), 1, "stores of _state in NmtBase.on_command")
    unpack = None
    for n in own_nodes(f.node):
        if isinstance(n, ast.Assign) and isinstance(n.value, ast.Call) and (dotted(n.value.func) or "").endswith("unpack_from"):
            unpack = n
    names = None
    if unpack is not None and isinstance(unpack.targets[0], ast.Tuple):
        fmt = folder.try_fold(unpack.value.args[0], sc, None)
        names = [dotted(e) for e in unpack.targets[0].elts]
        off_ok = len(unpack.value.args) == 2 or (len(unpack.value.args) == 3 and folder.try_fold(unpack.value.args[2], sc, None) == 0)
        chk.check(fmt in ("BB", "<BB", ">BB", "=BB") and len(names) == 2 and off_ok and src(unpack.value.args[1]) == "data",
                  "R2", f"{NMT}:NmtBase.on_command | unpack", f.loc(unpack),
                  f"command frame decoded with {fmt!r} into {names}: expected (cs, node id) from bytes 0 and 1")
    else:
        chk.unk("R2", f"{NMT}:NmtBase.on_command | unpack", f.loc(), "no `cmd, node_id = struct.unpack_from(...)`")
    from .common import substitute_src, conj_of_facts
    from ..fold import Unfoldable
    for st in stores:
        facts = [(e, p) for e, p in ff.facts_at(st)]
        # address filter: the conditions on the addressed node id, evaluated for broadcast (0), the own id and a foreign id
        addr = [(e, p) for e, p in facts if names and any(isinstance(x, ast.Name) and x.id == names[1] for x in ast.walk(e))]
        if not addr:
            chk.bad("R2", f"{NMT}:NmtBase.on_command | address filter", f.loc(st),
                    "the state store is not guarded by a test of the addressed node id; " f"facts: {[src(e) for e, p in facts if p]}")
        else:
            accepted, undecided = set(), None
            for v in (0, 5, 7):
                try:
                    ok_v = all(bool(folder.fold(substitute_src(e, {names[1]: v, "self.id": 5}), sc)) == p for e, p in addr)
                except Unfoldable as ex:
                    undecided = str(ex)
                    break
                if ok_v:
                    accepted.add({0: "0 (broadcast)", 5: "the own id", 7: "a foreign id"}[v])
            if undecided is not None:
                chk.unk("R2", f"{NMT}:NmtBase.on_command | address filter", f.loc(st), f"conditions {[src(e) for e, _p in addr]} do not evaluate: {undecided}")
            else:
                chk.check(accepted == {"0 (broadcast)", "the own id"}, "R2", f"{NMT}:NmtBase.on_command | address filter", f.loc(st),
                          f"commands are accepted for {sorted(accepted) or 'no node id'}; must be exactly the own id and 0 (broadcast)")
        val_e = st.value if isinstance(st, ast.Assign) else None
        if isinstance(val_e, ast.Name) and ff.one_def(val_e.id) is not None:
            vname, val_e = val_e.id, ff.one_def(val_e.id)
        else:
            vname = None
        val = ff.norm(val_e, subst=False) if val_e is not None else "?"
        cs = names[0] if names else "?"
        member = any(p and isinstance(e, ast.Compare) and isinstance(e.ops[0], ast.In) and src(e.comparators[0]) == "COMMAND_TO_STATE" and src(e.left) == cs for e, p in facts)
        via_get = val == f"COMMAND_TO_STATE.get({cs})" and vname is not None
        if via_get:
            present = any((src(e) == f"{vname} is not None" and p) or (src(e) == f"{vname} is None" and not p) for e, p in facts)
            truthy = any((src(e) == vname and p) or (src(e) == f"not {vname}" and not p) for e, p in facts)
            if truthy and not present:
                chk.bad("R2", f"{NMT}:NmtBase.on_command | known command", f.loc(st),
                        f"the looked-up state `{vname}` is tested by truth value: state 0 (INITIALISING, the target of Reset Node / Reset Communication) is falsy, "
                        "so the reset commands are dropped and the node keeps its old state")
            else:
                chk.check(present, "R2", f"{NMT}:NmtBase.on_command | known command", f.loc(st),
                          f"state store not guarded by `{vname} is not None` after COMMAND_TO_STATE.get(): undefined commands would store None")
        else:
            chk.check(member, "R2", f"{NMT}:NmtBase.on_command | known command", f.loc(st),
                      "state store not guarded by `cmd in COMMAND_TO_STATE`: undefined commands would change the state or raise")
        chk.check(names is not None and (val == f"COMMAND_TO_STATE[{cs}]" or via_get), "R2",
                  f"{NMT}:NmtBase.on_command | stored state", f.loc(st), f"stores {val}, expected COMMAND_TO_STATE[<cs byte>]")

    # NmtBase.send_command: state follows the table
    f = repo.func(NMT, "NmtBase.send_command", "C11.R2")
    ff = ff_for(chk, f, "C11.R2")
    for st in attr_stores(f.node, "_state"):
        val_e = st.value
        vname = None
        if isinstance(val_e, ast.Name) and ff.one_def(val_e.id) is not None:
            vname, val_e = val_e.id, ff.one_def(val_e.id)
        val = ff.norm(val_e, subst=False)
        facts = ff.facts_at(st)
        guard = any(p and src(e) == "code in COMMAND_TO_STATE" for e, p in facts)
        if val == "COMMAND_TO_STATE.get(code)" and vname is not None:
            # the look-up with .get(): "known command" is `<local> is not None`; a truth test would drop the commands whose state is 0
            present = any((src(e) == f"{vname} is not None" and p) or (src(e) == f"{vname} is None" and not p) for e, p in facts)
            truthy = any((src(e) == vname and p) or (src(e) == f"not {vname}" and not p) for e, p in facts)
            if truthy and not present:
                chk.bad("R2", f"{NMT}:NmtBase.send_command | stored state", f.loc(st),
                        f"the looked-up state `{vname}` is tested by truth value: state 0 (INITIALISING) is falsy, so Reset Node / Reset Communication leave the local state unchanged")
            else:
                chk.check(present, "R2", f"{NMT}:NmtBase.send_command | stored state", f.loc(st), f"stores COMMAND_TO_STATE.get(code) without `{vname} is not None`: undefined commands store None")
        else:
            chk.check(val == "COMMAND_TO_STATE[code]" and guard, "R2", f"{NMT}:NmtBase.send_command | stored state", f.loc(st),
                      f"stores {val} (guarded={guard}); expected COMMAND_TO_STATE[code] under `code in COMMAND_TO_STATE`")

    # R3 master frame
    f = repo.func(NMT, "NmtMaster.send_command", "C11.R3")
    ff = ff_for(chk, f, "C11.R3")
    sends = find_calls(f.node, ".send_message")
    chk.floor("R3", len(sends), 1, "send_message in NmtMaster.send_command")
    for c in sends:
        a0 = folder.try_fold(c.args[0], sc, None) if c.args else None
        a1 = c.args[1] if len(c.args) > 1 else None
        ok = a0 == 0 and isinstance(a1, (ast.List, ast.Tuple)) and [src(e) for e in a1.elts] == ["code", "self.id"] \
            and not c.keywords and len(c.args) == 2
        chk.check(ok, "R3", f"{NMT}:NmtMaster.send_command | frame", f.loc(c),
                  f"master sends {src(c)}; CiA 301 NMT frame is [cs, node id] on CAN id 0")
    wit = must_pass(ff.cfg, lambda n: node_calls(n, ".send_message"))
    chk.check(wit is None, "R3", f"{NMT}:NmtMaster.send_command | every path sends", f.loc(),
              f"a normal path returns without sending the frame: {path_text(wit) if wit else ''}")
    chk.check("code" in f.params and not any("code" in __import__("sa.facts", fromlist=["x"]).assigned_targets(n)
                                             for n in own_nodes(f.node) if isinstance(n, ast.stmt)),
              "R3", f"{NMT}:NmtMaster.send_command | code unchanged", f.loc(), "parameter `code` is reassigned before sending")

    # the master records the commanded state before the frame leaves: a boot-up or heartbeat answering the command (delivered by the
    # receive thread while send_message is still running) must not be overwritten by the bookkeeping of the command that caused it
    sup = [c for c in ast.walk(f.node) if isinstance(c, ast.Call) and isinstance(c.func, ast.Attribute) and c.func.attr == "send_command"
           and (src(c.func.value).startswith("super(") or src(c.func.value) == "NmtBase")]
    for c in sends:
        late = [u for u in sup if (u.lineno, u.col_offset) > (c.lineno, c.col_offset)]
        chk.check(not late, "R3", f"{NMT}:NmtMaster.send_command | own state recorded before the frame is sent", f.loc(c),
                  "the commanded state is recorded after send_message: the node's answer (boot-up after a reset) can arrive in between and is then overwritten, the master reports "
                  "INITIALISING for a node that is PRE-OPERATIONAL")
    # master and slave both apply the command to their own state (through NmtBase.send_command) on every normal path
    for cname in ("NmtMaster", "NmtSlave"):
        fx = repo.func(NMT, f"{cname}.send_command", "C11.R3")
        fxx = ff_for(chk, fx, "C11.R3")
        forms = {f"super({cname}, self).send_command(code)", "super().send_command(code)", "NmtBase.send_command(self, code)"}

        def applies(n, forms=forms):
            return n.ast is not None and n.kind == "stmt" and (any(isinstance(x, ast.Call) and src(x) in forms for x in ast.walk(n.ast))
                                                              or (isinstance(n.ast, ast.Assign) and src(n.ast) == "self._state = COMMAND_TO_STATE[code]"))
        wit = must_pass(fxx.cfg, applies)
        chk.check(wit is None, "R3", f"{NMT}:{cname}.send_command | own state follows the command", fx.loc(),
                  f"a normal path does not apply the command to the object's own state (NmtBase.send_command is not reached): {path_text(wit) if wit else ''}")

    # slave boot-up
    f = repo.func(NMT, "NmtSlave.send_command", "C11.R3")
    ff = ff_for(chk, f, "C11.R3")
    sends = find_calls(f.node, ".send_message")
    chk.floor("R3", len(sends), 1, "boot-up send in NmtSlave.send_command")
    for c in sends:
        a0 = ff.norm(c.args[0]) if c.args else "?"
        a1 = folder.try_fold(c.args[1], sc, None) if len(c.args) > 1 else None
        st = ff.stmt_of(c)
        guard = [src(e) for e, p in ff.facts_at(st) if p]
        ok = a0 in ("self.id + 1792", "1792 + self.id") and a1 == [0] and "self._state == 0" in guard
        chk.check(ok, "R3", f"{NMT}:NmtSlave.send_command | boot-up", f.loc(c),
                  f"boot-up frame is send_message({a0}, {a1}) under {guard}; expected (0x700 + id, [0]) exactly when the new state is 0")

    # R4 setter
    f = repo.func(NMT, "NmtBase.state.setter", "C11.R4")
    ff = ff_for(chk, f, "C11.R4")
    calls = find_calls(f.node, ".send_command")
    chk.floor("R4", len(calls), 1, "send_command in state setter")
    wit = must_pass(ff.cfg, lambda n: node_calls(n, ".send_command"))
    chk.check(wit is None, "R4", f"{NMT}:NmtBase.state.setter | every accepted name is sent", f.loc(),
              f"a normal path returns without send_command (the assignment is silently dropped): {path_text(wit) if wit else ''}")
    for c in calls:
        st = ff.stmt_of(c)
        guard = [src(e) for e, p in ff.facts_at(st) if p]
        arg = ff.norm(c.args[0]) if c.args else "?"
        chk.check("new_state in NMT_COMMANDS" in guard, "R4", f"{NMT}:NmtBase.state.setter | validate before send", f.loc(c),
                  f"send_command is reachable for a name outside NMT_COMMANDS (facts: {guard})")
        chk.check(arg == "NMT_COMMANDS[new_state]", "R4", f"{NMT}:NmtBase.state.setter | code", f.loc(c),
                  f"sends {arg}, expected NMT_COMMANDS[new_state]")
    # the rejecting path raises ValueError
    raises = [n for n in own_nodes(f.node) if isinstance(n, ast.Raise)]
    chk.check(any("ValueError" in src(r) for r in raises), "R4", f"{NMT}:NmtBase.state.setter | rejects", f.loc(),
              "no ValueError for invalid state names")

    # R5 heartbeat
    _heartbeat(chk, repo, folder, sc)
    # R6 waits
    _waits(chk, repo, folder, sc)

    # ------------------------------------------------------------------ R9 the state a master reports is the one the slave's heartbeat carries (shared with C17.R3)
    from . import c17 as _c17hb
    _c17hb.heartbeat_follows_state(chk, "R9")
    # ------------------------------------------------------------------ R8 instances are independent (shared clause)
    from . import shared as _shared
    _shared.isolation(chk, "R8", rels=['canopen/nmt.py'])


def _heartbeat(chk, repo, folder, sc):
    f = repo.func(NMT, "NmtMaster.on_heartbeat", "C11.R5")
    ff = ff_for(chk, f, "C11.R5")
    rd = ReachingDefs(ff.cfg)
    # find the variable unpacked from the frame
    raw_vars = set()
    for n in own_nodes(f.node):
        if isinstance(n, ast.Assign) and isinstance(n.value, ast.Call) and (dotted(n.value.func) or "").endswith("unpack_from"):
            fmt = folder.try_fold(n.value.args[0], sc, None)
            chk.check(fmt in ("B", "<B") and src(n.value.args[1]) == "data", "R5", f"{NMT}:NmtMaster.on_heartbeat | unpack",
                      f.loc(n), f"heartbeat byte decoded with {fmt!r} from {src(n.value.args[1])}")
            for t in n.targets:
                for e in (t.elts if isinstance(t, ast.Tuple) else [t]):
                    raw_vars.add(dotted(e))
    if not raw_vars:
        chk.unk("R5", f"{NMT}:NmtMaster.on_heartbeat | unpack", f.loc(), "no unpack of the heartbeat byte")
        return

    def masked(name, node) -> bool:
        """All definitions of `name` reaching `node` apply & 0x7F to a value derived from the frame."""
        defs = rd.defs_at(node, name)
        if not defs:
            return False
        for d in defs:
            if d is None:
                return False
            if isinstance(d, ast.AugAssign) and isinstance(d.op, ast.BitAnd) and folder.try_fold(d.value, sc, None) == 0x7F:
                continue
            if isinstance(d, ast.Assign) and isinstance(d.value, ast.BinOp) and isinstance(d.value.op, ast.BitAnd):
                ops = [d.value.left, d.value.right]
                if any(folder.try_fold(o, sc, None) == 0x7F for o in ops):
                    continue
            return False
        return True

    def uses_ok(expr, node, what, where):
        frame = f.params[2] if len(f.params) > 2 else "data"
        if any(isinstance(n, ast.Name) and n.id == frame for n in ast.walk(expr)):
            chk.bad("R5", f"{NMT}:NmtMaster.on_heartbeat | {what}", where,
                    f"`{src(expr)}` looks at the frame byte itself, without the 0x7F mask: the toggle bit is not ignored (0x80 is a boot-up message as well)")
            return False
        for nm in {n.id for n in ast.walk(expr) if isinstance(n, ast.Name)}:
            if nm in raw_vars or any(isinstance(d, (ast.AugAssign, ast.Assign)) for d in rd.defs_at(node, nm) if d is not None):
                derived = nm in raw_vars or True
                if derived and nm not in ("self",) and not masked(nm, node):
                    if nm in raw_vars or _derived_from(rd, node, nm, raw_vars):
                        chk.bad("R5", f"{NMT}:NmtMaster.on_heartbeat | {what}", where,
                                f"`{nm}` is used here without the 0x7F mask: the toggle bit is not ignored")
                        return False
        chk.ok("R5", f"{NMT}:NmtMaster.on_heartbeat | {what}", where)
        return True

    stores = attr_stores(f.node, "_state")
    chk.floor("R5", len(stores), 1, "stores of _state in on_heartbeat")
    saw_127 = saw_copy = False
    for st in stores:
        node = ff.cfg.node_of(st)
        v = folder.try_fold(st.value, sc, None)
        facts = ff.facts_at(st)
        if v is not None:
            saw_127 = saw_127 or v == 127
            zero_guard = [e.left for e, p in facts if p and isinstance(e, ast.Compare) and isinstance(e.ops[0], ast.Eq)
                          and folder.try_fold(e.comparators[0], sc, None) == 0]
            # `if not x:` is the same test for an integer
            zero_guard += [e for e, p in facts if not p and isinstance(e, (ast.Name, ast.Attribute))]
            chk.check(v == 127 and bool(zero_guard), "R5", f"{NMT}:NmtMaster.on_heartbeat | boot-up state", f.loc(st),
                      f"constant state {v} stored under {[(src(e), p) for e, p in facts]}; expected 127 (PRE-OPERATIONAL) exactly for a boot-up (0)")
            for e in zero_guard:
                uses_ok(e, _test_node(ff, e, node), "boot-up test", f.loc(st))
        else:
            saw_copy = True
            uses_ok(st.value, node, "reported state", f.loc(st))
    chk.check(saw_127 and saw_copy, "R5", f"{NMT}:NmtMaster.on_heartbeat | both cases", f.loc(),
              "expected one store of 127 for boot-up and one store of the masked state otherwise")
    for attr in ("_state", "_state_received"):
        sn = [ff.cfg.node_of(s_) for s_ in attr_stores(f.node, attr)]
        wit = must_pass(ff.cfg, lambda n: n in sn)
        chk.check(wit is None, "R5", f"{NMT}:NmtMaster.on_heartbeat | every heartbeat sets {attr}", f.loc(),
                  f"a heartbeat can leave self.{attr} untouched (e.g. when it repeats the previous value): after a command changed the local view "
                  f"the reported state is not taken over: {path_text(wit) if wit else ''}")
    for st in attr_stores(f.node, "_state_received"):
        uses_ok(st.value, ff.cfg.node_of(st), "_state_received", f.loc(st))
    # callbacks get the masked value
    for n in own_nodes(f.node):
        if isinstance(n, ast.Call) and dotted(n.func) == "callback":
            st = ff.stmt_of(n)
            for a in n.args:
                uses_ok(a, ff.cfg.node_of(st), "callback argument", f.loc(n))


def _derived_from(rd, node, name, raw_vars, depth=0) -> bool:
    if name in raw_vars:
        return True
    if depth > 4:
        return False
    for d in rd.defs_at(node, name):
        if d is None:
            continue
        val = d.value if isinstance(d, (ast.Assign, ast.AugAssign)) else None
        if val is None:
            continue
        for nm in {n.id for n in ast.walk(val) if isinstance(n, ast.Name)}:
            if nm in raw_vars:
                return True
    return False


def _test_node(ff, fact_expr, fallback):
    # the fact's variables are judged at the branch that established it; approximate by the store node (the
    # reaching definitions of a name tested in a dominating branch are the same unless it is reassigned between)
    return fallback


def _waits(chk, repo, folder, sc):
    f = repo.func(NMT, "NmtMaster.on_heartbeat", "C11.R6")
    cond = "self.state_update"
    for attr in ("_state", "_state_received", "timestamp"):
        for st in attr_stores(f.node, attr):
            chk.check(inside_with(f.node, st, cond), "R6", f"{NMT}:NmtMaster.on_heartbeat | {attr} under condition", f.loc(st),
                      f"self.{attr} is written outside `with {cond}`")
    notes = find_calls(f.node, ".notify_all") + find_calls(f.node, ".notify")
    chk.floor("R6", len(notes), 1, "notify in on_heartbeat")
    ff = ff_for(chk, f, "C11.R6")
    for c in notes:
        chk.check(inside_with(f.node, c, cond) and dotted(c.func).startswith(cond), "R6",
                  f"{NMT}:NmtMaster.on_heartbeat | notify under condition", f.loc(c), "notify outside the condition")
        # stores precede notify: no store of _state_received reachable after notify
        nnode = ff.cfg.node_of(ff.stmt_of(c))
        after = ff.cfg.reach_from(nnode, skip_exc=True)
        late = [n for n in after if n.kind == "stmt" and n.ast in attr_stores(f.node, "_state_received") + attr_stores(f.node, "_state")]
        chk.check(not late, "R6", f"{NMT}:NmtMaster.on_heartbeat | state before notify", f.loc(c),
                  "state is written after the waiters were notified")
    wit = must_pass(ff.cfg, lambda n: node_calls(n, ".notify_all") or node_calls(n, ".notify"))
    chk.check(wit is None, "R6", f"{NMT}:NmtMaster.on_heartbeat | every frame notifies", f.loc(),
              f"a path handles a heartbeat without waking waiters: {path_text(wit) if wit else ''}")

    # wait_for_heartbeat waits once and takes any wake-up for "a heartbeat arrived or the time is over": as long as it does not
    # re-check in a loop, nobody but on_heartbeat may notify the condition
    wh = repo.func(NMT, "NmtMaster.wait_for_heartbeat", "C11.R6")
    from .common import enclosing
    one_shot = any(not enclosing(wh.node, c, (ast.While, ast.For)) for c in find_calls(wh.node, ".wait") if dotted(c.func) == cond + ".wait")
    if one_shot:
        for cname, k in repo.mod(NMT, "C11.R6").classes.items():
            for mname, m in k.methods.items():
                if mname == "on_heartbeat":
                    continue
                for c in find_calls(m.node, ".notify_all") + find_calls(m.node, ".notify"):
                    if (dotted(c.func) or "").startswith(cond + "."):
                        chk.bad("R6", f"{NMT}:{cname}.{mname} | only a heartbeat wakes the waiters", m.loc(c),
                                f"`{src(c)}` wakes a thread blocked in wait_for_heartbeat(), which waits once and reads every wake-up as heartbeat-or-timeout: it raises NmtError "
                                f"although the time is not over and a heartbeat may still come")
    chk.ok("R6", f"{NMT} | only on_heartbeat notifies state_update", NMT, f"wait_for_heartbeat waits {'once' if one_shot else 'in a loop'}")
    for fname in ("wait_for_heartbeat", "wait_for_bootup"):
        f = repo.func(NMT, f"NmtMaster.{fname}", "C11.R6")
        ff = ff_for(chk, f, "C11.R6")
        waits = [c for c in find_calls(f.node, ".wait") if dotted(c.func) == cond + ".wait"]
        chk.floor("R6", len(waits), 1, f"condition wait in {fname}")
        for c in waits:
            chk.check(inside_with(f.node, c, cond), "R6", f"{NMT}:NmtMaster.{fname} | wait under condition", f.loc(c),
                      "wait() outside the condition")
        resets = [s for s in attr_stores(f.node, "_state_received") if folder.try_fold(s.value, sc, 1) is None]
        chk.check(bool(resets) and all(inside_with(f.node, s, cond) for s in resets), "R6",
                  f"{NMT}:NmtMaster.{fname} | predicate reset under condition", f.loc(),
                  "the received-state predicate is not reset inside the condition before waiting")
        for s in resets:
            for c in waits:
                a, b = ff.cfg.node_of(s), ff.cfg.node_of(ff.stmt_of(c))
                chk.check(ff.cfg.dominates(a, b), "R6", f"{NMT}:NmtMaster.{fname} | reset before wait", f.loc(s),
                          "reset does not precede the wait on every path")
        raises = [n for n in own_nodes(f.node) if isinstance(n, ast.Raise) and "NmtError" in src(n)]
        chk.check(bool(raises), "R6", f"{NMT}:NmtMaster.{fname} | NmtError on silence", f.loc(),
                  "no NmtError is raised when nothing arrives")
        if fname == "wait_for_heartbeat":
            for r in raises:
                guard = [src(e) for e, p in ff.facts_at(r) if p]
                chk.check("self._state_received is None" in guard, "R6", f"{NMT}:NmtMaster.{fname} | raise iff nothing received",
                          f.loc(r), f"NmtError raised under {guard}")
            rets = [n for n in own_nodes(f.node) if isinstance(n, ast.Return) and n.value is not None]
            for r in rets:
                guard = [src(e) for e, p in ff.facts_at(r) if p]
                chk.check("self._state_received is not None" in guard, "R6", f"{NMT}:NmtMaster.{fname} | return only after a message",
                          f.loc(r), f"returns a state although no message need have arrived (facts: {guard})")
        else:
            # leaves the loop only on boot-up (0) or by raising
            breaks = [n for n in own_nodes(f.node) if isinstance(n, ast.Break)]
            chk.floor("R6", len(breaks), 1, "loop exit in wait_for_bootup")
            for b in breaks:
                guard = [src(e) for e, p in ff.facts_at(b) if p]
                chk.check("self._state_received == 0" in guard, "R6", f"{NMT}:NmtMaster.{fname} | leaves on boot-up only",
                          f.loc(b), f"loop left under {guard}; expected `_state_received == 0`")
            for r in raises:
                guard = [ff.norm(e) for e, p in ff.facts_at(r) if p]
                chk.check(any(g in ("now > end_time", "end_time < now", "now >= end_time") for g in guard), "R6",
                          f"{NMT}:NmtMaster.{fname} | timeout", f.loc(r), f"NmtError raised under {guard}; expected a deadline test")
