"""Clauses that belong to the statements of several properties; each is decided once here and recorded under the
rule id the calling property gives it."""
from __future__ import annotations

import ast

from ..fold import Scope, dotted, src
from .common import (always_exits, attr_stores, ctx, ff_for, find_calls, must_pass, node_calls, own_nodes, path_text)

CL = "canopen/sdo/client.py"
SV = "canopen/sdo/server.py"
LN = "canopen/node/local.py"
NET = "canopen/network.py"
PB = "canopen/pdo/base.py"


def client_flush(chk, rule: str):
    """Stale responses are discarded completely before every request of SdoClient.request_response."""
    repo, folder = ctx(chk)
    rr = repo.func(CL, "SdoClient.request_response", f"{chk.prop}.{rule}")
    ff = ff_for(chk, rr, f"{chk.prop}.{rule}")
    site = f"{CL}:SdoClient.request_response"
    sends = [n for n in ff.cfg.nodes if node_calls(n, "self.send_request")]
    chk.floor(rule, len(sends), 1, "send_request in request_response")
    # complete flushes: a fresh queue, or a loop that drains until empty
    swaps = [n for n in ff.cfg.nodes if n.kind == "stmt" and isinstance(n.ast, ast.Assign) and dotted(n.ast.targets[0]) == "self.responses" and src(n.ast.value) == "queue.Queue()"]
    drains = [n for n in ff.cfg.nodes if n.kind == "test" and isinstance(getattr(n, "owner", None), ast.While) and ff.is_form(n.ast, "not self.responses.empty()")
              and any(isinstance(c, ast.Call) and src(c.func) in ("self.responses.get_nowait", "self.responses.get") for c in ast.walk(n.owner))]
    partial = [n for n in ff.cfg.nodes if n.kind == "stmt" and not isinstance(n.ast, ast.Assign) and any(
        isinstance(c, ast.Call) and src(c.func) in ("self.responses.get_nowait",) for c in ast.walk(n.ast))
        and not any(n.ast is x for d in drains for x in ast.walk(d.owner))]
    for p in partial:
        chk.bad(rule, f"{site} | stale responses flushed completely", rr.loc(p.ast),
                f"`{src(p.ast)[:60]}` drops a single queued frame: with two stale responses (two timed-out requests, a duplicated frame) the second is taken as the answer to this request")
    flushes = swaps + drains
    if not flushes:
        if not partial:
            chk.bad(rule, f"{site} | stale responses flushed", rr.loc(),
                    "no flush of the response queue before sending: a late or duplicated response of an earlier transfer is taken as the answer to this request")
        return
    for s_ in sends:
        ok = False
        for fl in flushes:
            # the flush (or the emptiness test that guards it) lies on every path to the send and is not after it
            guard = fl if fl.kind == "test" else next((t for t in ff.cfg.nodes if t.kind == "test" and ff.is_form(t.ast, "not self.responses.empty()", "self.responses.empty()")
                                                       and ff.cfg.dominates(t, fl)), None)
            if guard is not None and ff.cfg.dominates(guard, s_) and not any(fl is x or fl in ff.cfg.reach_from(x) and False for x in sends):
                # not only on the time-out path: the guard must be reachable from entry without passing a send
                before = must_pass(ff.cfg, lambda n: n in sends, to_nodes=[guard])
                if before is not None:
                    ok = True
        chk.check(ok, rule, f"{site} | flush precedes every request", rr.loc(s_.ast),
                  "the response queue is flushed only after a request was sent (e.g. on the time-out path): a response that arrives late stays queued and answers the next transfer")
    for fl in swaps:
        g = [(ff.norm(e, subst=False), p) for e, p in ff.facts_at(fl.ast)]
        chk.check((ff.canon("self.responses.empty()"), False) in g or not g, rule, f"{site} | flush when not empty", rr.loc(fl.ast), f"flush under {g}")
    receiver_uses_current_queue(chk, rule, CL, "SdoClient", "on_response", bool(swaps))


def receiver_uses_current_queue(chk, rule: str, rel: str, cname: str, recv: str, rebinding_flush: bool):
    """The frame handler puts a copy of every frame into the queue the reader waits on.  Where the flush works by
    rebinding `self.responses`, the handler has to look the queue up at call time: a bound `put` cached elsewhere keeps
    feeding the discarded queue and the client is deaf after the first flush."""
    repo, folder = ctx(chk)
    f = repo.func(rel, f"{cname}.{recv}", f"{chk.prop}.{rule}")
    chk.saw(f)
    data_p = f.params[2] if len(f.params) > 2 else "data"
    puts = [c for c in ast.walk(f.node) if isinstance(c, ast.Call) and src(c.func) in ("self.responses.put", "self.responses.put_nowait")]
    cls = repo.cls(rel, cname, f"{chk.prop}.{rule}")
    cached = {}
    for m in cls.methods.values():
        for n in own_nodes(m.node):
            if isinstance(n, ast.Assign) and isinstance(n.value, ast.Attribute) and src(n.value.value) == "self.responses" and isinstance(n.targets[0], ast.Attribute) and dotted(n.targets[0].value) == "self":
                cached[n.targets[0].attr] = (m, n)
    via_cache = [c for c in ast.walk(f.node) if isinstance(c, ast.Call) and isinstance(c.func, ast.Attribute) and dotted(c.func.value) == "self" and c.func.attr in cached]
    if via_cache and rebinding_flush:
        m, n = cached[via_cache[0].func.attr]
        chk.bad(rule, f"{rel}:{cname}.{recv} | frames go to the queue in use", f.loc(via_cache[0]),
                f"`{src(via_cache[0])[:50]}` calls the bound method cached by `{src(n)}` ({m.qualname}); the flush replaces self.responses by a new queue, so after the first "
                f"flush every response lands in the discarded queue and all later transfers time out")
        return
    chk.check(len(puts) == 1 and [src(a) for a in puts[0].args] == [f"bytes({data_p})"], rule, f"{rel}:{cname}.{recv} | frames go to the queue in use", f.loc(),
              f"{[src(c) for c in puts] or [src(c) for c in via_cache]}; expected self.responses.put(bytes({data_p}))")


def server_reset(chk, rule: str):
    """Both server initiate handlers start a segmented transfer from a fresh buffer and toggle 0."""
    repo, folder = ctx(chk)
    for fname in ("init_upload", "init_download"):
        f = repo.func(SV, f"SdoServer.{fname}", f"{chk.prop}.{rule}")
        fs = ff_for(chk, f, f"{chk.prop}.{rule}")
        site = f"{SV}:SdoServer.{fname}"

        def is_buf(n):
            a = n.ast
            if n.kind != "stmt":
                return False
            if isinstance(a, ast.Assign) and dotted(a.targets[0]) == "self._buffer":
                return not (isinstance(a.value, ast.Constant) and a.value.value is None)
            if isinstance(a, ast.Assign) and isinstance(a.targets[0], ast.Subscript) and dotted(a.targets[0].value) == "self._buffer" \
                    and isinstance(a.targets[0].slice, ast.Slice) and a.targets[0].slice.lower is None and a.targets[0].slice.upper is None:
                return True
            if isinstance(a, ast.Delete) and isinstance(a.targets[0], ast.Subscript) and dotted(a.targets[0].value) == "self._buffer":
                sl = a.targets[0].slice
                return isinstance(sl, ast.Slice) and sl.lower is None and sl.upper is None
            return node_calls(n, "self._buffer.clear")
        bufs = [n for n in fs.cfg.nodes if is_buf(n)]
        togs = [n for n in fs.cfg.nodes if n.kind == "stmt" and isinstance(n.ast, ast.Assign) and dotted(n.ast.targets[0]) == "self._toggle"
                and folder.try_fold(n.ast.value, Scope(f.mod), None) == 0]
        # the segmented branch: where the response announces a segmented transfer.  init_download: `not command & EXPEDITED`;
        # init_upload: the non-expedited branch.  Every path through that branch must reset buffer and toggle.
        seg_tests = [n for n in fs.cfg.nodes if n.kind == "test" and ("EXPEDITED" in src(n.ast) or "size <= 4" in src(n.ast) or "0 < size" in src(n.ast))]
        sends = [n for n in fs.cfg.nodes if node_calls(n, "self.send_response")]
        if fname == "init_upload":
            # segmented = every path to the response on which the EXPEDITED bit is not put into the response command
            exp_nodes = [n for n in fs.cfg.nodes if n.kind == "stmt" and isinstance(n.ast, (ast.AugAssign, ast.Assign)) and isinstance(getattr(n.ast, "value", None), ast.expr)
                         and any(folder.try_fold(x, Scope(f.mod), None) == 0x02 for x in ast.walk(n.ast.value) if isinstance(x, (ast.Name, ast.Constant)))]
            if exp_nodes:
                for what, nodes in (("buffer", bufs), ("toggle", togs)):
                    wit = must_pass(fs.cfg, lambda n: n in nodes or n in exp_nodes, to_nodes=sends)
                    cond_reset = [n for n in nodes if any(p and "is None" in src(e) and "_buffer" in src(e) for e, p in fs.facts_at(n.ast))]
                    chk.check(wit is None and bool(nodes) and not cond_reset, rule, f"{site} | fresh {what} for every segmented transfer", f.loc(),
                              f"a segmented transfer can start with the {what} left by an earlier, unfinished transfer"
                              + (f" (the reset is conditional: {src(cond_reset[0].ast)})" if cond_reset else f": {path_text(wit) if wit else 'no reset found'}"))
                continue
        if not seg_tests:
            chk.unk(rule, f"{site} | segmented branch", f.loc(), "expedited/segmented decision not found")
            continue
        t = seg_tests[0]
        for what, nodes in (("buffer", bufs), ("toggle", togs)):
            # from the F edge (segmented) of the decision to the response: must pass a reset
            start = [s for s, lab in t.succs if lab == "F"]
            wit = None
            for st in start:
                if st in nodes:
                    continue
                wit = must_pass(fs.cfg, lambda n: n in nodes, from_node=st, to_nodes=sends) or wit
            cond_reset = [n for n in nodes if any(p and "is None" in src(e) and "_buffer" in src(e) for e, p in fs.facts_at(n.ast))]
            chk.check(wit is None and bool(nodes) and not cond_reset, rule, f"{site} | fresh {what} for every segmented transfer", f.loc(t.ast),
                      f"a segmented transfer can start with the {what} left by an earlier, unfinished transfer"
                      + (f" (the reset is conditional: {src(cond_reset[0].ast)})" if cond_reset else f": {path_text(wit) if wit else 'no reset found'}"))
        for b in bufs:
            v = b.ast.value if isinstance(b.ast, ast.Assign) else None
            if fname == "init_download" and isinstance(b.ast, ast.Assign) and dotted(b.ast.targets[0]) == "self._buffer":
                chk.check(src(v) in ("bytearray()", "bytearray(b'')"), rule, f"{site} | download buffer starts empty", f.loc(b.ast), f"_buffer = {src(v)}")
    # nobody else clears or replaces the buffer conditionally on its old state
    sd = repo.func(SV, "SdoServer.segmented_download", f"{chk.prop}.{rule}")
    # the last segment commits the transfer whatever it carries (an empty last segment closes a transfer, too)
    fsd = ff_for(chk, sd, f"{chk.prop}.{rule}")
    for c in [x for x in own_nodes(sd.node) if isinstance(x, ast.Call) and dotted(x.func) == "self._node.set_data"]:
        g = [(fsd.norm(e, subst=False), p) for e, p in fsd.facts_at(fsd.stmt_of(c))]
        extra = [(t, p) for t, p in g if not (t == fsd.canon("command & NO_MORE_DATA") and p) and "self._toggle" not in t and "TOGGLE_BIT" not in t]
        chk.check(not extra, rule, f"{SV}:SdoServer.segmented_download | last segment always committed", sd.loc(c),
                  f"set_data for the completed download runs only under {extra}: a last segment for which that does not hold is acknowledged but the value is never stored")
    lazy = [n for n in own_nodes(sd.node) if isinstance(n, ast.If) and "_buffer" in src(n.test) and "None" in src(n.test)]
    chk.check(not lazy, rule, f"{SV}:SdoServer.segmented_download | no lazily created buffer", sd.loc(),
              f"`if {src(lazy[0].test)}` creates the buffer only when absent: data left by an unfinished transfer is prepended to the next download" if lazy else "")
    # whatever a segment handler advances (a position, a count, a remembered size) belongs to one transfer: the initiate handler of
    # that direction sets it, or a transfer that was abandoned half-way leaves its progress to the next one
    from .common import is_observational_stmt
    for seg, ini in (("segmented_upload", "init_upload"), ("segmented_download", "init_download")):
        fseg = repo.func(SV, f"SdoServer.{seg}", f"{chk.prop}.{rule}")
        fini = repo.func(SV, f"SdoServer.{ini}", f"{chk.prop}.{rule}")
        advanced = {}
        for st in own_nodes(fseg.node):
            if isinstance(st, (ast.Assign, ast.AugAssign)) and not is_observational_stmt(repo, st):
                for t in (st.targets if isinstance(st, ast.Assign) else [st.target]):
                    if isinstance(t, ast.Attribute) and dotted(t.value) == "self":
                        advanced.setdefault(t.attr, st)
        set_in_init = {t.attr for st in own_nodes(fini.node) if isinstance(st, (ast.Assign, ast.AugAssign)) for t in (st.targets if isinstance(st, ast.Assign) else [st.target])
                       if isinstance(t, ast.Attribute) and dotted(t.value) == "self"}
        for attr, st in sorted(advanced.items()):
            chk.check(attr in set_in_init, rule, f"{SV}:SdoServer.{ini} | per-transfer state self.{attr} is set when a transfer starts", fseg.loc(st),
                      f"{seg}() advances self.{attr} (`{src(st)[:50]}`) but {ini}() never sets it: after a transfer that was abandoned half-way the next one starts from the stale value")

    # what one initiate handler resets, the other resets too if its own direction consults it: per-transfer memory (a remembered
    # request, a retransmission record, a count) that only one direction clears is carried from a finished or abandoned transfer
    # into the first segment of the next transfer of the other direction.  Decided on the source as written.
    try:
        raw = ast.parse(repo.modules_by_rel[SV].src) if hasattr(repo, "modules_by_rel") else ast.parse(next(m for m in repo.modules.values() if m.rel == SV).src)
    except (SyntaxError, StopIteration):
        return
    sv = next((n for n in ast.walk(raw) if isinstance(n, ast.ClassDef) and n.name == "SdoServer"), None)
    if sv is None:
        return
    meths = {f_.name: f_ for f_ in sv.body if isinstance(f_, ast.FunctionDef)}
    if not all(k in meths for k in ("on_request", "init_upload", "init_download")):
        return

    def const_resets(fn):
        out = {}
        for n in ast.walk(fn):
            if isinstance(n, ast.Assign) and isinstance(n.value, ast.Constant):
                for t in n.targets:
                    if isinstance(t, ast.Attribute) and dotted(t.value) == "self":
                        out[t.attr] = n
        return out

    def reads_of(nodes, depth=2):
        got = set()
        for b in nodes:
            for x in ast.walk(b):
                if isinstance(x, ast.Attribute) and isinstance(x.ctx, ast.Load) and dotted(x.value) == "self":
                    got.add(x.attr)
                if depth and isinstance(x, ast.Call) and isinstance(x.func, ast.Attribute) and dotted(x.func.value) == "self" and x.func.attr in meths \
                        and x.func.attr not in ("abort", "send_response", "init_upload", "init_download"):
                    got |= reads_of(meths[x.func.attr].body, depth - 1)
        return got

    def seg_branch(direction):
        want = "REQUEST_SEGMENT_" + direction.upper()
        for n in ast.walk(meths["on_request"]):
            if isinstance(n, ast.If) and want in src(n.test):
                return n.body
        return []
    resets = {"upload": const_resets(meths["init_upload"]), "download": const_resets(meths["init_download"])}
    for d, other in (("upload", "download"), ("download", "upload")):
        consulted = reads_of(seg_branch(other))
        for attr, st in sorted(resets[d].items()):
            if attr in resets[other] or attr not in consulted:
                continue
            written_elsewhere = any(isinstance(n, ast.Assign) and not isinstance(n.value, ast.Constant) and any(isinstance(t, ast.Attribute) and t.attr == attr and dotted(t.value) == "self" for t in n.targets)
                                    for k_, f_ in meths.items() if k_ != "__init__" for n in ast.walk(f_))
            if not written_elsewhere:
                continue
            chk.bad(rule, f"{SV}:SdoServer.init_{other} | per-transfer memory self.{attr} is reset by both initiate handlers", f"{SV}:{meths['init_' + other].lineno}",
                    f"init_{d}() resets self.{attr} (`{src(st)}`) and the segment path of the {other} direction consults it, but init_{other}() leaves it alone: what was remembered "
                    f"during an earlier transfer answers for the first segment of the next {other}")


def store_exact(chk, rule: str):
    """LocalNode.set_data stores an immutable copy of exactly the payload it was given."""
    repo, folder = ctx(chk)
    sd = repo.func(LN, "LocalNode.set_data", f"{chk.prop}.{rule}")
    fs = ff_for(chk, sd, f"{chk.prop}.{rule}")
    stores = [n for n in fs.cfg.nodes if n.kind == "stmt" and isinstance(n.ast, ast.Assign) and "data_store" in src(n.ast.targets[0]) and src(n.ast.targets[0]).endswith("[subindex]")]
    chk.check(len(stores) == 1, rule, f"{LN}:LocalNode.set_data | one store of the value", sd.loc(), f"{[src(s.ast) for s in stores]}")
    for s_ in stores:
        v = src(s_.ast.value)
        chk.check(v in ("bytes(data)",), rule, f"{LN}:LocalNode.set_data | stores a copy of exactly the payload", sd.loc(s_.ast),
                  f"stores `{v}`: " + ("the caller's buffer itself (the server's segment buffer) is kept, later frames appended to it change the stored value" if v == "data" else "not bytes(data)"))
    wit = must_pass(fs.cfg, lambda n: n in stores)
    chk.check(wit is None, rule, f"{LN}:LocalNode.set_data | accepted write is stored", sd.loc(), f"{path_text(wit) if wit else ''}")
    # the store is the last thing that happens: a write callback that raises refuses the write (the client gets an abort), so no
    # callback may run once the value is in the store
    for s_ in stores:
        after = [n for n in fs.cfg.reach_from(s_, skip_exc=True) if n is not s_ and n.kind in ("stmt", "for") and (
            (n.kind == "for" and "callback" in src(n.ast.iter).lower()) or
            (n.kind == "stmt" and any(isinstance(c, ast.Call) and isinstance(c.func, ast.Name) and "callback" in c.func.id.lower() for c in ast.walk(n.ast))))]
        chk.check(not after, rule, f"{LN}:LocalNode.set_data | nothing that can refuse the write runs after the store", sd.loc(s_.ast),
                  f"`{src(after[0].ast)[:50]}` runs after the value was stored: a write callback that raises makes the server answer with an abort, but the refused "
                  f"value stays in data_store and is served to later reads" if after else "")
    from ..facts import assigned_targets
    reb = [n for n in own_nodes(sd.node) if isinstance(n, ast.stmt) and "data" in assigned_targets(n)]
    chk.check(not reb, rule, f"{LN}:LocalNode.set_data | payload not rebound", sd.loc(), f"{[src(r) for r in reb]}")


def subscribe_once(chk, rule: str):
    """Network.subscribe registers a callback at most once per id, compared by equality."""
    repo, folder = ctx(chk)
    sub = repo.func(NET, "Network.subscribe", f"{chk.prop}.{rule}")
    fs = ff_for(chk, sub, f"{chk.prop}.{rule}")
    apps = find_calls(sub.node, ".append")
    chk.floor(rule, len(apps), 1, "append in Network.subscribe")
    for c in apps:
        lst = src(c.func.value)
        g = [(fs.norm(e, subst=False), p) for e, p in fs.facts_at(fs.stmt_of(c))]
        ok = (fs.canon(f"callback not in {lst}"), True) in g
        chk.check(ok and lst == "self.subscribers[can_id]" and [src(a) for a in c.args] == ["callback"], rule,
                  f"{NET}:Network.subscribe | no-duplicate guard", sub.loc(c), f"`{src(c)}` under {g}: subscribing the same callback twice would duplicate delivery")
    for n in own_nodes(sub.node):
        if isinstance(n, ast.Compare) and any(isinstance(o, (ast.Is, ast.IsNot)) for o in n.ops):
            ops = [n.left] + n.comparators
            if any(isinstance(o, ast.Name) and o.id == "callback" for o in ops) and not any(isinstance(o, ast.Constant) and o.value is None for o in ops):
                chk.bad(rule, f"{NET}:Network.subscribe | callbacks compared by equality", sub.loc(n),
                        f"`{src(n)}` compares callbacks by identity; a bound method (map.on_message) is a new object on every access, so a second subscribe registers it again")


def listener_filter(chk, rule: str):
    repo, folder = ctx(chk)
    ml = repo.func(NET, "MessageListener.on_message_received", f"{chk.prop}.{rule}")
    fm = ff_for(chk, ml, f"{chk.prop}.{rule}")
    ns = find_calls(ml.node, ".notify")
    chk.floor(rule, len(ns), 1, "notify call in MessageListener")
    for c in ns:
        g = [(src(e), p) for e, p in fm.facts_at(fm.stmt_of(c))]
        chk.check(("msg.is_error_frame", False) in g and ("msg.is_remote_frame", False) in g, rule, f"{NET}:MessageListener.on_message_received | error and remote frames not dispatched",
                  ml.loc(c), f"notify reached under {g}: a remote (RTR) frame would be delivered to the PDO maps as an empty data frame")
        other = [(t, p) for t, p in g if "is_error_frame" not in t and "is_remote_frame" not in t]
        chk.check(not other, rule, f"{NET}:MessageListener.on_message_received | every data frame is dispatched", ml.loc(c),
                  f"notify additionally depends on {other}: data frames for which this does not hold (e.g. looped-back frames with is_rx False) never reach the subscribers")
        chk.check([src(a) for a in c.args] == ["msg.arbitration_id", "msg.data", "msg.timestamp"], rule, f"{NET}:MessageListener.on_message_received | id, data and timestamp handed on as received",
                  ml.loc(c), f"{src(c)}: subscribers such as PdoMap.on_message keep the data object and write into it; it must be the frame's own bytearray")
    wit = must_pass(fm.cfg, lambda n: node_calls(n, ".notify"),
                    skip_edge=lambda n, lab: n.kind == "test" and ("is_error_frame" in src(n.ast) or "is_remote_frame" in src(n.ast))
                    and lab == ("F" if isinstance(n.ast, ast.UnaryOp) and isinstance(n.ast.op, ast.Not) else "T"))
    chk.check(wit is None, rule, f"{NET}:MessageListener.on_message_received | data frames are dispatched on every path", ml.loc(), f"{path_text(wit) if wit else ''}")


def setdata_updates_task(chk, rule: str):
    repo, folder = ctx(chk)
    sd = repo.func(PB, "PdoVariable.set_data", f"{chk.prop}.{rule}")
    fsd = ff_for(chk, sd, f"{chk.prop}.{rule}")
    wit = must_pass(fsd.cfg, lambda n: node_calls(n, "pdo_parent.update"))
    chk.check(wit is None, rule, f"{PB}:PdoVariable.set_data | every write refreshes the periodic task", sd.loc(),
              f"a path changes the PDO data without pdo_parent.update(): a running cyclic transmission keeps the old payload: {path_text(wit) if wit else ''}")
    writes = [n for n in fsd.cfg.nodes if n.kind == "stmt" and isinstance(n.ast, ast.Assign) and isinstance(n.ast.targets[0], ast.Subscript)
              and src(n.ast.targets[0].value) == "self.pdo_parent.data"]
    chk.floor(rule, len(writes), 2, "stores into pdo_parent.data")
    for w in writes:
        wit = must_pass(fsd.cfg, lambda n: node_calls(n, "pdo_parent.update"), from_node=w)
        chk.check(wit is None, rule, f"{PB}:PdoVariable.set_data | task refreshed after `{src(w.ast)[:40]}`", sd.loc(w.ast),
                  "pdo_parent.update() runs before the data is changed: the cyclic transmission is refreshed with the old payload")


MUTABLE_CALLS = {"list", "dict", "set", "bytearray", "defaultdict", "OrderedDict", "deque", "queue.Queue", "Queue", "collections.deque",
                 "collections.defaultdict", "collections.OrderedDict", "array.array"}
MUTATORS = {"append", "extend", "insert", "pop", "remove", "clear", "update", "setdefault", "add", "discard", "popitem", "put", "put_nowait", "sort", "reverse",
            "appendleft", "popleft", "get_nowait"}
BUFFER_SINKS = {"pack_into", "readinto", "recv_into"}


def _is_mutable_value(val) -> bool:
    return isinstance(val, (ast.List, ast.Dict, ast.Set, ast.ListComp, ast.DictComp, ast.SetComp)) or \
        (isinstance(val, ast.Call) and (dotted(val.func) or "") in MUTABLE_CALLS)


def _subclasses(repo, c):
    return [k for m in repo.modules.values() for k in m.classes.values() if k is not c and c in repo.mro(k)]


def _mutations_of(fn_node, expr_src: str):
    """Statements/calls inside fn_node that mutate the object denoted by the expression text `expr_src` in place,
    directly or through a local alias bound to it."""
    hits = []
    aliases = {expr_src}
    for n in own_nodes(fn_node):
        if isinstance(n, ast.Assign) and len(n.targets) == 1 and isinstance(n.targets[0], ast.Name) and src(n.value) == expr_src:
            aliases.add(n.targets[0].id)
    for n in own_nodes(fn_node):
        if isinstance(n, (ast.Assign, ast.AugAssign, ast.Delete)):
            tg = n.targets if isinstance(n, (ast.Assign, ast.Delete)) else [n.target]
            for t in tg:
                if isinstance(t, ast.Subscript) and src(t.value) in aliases:
                    hits.append(n)
            if isinstance(n, ast.AugAssign) and src(n.target) in aliases:
                hits.append(n)
        if isinstance(n, ast.Call) and isinstance(n.func, ast.Attribute):
            if src(n.func.value) in aliases and n.func.attr in MUTATORS:
                hits.append(n)
            if n.func.attr in BUFFER_SINKS and any(src(a) in aliases for a in n.args[:2]):
                hits.append(n)
    return hits


def _mutable_default_escape(fn_node, is_method: bool = True):
    """(parameter, default, offending node) when a parameter whose default is a mutable literal / constructor ([] {} set() list()
    dict() bytearray() deque()) is stored into an attribute or container, mutated in place, or returned -- without having been
    re-bound first.  Reading it, iterating it, copying it (`list(p)`, `dict(p)`, `p.copy()`) is harmless."""
    a = fn_node.args
    pos = a.posonlyargs + a.args
    pairs = list(zip(pos[len(pos) - len(a.defaults):], a.defaults)) + [(p_, d_) for p_, d_ in zip(a.kwonlyargs, a.kw_defaults) if d_ is not None]
    for p_, d_ in pairs:
        if not _is_mutable_value(d_):
            continue
        name = p_.arg
        if any(isinstance(x, ast.Name) and x.id == name and isinstance(x.ctx, ast.Store) for x in ast.walk(fn_node)):
            continue                    # re-bound somewhere (`p = p or []` / `if p is None`): not decided here
        for n in own_nodes(fn_node):
            if isinstance(n, (ast.Assign, ast.AnnAssign)) and n.value is not None and isinstance(n.value, ast.Name) and n.value.id == name:
                tg = n.targets if isinstance(n, ast.Assign) else [n.target]
                if any(isinstance(t, (ast.Attribute, ast.Subscript)) for t in tg):
                    return (name, d_, n)
            if isinstance(n, ast.Return) and isinstance(n.value, ast.Name) and n.value.id == name:
                return (name, d_, n)
            if not is_method:
                continue                # a plain function filling in its own default argument changes no object's state (what later
                #                         calls of that function see is outside "instances are independent")
            if isinstance(n, ast.Call) and isinstance(n.func, ast.Attribute) and isinstance(n.func.value, ast.Name) and n.func.value.id == name and n.func.attr in MUTATORS:
                return (name, d_, n)
            if isinstance(n, (ast.Assign, ast.AugAssign, ast.Delete)):
                tg = n.targets if isinstance(n, (ast.Assign, ast.Delete)) else [n.target]
                if any(isinstance(t, ast.Subscript) and isinstance(t.value, ast.Name) and t.value.id == name for t in tg):
                    return (name, d_, n)
    return None


def isolation(chk, rule: str, rels=None):
    """No class keeps state in a mutable class-level object that instances mutate in place (every instance, i.e. every
    node / client / map / dictionary, would share it), and the codec objects shared through class-level tables are
    stateless.  `rels`: module paths whose classes matter to the calling property (None = whole package)."""
    repo, folder = ctx(chk)
    n_cls = 0
    # attribute names defined per instance somewhere (to avoid blaming `x.name.add()` on a class that merely shares the name)
    inst_attrs = {}
    for m in repo.modules.values():
        for c in m.classes.values():
            ini = c.methods.get("__init__")
            if ini is not None:
                for n in own_nodes(ini.node):
                    if isinstance(n, (ast.Assign, ast.AnnAssign)):
                        for t in (n.targets if isinstance(n, ast.Assign) else [n.target]):
                            if isinstance(t, ast.Attribute) and dotted(t.value) == "self":
                                inst_attrs.setdefault(t.attr, set()).add(c.name)
    for m in repo.modules.values():
        if rels is not None and m.rel not in rels:
            continue
        for c in m.classes.values():
            n_cls += 1
            for name, val in c.consts.items():
                if not _is_mutable_value(val):
                    continue
                family = [c] + _subclasses(repo, c)
                rebound = any("__init__" in k.methods and any(isinstance(n, (ast.Assign, ast.AnnAssign)) and any(
                    dotted(t) == f"self.{name}" for t in (n.targets if isinstance(n, ast.Assign) else [n.target])) for n in own_nodes(k.methods["__init__"].node)) for k in family)
                if rebound:
                    continue
                hits = []
                for k in family:
                    for meth in k.methods.values():
                        for h in _mutations_of(meth.node, f"self.{name}"):
                            hits.append((meth, h))
                # mutation through another object's attribute chain (`od.device_information.allowed_baudrates.add(...)`)
                if not hits and name not in inst_attrs:
                    for m2 in repo.modules.values():
                        for f2 in list(m2.funcs.values()) + [mm for cc in m2.classes.values() for mm in cc.methods.values()]:
                            for n in own_nodes(f2.node):
                                if isinstance(n, ast.Call) and isinstance(n.func, ast.Attribute) and n.func.attr in MUTATORS and isinstance(n.func.value, ast.Attribute) \
                                        and n.func.value.attr == name and dotted(n.func.value.value) not in ("self", None):
                                    hits.append((f2, n))
                if hits:
                    meth, n = hits[0]
                    chk.bad(rule, f"{m.rel}:{c.name}.{name} | shared mutable class attribute", meth.loc(n),
                            f"`{name} = {src(val)}` is one class-level object and `{src(n)[:60]}` mutates it in place: every instance of {c.name} shares it, "
                            f"so what one node / client / map / dictionary does shows up in all the others")
    chk.ok(rule, f"{'package' if rels is None else ', '.join(sorted(rels))} | no class-level mutable state mutated in place", "canopen/", f"scanned {n_cls} classes")
    # an object is constructed once: a method that re-runs the constructor wipes what was registered on it since (callbacks,
    # condition variables threads are waiting on, subscriptions)
    for m in repo.modules.values():
        if rels is not None and m.rel not in rels:
            continue
        for c in m.classes.values():
            for mname, meth in c.methods.items():
                if mname == "__init__":
                    continue
                for x in own_nodes(meth.node):
                    if isinstance(x, ast.Call) and dotted(x.func) in ("self.__init__", f"{c.name}.__init__"):
                        chk.bad(rule, f"{m.rel}:{c.name}.{mname} | the constructor runs once", meth.loc(x),
                                f"`{src(x)[:40]}` re-initialises a live object: callbacks registered on it are forgotten and threads waiting on its condition variable "
                                f"are never woken (they wait on the old one)")
    # a mutable default argument is one object for all calls: stored on the instance (or mutated, or returned) it is shared by
    # every instance / call that relies on the default
    n_def = 0
    for m in repo.modules.values():
        if rels is not None and m.rel not in rels:
            continue
        for f2 in list(m.funcs.values()) + [mm for cc in m.classes.values() for mm in cc.methods.values()]:
            hit = _mutable_default_escape(f2.node, f2.cls is not None)
            n_def += 1
            if hit is not None:
                pname, dflt, how = hit
                chk.bad(rule, f"{m.rel}:{f2.qualname} | default of `{pname}` is one shared object", f2.loc(how),
                        f"`{pname}={src(dflt)}` is created once, and `{src(how)[:60]}` keeps or changes that object: every call (every node / consumer / map) "
                        f"that relies on the default shares it, so what one of them registers or stores shows up in all the others")
    chk.ok(rule, f"{'package' if rels is None else ', '.join(sorted(rels))} | no mutable default argument kept or mutated", "canopen/", f"scanned {n_def} functions")
    logging_inert(chk, rule, rels)
    none_is_not_zero(chk, rule, rels)
    lock_discipline(chk, rule, rels)
    memo_soundness(chk, rule, rels)
    tdef = ast.parse("class S:\n    def __init__(self, callbacks=[]):\n        self.callbacks = callbacks\n").body[0].body[0]
    chk.fixture(rule, "mutable default stored on the instance", _mutable_default_escape(tdef) is not None)
    t = ast.parse("class S:\n    _buffer = bytearray()\n    def f(self, d):\n        b = self._buffer\n        b[:] = d\n")
    chk.fixture(rule, "class-level bytearray mutated through an alias", _is_mutable_value(t.body[0].body[0].value) and bool(_mutations_of(t.body[0].body[1], "self._buffer")))


def read_mapping_loop(chk, rule: str):
    """PdoMap.read(): the old mapping is cleared first, sub-indices 1..count are decoded, and every non-empty entry
    (index and size non-zero -- any size 1..64) becomes a variable through add_variable(index, subindex, size)."""
    repo, folder = ctx(chk)
    from .common import enclosing
    read = repo.func(PB, "PdoMap.read", f"{chk.prop}.{rule}")
    fr = ff_for(chk, read, f"{chk.prop}.{rule}")
    fsc = Scope(read.mod, read.cls)
    # the mapping loop of read(): cleared first, sub-indices 1..count, one add_variable per non-empty entry
    clears = [n for n in fr.cfg.nodes if n.kind == "stmt" and isinstance(n.ast, ast.Expr) and isinstance(n.ast.value, ast.Call)
              and dotted(n.ast.value.func) == "self.clear"]
    adds = find_calls(read.node, "self.add_variable")
    chk.floor(rule, len(adds), 1, "add_variable in read")
    for c in adds:
        st = fr.stmt_of(c)
        cn = fr.cfg.node_of(st)
        chk.check(any(fr.cfg.dominates(x, cn) for x in clears), rule, f"{PB}:PdoMap.read | old mapping cleared first", read.loc(c),
                  "no self.clear() dominates add_variable(): entries of a previous read()/configuration stay in the map")
        chk.check([src(a) for a in c.args] == ["index", "subindex", "size"] and not c.keywords, rule, f"{PB}:PdoMap.read | add_variable arguments", read.loc(c),
                  f"{src(c)}; expected add_variable(index, subindex, size)")
        g = [(fr.norm(e, subst=False), p) for e, p in fr.facts_at(st)]
        guards = [(t, p) for t, p in g if "curtis_hack" not in t]
        pos = {t for t, p in guards if p}
        from .common import conj_of_facts, substitute_src
        gexpr = conj_of_facts([(e, p) for e, p in fr.facts_at(st) if "curtis_hack" not in src(e)])
        verdict, wrong = True, []
        for iv in (0, 1, 0x1000, 0x6041):
            for sv in (0, 1, 7, 8, 16, 32, 63, 64):
                r = folder.try_fold(substitute_src(gexpr, {"index": iv, "size": sv}), fsc, "?")
                if r == "?":
                    verdict = None
                    break
                if bool(r) != (iv != 0 and sv != 0):
                    wrong.append((hex(iv), sv, bool(r)))
            if verdict is None:
                break
        if verdict is None:
            chk.check(all(p for _, p in guards) and pos <= {"index", "size", "index and size", "size and index"} and pos, rule,
                      f"{PB}:PdoMap.read | entry kept when non-empty", read.loc(c), f"add_variable() runs under {guards}; expected `index and size`")
        else:
            chk.check(not wrong, rule, f"{PB}:PdoMap.read | entry kept when non-empty", read.loc(c),
                      f"add_variable() runs under {guards}: for (index, bit length) {[(a, b) for a, b, _ in wrong][:4]} the entry is {'kept' if wrong and wrong[0][2] else 'dropped'}; "
                      f"every entry with a non-zero index and 1..64 bits is a mapped object",
                      "guard evaluated for 4 indexes x 8 bit lengths")
        loops = enclosing(read.node, st, (ast.For,))
        chk.check(len(loops) == 1, rule, f"{PB}:PdoMap.read | mapping loop", read.loc(c), "add_variable() is not inside exactly one loop")
        for lp in loops[:1]:
            it = lp.iter
            okr = (isinstance(it, ast.Call) and dotted(it.func) == "range" and len(it.args) == 2 and folder.try_fold(it.args[0], fsc, None) == 1)
            cnt_name = None
            if okr:
                hi = it.args[1]
                hs = fr.norm(hi, subst=False)
                m = [nm for nm in [x.id for x in ast.walk(hi) if isinstance(x, ast.Name)]]
                okr = len(m) == 1 and hs in (f"{m[0]} + 1", f"1 + {m[0]}")
                cnt_name = m[0] if m else None
            chk.check(okr, rule, f"{PB}:PdoMap.read | sub-indices 1..count", read.loc(lp), f"loop over `{src(it)}`; expected range(1, count + 1)")
            if cnt_name:
                d = fr.one_def(cnt_name)
                chk.check(d is not None and src(d) == "_raw_from(self.map_array[0])", rule, f"{PB}:PdoMap.read | count source", read.loc(lp),
                          f"{cnt_name} = {src(d) if d is not None else '?'}; expected _raw_from(self.map_array[0])")
            lv = src(lp.target)
            # the local that holds the mapping word (whatever it is called)
            vals = [n for n in own_nodes(lp) if isinstance(n, ast.Assign) and isinstance(n.targets[0], ast.Name) and isinstance(n.value, ast.Call) and dotted(n.value.func) == "_raw_from"]
            chk.check(len(vals) == 1 and src(vals[0].value) == f"_raw_from(self.map_array[{lv}])" and vals[0] is lp.body[0], rule,
                      f"{PB}:PdoMap.read | entry source", read.loc(lp), f"mapping word = {[src(v.value) for v in vals]}; expected _raw_from(self.map_array[{lv}]) as the first statement of the loop")



def mapping_length_exact(chk, rule: str):
    """PdoMap.add_variable takes a given bit length as it is (it is what the device's mapping word says and what save() writes back)."""
    repo, folder = ctx(chk)
    av = repo.func(PB, "PdoMap.add_variable", f"{chk.prop}.{rule}")
    fa = ff_for(chk, av, f"{chk.prop}.{rule}")
    ln = [n for n in own_nodes(av.node) if isinstance(n, (ast.Assign, ast.AugAssign)) and src(n.targets[0] if isinstance(n, ast.Assign) else n.target) == "var.length"]
    chk.floor(rule, len(ln), 1, "custom length store in add_variable")
    for n in ln:
        g = [(fa.norm(e, subst=False), p) for e, p in fa.facts_at(n) if "length" in src(e)]
        ok = isinstance(n, ast.Assign) and src(n.value) == "length" and g in ([("length is not None", True)], [("length is None", False)])
        chk.check(ok, rule, f"{PB}:PdoMap.add_variable | a given bit length is used as given", av.loc(n),
                  f"`{src(n)}` under {g}: the field would not have the length of the mapping entry (read/save no longer round-trip, neighbouring fields shift)")
    for c in find_calls(av.node, "self._get_variable"):
        chk.check([src(a) for a in c.args] == ["index", "subindex"], rule, f"{PB}:PdoMap.add_variable | object looked up by the given index and sub-index", av.loc(c), src(c))
    # every entry is a variable made for this mapping: an object carried over from an earlier mapping keeps the bit length (and
    # offset) it had there, unless add_variable sets all of it again
    cls = repo.cls(PB, "PdoMap", f"{chk.prop}.{rule}")
    gv = cls.methods.get("_get_variable") or cls.methods.get("_PdoMap__get_variable")
    host = gv if gv is not None else av
    rets = [r for r in own_nodes(host.node) if isinstance(r, ast.Return) and isinstance(r.value, ast.Name)] if gv is not None else []
    names = {r.value.id for r in rets} if gv is not None else {"var"}
    for nm in sorted(names):
        defs = [n for n in own_nodes(host.node) if isinstance(n, ast.Assign) and any(isinstance(t, ast.Name) and t.id == nm for t in n.targets)]
        stale = [d for d in defs if not (isinstance(d.value, ast.Call) and (dotted(d.value.func) or "").split(".")[-1] in ("PdoVariable", "_get_variable", "_PdoMap__get_variable"))]
        chk.check(bool(defs) and not stale, rule, f"{PB}:{host.qualname} | each mapping entry is a new PdoVariable", host.loc(stale[0]) if stale else host.loc(),
                  f"`{src(stale[0])[:60]}` hands out an existing object for the new entry: it keeps the bit length of the mapping it was made for (a 4-bit field stays 4 bits when the "
                  f"object is mapped again whole), so offsets and the frame length come out wrong" if stale else "no definition found")


def fill_map_complete(chk, rule: str):
    """PdoMap._fill_map(needed) leaves at least `needed` entries in the map, all of them all-zero dummies."""
    repo, folder = ctx(chk)
    fm = repo.func(PB, "PdoMap._fill_map", f"{chk.prop}.{rule}")
    chk.saw(fm)
    sc = Scope(fm.mod, fm.cls)
    from .common import substitute_src
    loops = [n for n in own_nodes(fm.node) if isinstance(n, (ast.While, ast.For))]
    appends = [c for c in find_calls(fm.node, "self.map.append")]
    if len(loops) != 1 or len(appends) != 1 or not any(c is x for c in appends for x in ast.walk(loops[0])):
        chk.unk(rule, f"{PB}:PdoMap._fill_map | shape", fm.loc(), "expected one loop appending one dummy per iteration")
        return
    lp = loops[0]
    p = fm.params[1]
    if isinstance(lp, ast.While):
        t = ast.unparse(lp.test)
        ok = t in (f"len(self.map) < {p}", f"{p} > len(self.map)") and not any(isinstance(x, ast.Break) for x in ast.walk(lp))
        chk.check(ok, rule, f"{PB}:PdoMap._fill_map | fills up to the required number of entries", fm.loc(lp), f"loop condition `{t}`")
    else:
        wrong = None
        for k in range(0, 4):
            for n in range(0, 9):
                it = folder.try_fold(substitute_src(lp.iter, {"len(self.map)": k, p: n}), sc, None)
                if it is None:
                    chk.unk(rule, f"{PB}:PdoMap._fill_map | loop `{src(lp.iter)}`", fm.loc(lp), "iteration count cannot be evaluated")
                    return
                if len(list(it)) != max(0, n - k):
                    wrong = wrong or (k, n, len(list(it)))
        chk.check(wrong is None, rule, f"{PB}:PdoMap._fill_map | fills up to the required number of entries", fm.loc(lp),
                  f"with {wrong[0]} mapped and {wrong[1]} required the loop adds {wrong[2]} dummies, not {max(0, wrong[1] - wrong[0])}: the highest slot keeps its old mapping" if wrong else "",
                  "iteration count evaluated for 0..3 mapped x 0..8 required")
    zero = [n for n in own_nodes(fm.node) if isinstance(n, ast.Assign) and src(n.targets[0]).endswith(".length")]
    chk.check(len(zero) == 1 and folder.try_fold(zero[0].value, sc, None) == 0, rule, f"{PB}:PdoMap._fill_map | dummy entries have length 0", fm.loc(), f"{[src(z) for z in zero]}")
    mk = [c for c in ast.walk(fm.node) if isinstance(c, ast.Call) and (dotted(c.func) or "").endswith("ODVariable")]
    chk.check(len(mk) == 1 and [folder.try_fold(a, sc, None) for a in mk[0].args[1:3]] == [0, 0], rule, f"{PB}:PdoMap._fill_map | dummy object 0x0000:00", fm.loc(), f"{[src(c) for c in mk]}")


_TYPED_SPEC = set("dxXobeEfFgGn%c")


def _enclosing_name(raw, node):
    best = None
    for f_ in ast.walk(raw):
        if isinstance(f_, (ast.FunctionDef, ast.ClassDef)) and f_.lineno <= node.lineno <= (f_.end_lineno or f_.lineno):
            if best is None or f_.lineno >= best.lineno:
                best = f_
    if best is None:
        return "<module>"
    owner = next((k.name + "." for k in ast.walk(raw) if isinstance(k, ast.ClassDef) and best in k.body), "")
    return owner + best.name


def _log_lookup_can_fail(folder, m, raw, call, sub):
    """None when `TABLE[idx]` inside a logging call is known not to raise; else a reason.  TABLE must fold to a dict of the module
    (anything else is not decided here).  Safe: a literal key of the table; a local whose every definition in the function takes its
    value out of another constant table whose values are all keys; a look-up guarded by `idx in TABLE` or by a KeyError handler."""
    table = folder.try_fold(sub.value, Scope(m), None)
    if not isinstance(table, dict):
        return None
    idx = sub.slice
    k = folder.try_fold(idx, Scope(m), None)
    if k is not None and not isinstance(idx, (ast.Name, ast.Attribute)):
        return None if k in table else f"for the key {k!r}"
    fn = None
    for f_ in ast.walk(raw):
        if isinstance(f_, ast.FunctionDef) and f_.lineno <= call.lineno <= (f_.end_lineno or f_.lineno) and (fn is None or f_.lineno >= fn.lineno):
            fn = f_
    if fn is None:
        return None
    isrc = ast.unparse(idx)
    # guarded by membership or by a KeyError handler
    for n in ast.walk(fn):
        if isinstance(n, ast.If) and any(call is x for b in n.body for x in ast.walk(b)):
            t = ast.unparse(n.test)
            if f"{isrc} in {ast.unparse(sub.value)}" in t and "not in" not in t:
                return None
        if isinstance(n, ast.Try) and any(call is x for b in n.body for x in ast.walk(b)) and any(
                h.type is None or any(nm in ast.unparse(h.type) for nm in ("KeyError", "LookupError", "Exception")) for h in n.handlers):
            return None
    if isinstance(idx, ast.Name):
        defs = [n for n in ast.walk(fn) if isinstance(n, ast.Assign) and any(isinstance(t, ast.Name) and t.id == idx.id for t in n.targets)]
        if defs and all(isinstance(d.value, ast.Subscript) and isinstance(folder.try_fold(d.value.value, Scope(m), None), dict)
                        and set(folder.try_fold(d.value.value, Scope(m), None).values()) <= set(table) for d in defs):
            return None
        # anything else (a helper's result, a guarded .get(), a parameter) is not decided here
        return None
    if isinstance(idx, ast.Attribute) and isinstance(idx.value, ast.Name) and idx.value.id == "self":
        # state kept on the object: every store to it in the module must be a value known to be a key
        stores = [n for n in ast.walk(raw) if isinstance(n, ast.Assign) and any(isinstance(t, ast.Attribute) and t.attr == idx.attr and isinstance(t.value, ast.Name) and t.value.id == "self" for t in n.targets)]
        outside = []
        for st in stores:
            v = folder.try_fold(st.value, Scope(m), None)
            if v is not None and v in table:
                continue
            if isinstance(st.value, ast.Subscript) and isinstance(folder.try_fold(st.value.value, Scope(m), None), dict) \
                    and set(folder.try_fold(st.value.value, Scope(m), None).values()) <= set(table):
                continue
            if isinstance(st.value, ast.Name):
                f2 = next((f_ for f_ in ast.walk(raw) if isinstance(f_, ast.FunctionDef) and any(st is y for y in ast.walk(f_))), None)
                d2 = [n for n in ast.walk(f2) if isinstance(n, ast.Assign) and any(isinstance(t, ast.Name) and t.id == st.value.id for t in n.targets)] if f2 else []
                if d2 and all(isinstance(d.value, ast.Subscript) and isinstance(folder.try_fold(d.value.value, Scope(m), None), dict)
                              and set(folder.try_fold(d.value.value, Scope(m), None).values()) <= set(table) for d in d2):
                    continue
            outside.append(st)
        if outside:
            return f"when {isrc} holds a value that is not a key of the table -- `{ast.unparse(outside[0])[:50]}` (line {outside[0].lineno}) stores values the table does not list"
    return None


def logging_inert(chk, rule: str, rels=None):
    """The canonical form drops logging statements because no property speaks about log output.  That is only sound while a
    logging statement cannot change behaviour: with lazy %-style arguments a formatting error is swallowed by the logging
    package, but an f-string / str.format / eager % with a typed presentation (`{value:d}`, `{x:04X}`) is evaluated before
    the call and raises TypeError/ValueError into the data path for a value of another type (a float where `:d` is used)."""
    repo, folder = ctx(chk)
    n_calls = 0
    # functions / properties of the package whose evaluation can fail arithmetically (a division by something that is not a literal)
    def _divides(node):
        return [x for x in ast.walk(node) if isinstance(x, ast.BinOp) and isinstance(x.op, (ast.Div, ast.FloorDiv, ast.Mod)) and not isinstance(x.right, ast.Constant)
                and not (isinstance(x.left, ast.Constant) and isinstance(x.left.value, (str, bytes))) and not isinstance(x.left, ast.JoinedStr)]
    dividing = {}
    for m_ in repo.modules.values():
        for f_ in list(m_.funcs.values()) + [mm for cc in m_.classes.values() for mm in cc.methods.values()]:
            if _divides(f_.node):
                dividing.setdefault(f_.name, f_)
    for m in repo.modules.values():
        if rels is not None and m.rel not in rels:
            continue
        try:
            raw = ast.parse(m.src)
        except SyntaxError:
            continue
        for c in ast.walk(raw):
            if not (isinstance(c, ast.Call) and isinstance(c.func, ast.Attribute) and isinstance(c.func.value, ast.Name) and c.func.value.id in ("logger", "logging")
                    and c.func.attr in ("debug", "info", "warning", "warn", "error", "exception", "critical", "log")):
                continue
            n_calls += 1
            for a in list(c.args) + [k.value for k in c.keywords]:
                for x in ast.walk(a):
                    bad = None
                    if isinstance(x, ast.FormattedValue) and x.format_spec is not None:
                        spec = "".join(p.value for p in x.format_spec.values if isinstance(p, ast.Constant) and isinstance(p.value, str))
                        if spec and spec[-1] in _TYPED_SPEC and not isinstance(x.value, ast.Constant):
                            bad = f"f-string field `{{{ast.unparse(x.value)}:{spec}}}`"
                    elif isinstance(x, ast.BinOp) and isinstance(x.op, ast.Mod) and isinstance(x.left, ast.Constant) and isinstance(x.left.value, str) \
                            and any(t in x.left.value for t in ("%d", "%x", "%X", "%0", "%f", "%e", "%g", "%c")):
                        bad = f"eager `{ast.unparse(x)[:40]}`"
                    elif isinstance(x, ast.Call) and isinstance(x.func, ast.Attribute) and x.func.attr == "format" and isinstance(x.func.value, ast.Constant) \
                            and isinstance(x.func.value.value, str) and any(f":{t}}}" in x.func.value.value or f"{t}}}" in x.func.value.value.split(":")[-1] for t in "dxXf"):
                        bad = f"eager `{ast.unparse(x)[:40]}`"
                    if bad is None and x in _divides(a):
                        bad = f"the division `{ast.unparse(x)[:40]}` (ZeroDivisionError for a zero divisor)"
                    elif bad is None and isinstance(x, ast.Attribute) and isinstance(x.ctx, ast.Load) and x.attr in dividing and isinstance(x.value, ast.Name) and x.value.id == "self" \
                            and dividing[x.attr].kind in ("getter", "method", "static", "function"):
                        bad = f"`{ast.unparse(x)}` evaluates {dividing[x.attr].qualname}, which divides (ZeroDivisionError for a zero divisor); it"
                    if bad is None and isinstance(x, ast.Subscript) and isinstance(x.ctx, ast.Load) and isinstance(x.value, ast.Name):
                        why = _log_lookup_can_fail(folder, m, raw, c, x)
                        if why:
                            chk.bad(rule, f"{m.rel}:{_enclosing_name(raw, c)} | table look-up `{ast.unparse(x)}` in a log argument cannot fail", f"{m.rel}:{c.lineno}",
                                    f"`{ast.unparse(x)}` is evaluated before the {c.func.attr}() call and raises KeyError {why}: the exception leaves the operation at the log "
                                    f"statement, before the statements that follow it (the state change, the frame) are carried out")
                            break
                    if bad:
                        chk.bad(rule, f"{m.rel}:{c.lineno} | logging statement cannot raise", f"{m.rel}:{c.lineno}",
                                f"{bad} is formatted eagerly inside a {c.func.attr}() call: a value of another type (float, None) raises here, in the middle of the operation, "
                                f"where the lazy `%`-style arguments it replaces were harmless")
                        break
    chk.ok(rule, f"{'package' if rels is None else ', '.join(sorted(rels))} | logging statements are inert", "canopen/", f"{n_calls} logging calls scanned")


def pdo_lookup(chk, rule: str):
    """PdoMap item access designates variables of the *current* mapping, the first one in map order for an object index or a
    name that occurs more than once (several sub-objects of one index are a common mapping)."""
    repo, folder = ctx(chk)
    cls = repo.cls(PB, "PdoMap", f"{chk.prop}.{rule}")
    gi = cls.methods.get("__getitem__")
    if gi is None:
        chk.unk(rule, f"{PB}:PdoMap.__getitem__", f"{PB}:{cls.node.lineno}", "no __getitem__")
        return
    search, todo = {"__getitem__": gi}, [gi]
    while todo:
        cur = todo.pop()
        for c in ast.walk(cur.node):
            if isinstance(c, ast.Call) and isinstance(c.func, ast.Attribute) and dotted(c.func.value) == "self":
                nm = c.func.attr
                cand = [k for k in cls.methods if k == nm or k == f"_PdoMap{nm}" or nm == f"_PdoMap{k}"]
                for k in cand:
                    if k not in search:
                        search[k] = cls.methods[k]
                        todo.append(cls.methods[k])
    for m in search.values():
        chk.saw(m)
    ini = cls.methods.get("__init__")
    containers = set()
    if ini is not None:
        for n in own_nodes(ini.node):
            if isinstance(n, ast.Assign) and isinstance(n.targets[0], ast.Attribute) and dotted(n.targets[0].value) == "self" and _is_mutable_value(n.value):
                containers.add(n.targets[0].attr)
    secondary = set()
    for m in search.values():
        for x in ast.walk(m.node):
            if isinstance(x, ast.Attribute) and dotted(x.value) == "self" and x.attr in containers and x.attr != "map":
                secondary.add(x.attr)
    # (i) secondary indexes follow the map
    for sec in sorted(secondary):
        for mname, m in cls.methods.items():
            if mname == "__init__":
                continue
            resets_map = [n for n in own_nodes(m.node) if (isinstance(n, ast.Assign) and any(dotted(t) == "self.map" for t in n.targets))
                          or (isinstance(n, ast.Expr) and isinstance(n.value, ast.Call) and src(n.value.func) == "self.map.clear")]
            if not resets_map:
                continue
            resets_sec = [n for n in own_nodes(m.node) if (isinstance(n, ast.Assign) and any(dotted(t) == f"self.{sec}" for t in n.targets))
                          or (isinstance(n, ast.Expr) and isinstance(n.value, ast.Call) and src(n.value.func) == f"self.{sec}.clear")]
            chk.check(bool(resets_sec), rule, f"{PB}:PdoMap.{mname} | lookup table self.{sec} follows the mapping", m.loc(resets_map[0]),
                      f"`{src(resets_map[0])[:40]}` starts a new mapping but self.{sec}, which item access reads, keeps the variables of the old one: "
                      f"after clear()/read() a lookup by name or index returns a variable with the previous offset and length")
    # (ii) first match in map order
    n_forms = 0
    def over_map(m_, it):
        """Does the loop iterate the current map in map order (directly, or a list/tuple/filtered list comprehension of it)?"""
        for _ in range(3):
            if src(it) == "self.map":
                return True
            if isinstance(it, ast.Name):
                ds = [n for n in own_nodes(m_.node) if isinstance(n, ast.Assign) and len(n.targets) == 1 and src(n.targets[0]) == it.id]
                if len(ds) != 1:
                    return False
                it = ds[0].value
                continue
            if isinstance(it, ast.Call) and dotted(it.func) in ("list", "tuple") and len(it.args) == 1:
                it = it.args[0]
                continue
            if isinstance(it, (ast.ListComp, ast.GeneratorExp)) and len(it.generators) == 1 and isinstance(it.generators[0].target, ast.Name) \
                    and src(it.elt) == it.generators[0].target.id:
                it = it.generators[0].iter          # [v for v in self.map if ...]: a sub-sequence in map order
                continue
            return False
        return False
    for mname, m in search.items():
        for lp in [n for n in own_nodes(m.node) if isinstance(n, ast.For) and over_map(m, n.iter)]:
            v = src(lp.target)
            for r in [x for x in ast.walk(lp) if isinstance(x, ast.Return) and x.value is not None and src(x.value) == v]:
                n_forms += 1
        for dc in [n for n in ast.walk(m.node) if isinstance(n, ast.DictComp) and any(src(g.iter) == "self.map" for g in n.generators)]:
            n_forms += 1
            chk.bad(rule, f"{PB}:PdoMap.{mname} | item access returns the first match in map order", m.loc(dc),
                    f"`{src(dc)[:70]}` keeps the LAST variable for a key that occurs more than once; with several sub-objects of one index mapped (0x3004:1, :2, :3) "
                    f"map[0x3004] designates a different variable than before")
        for c in [n for n in ast.walk(m.node) if isinstance(n, ast.Call) and dotted(n.func) == "next" and n.args and isinstance(n.args[0], ast.GeneratorExp)
                  and any(src(g.iter) == "self.map" for g in n.args[0].generators)]:
            n_forms += 1
    if not secondary:
        chk.floor(rule, n_forms, 1, "searches over self.map in PdoMap item access")
    pos = [n for n in ast.walk(gi.node) if isinstance(n, ast.Subscript) and src(n.value) == "self.map"]
    chk.check(len(pos) >= 1, rule, f"{PB}:PdoMap.__getitem__ | access by position reads the current map", gi.loc(), "no self.map[<position>] in __getitem__")


def readinto_delivers_all(chk, rule: str, cname: str):
    """readinto() hands every byte it took from the wire to the caller: the segment returned by read() is stored whole
    and its length reported (a segment that does not fit must raise, never be cut: the rest would be lost silently)."""
    repo, folder = ctx(chk)
    f = repo.func(CL, f"{cname}.readinto", f"{chk.prop}.{rule}")
    ff = ff_for(chk, f, f"{chk.prop}.{rule}")
    bp = f.params[1]
    reads = [n for n in own_nodes(f.node) if isinstance(n, ast.Assign) and isinstance(n.value, ast.Call) and dotted(n.value.func) == "self.read"]
    chk.check(len(reads) == 1 and isinstance(reads[0].targets[0], ast.Name), rule, f"{CL}:{cname}.readinto | one segment per call", f.loc(), f"{[src(r) for r in reads]}")
    if len(reads) != 1 or not isinstance(reads[0].targets[0], ast.Name):
        return
    d = reads[0].targets[0].id
    stores = [n for n in own_nodes(f.node) if isinstance(n, ast.Assign) and isinstance(n.targets[0], ast.Subscript) and src(n.targets[0].value) == bp]
    rets = [n for n in own_nodes(f.node) if isinstance(n, ast.Return) and n.value is not None]
    ok_store = len(stores) == 1 and src(stores[0].value) == d and src(stores[0].targets[0]) in (f"{bp}[:len({d})]", f"{bp}[0:len({d})]")
    chk.check(ok_store, rule, f"{CL}:{cname}.readinto | the whole segment is stored", f.loc(stores[0] if stores else None),
              f"{[src(s_) for s_ in stores]}: bytes of the segment that are not stored are gone (the segment was already consumed from the bus); the caller gets data with bytes missing "
              f"and no error")
    chk.check(len(rets) == 1 and src(rets[0].value) == f"len({d})", rule, f"{CL}:{cname}.readinto | reports the segment's length", f.loc(), f"{[src(r) for r in rets]}")
    # ... which presupposes that the buffer handed to readinto() holds a whole segment: the BufferedReader that open() puts on top of
    # the stream asks for `buffer_size` bytes at a time, so every buffering value open() accepts must give it at least 7 bytes
    op = repo.func(CL, "SdoClient.open", f"{chk.prop}.{rule}")
    chk.saw(op)
    readers = [c for c in own_nodes(op.node) if isinstance(c, ast.Call) and (dotted(c.func) or "").endswith("BufferedReader")]
    chk.floor(rule, len(readers), 1, "io.BufferedReader in SdoClient.open")
    for c in readers:
        size_e = next((k.value for k in c.keywords if k.arg == "buffer_size"), c.args[1] if len(c.args) > 1 else None)
        if size_e is None:
            chk.ok(rule, f"{CL}:SdoClient.open | the read buffer holds a whole segment", op.loc(c), "default buffer size")
            continue
        defs = {}
        for n in own_nodes(op.node):
            if isinstance(n, ast.Assign) and len(n.targets) == 1 and isinstance(n.targets[0], ast.Name):
                defs.setdefault(n.targets[0].id, []).append(n.value)
        small = []
        undecided = None
        for k in (2, 3, 4, 5, 6, 7, 8, 64, 1024, -1):
            env = {"buffering": k, "io": None}
            try:
                for nm, vs in defs.items():
                    if len(vs) == 1 and any(isinstance(x, ast.Name) and x.id == nm for x in ast.walk(size_e)):
                        env[nm] = _fold_io(folder, op, vs[0], env)
                v = _fold_io(folder, op, size_e, env)
            except Exception as e:  # noqa
                undecided = str(e)
                break
            if isinstance(v, int) and 0 < v < 7:
                small.append((k, v))
        if undecided is not None:
            chk.unk(rule, f"{CL}:SdoClient.open | the read buffer holds a whole segment", op.loc(c), f"`{src(size_e)}` does not evaluate for the buffering values: {undecided}")
        else:
            chk.check(not small, rule, f"{CL}:SdoClient.open | the read buffer holds a whole segment", op.loc(c),
                      f"open(..., buffering={small[0][0] if small else ''}) gives the BufferedReader {small[0][1] if small else ''} bytes: readinto() then has to store a 7-byte segment into a "
                      f"shorter buffer, `{bp}[:len({d})] = {d}` raises ValueError and the upload fails for a caller that reads in chunks")


def _fold_io(folder, func, expr, env):
    """fold an expression of SdoClient.open with `io.DEFAULT_BUFFER_SIZE` taken as 8192"""
    e2 = ast.parse(src(expr).replace("io.DEFAULT_BUFFER_SIZE", "8192"), mode="eval").body
    return folder.fold(e2, Scope(func.mod, None, dict(env)))


def pdo_subscribe(chk, rule: str):
    """PdoMap.subscribe(): an enabled map is registered for (cob_id, on_message) every time it runs (Network.subscribe is
    idempotent), a disabled one never; nothing else is registered or removed here."""
    repo, folder = ctx(chk)
    sub = repo.func(PB, "PdoMap.subscribe", f"{chk.prop}.{rule}")
    fs = ff_for(chk, sub, f"{chk.prop}.{rule}")
    calls = find_calls(sub.node, ".subscribe")
    chk.floor(rule, len(calls), 1, "network.subscribe in PdoMap.subscribe")
    for c in calls:
        g = [src(e) for e, p in fs.facts_at(fs.stmt_of(c)) if p]
        args = [src(a) for a in c.args]
        recv = c.func.value
        if isinstance(recv, ast.Name) and fs.one_def(recv.id) is not None:
            recv = fs.one_def(recv.id)
        chk.check("self.enabled" in g, rule, f"{PB}:PdoMap.subscribe | only when enabled", sub.loc(c), f"subscribes under {g}")
        chk.check(args == ["self.cob_id", "self.on_message"] and src(recv) == "self.pdo_node.network", rule,
                  f"{PB}:PdoMap.subscribe | what", sub.loc(c), f"{src(c)}; expected self.pdo_node.network.subscribe(self.cob_id, self.on_message)")
    sub_nodes = [n for n in fs.cfg.nodes if node_calls(n, ".subscribe") and not node_calls(n, ".unsubscribe")]
    wit = must_pass(fs.cfg, lambda n: n in sub_nodes,
                    skip_edge=lambda n, lab: n.kind == "test" and ((src(n.ast) == "self.enabled" and lab == "F") or (src(n.ast) == "not self.enabled" and lab == "T")))
    chk.check(wit is None, rule, f"{PB}:PdoMap.subscribe | an enabled map is registered on every call", sub.loc(),
              f"a path of an enabled map returns without network.subscribe() (e.g. because the map remembers having subscribed): after the node moved to another network, or "
              f"the network's table was cleared, subscribe()/read()/save() silently do nothing: {path_text(wit) if wit else ''}")
    for c in find_calls(sub.node, ".unsubscribe"):
        chk.check(len(c.args) >= 2, rule, f"{PB}:PdoMap.subscribe | removes at most its own handler", sub.loc(c),
                  f"`{src(c)[:60]}` without a callback removes every subscriber of that COB-ID, also the maps of other nodes that listen to it")


def cob_id_fields(chk, rule: str):
    """PdoMap.read(): identifier, enabled and rtr_allowed are the three fields of the COB-ID word read from sub-index 1 -- decided
    by forward substitution through the straight-line statements after that read and evaluation for probe words (a local that is
    masked in between is seen as masked)."""
    repo, folder = ctx(chk)
    from .c05 import _forward as _fwd
    from .common import substitute_src as _ssrc, attr_stores
    from ..fold import Unfoldable as _Unf
    read = repo.func(PB, "PdoMap.read", f"{chk.prop}.{rule}")
    fsc = Scope(read.mod, read.cls)
    top = [st for st in read.node.body if not isinstance(st, (ast.FunctionDef, ast.ClassDef))]
    straight = []
    for st in top:
        if isinstance(st, (ast.Assign, ast.AugAssign)):
            straight.append(st)
        elif straight:
            break
    RAW = "_raw_from(self.com_record[1])"
    env_names, stores_seen = {}, {}
    for st in straight:
        if isinstance(st, ast.Assign) and len(st.targets) == 1 and dotted(st.targets[0]) in ("self.cob_id", "self.enabled", "self.rtr_allowed"):
            e_, _o = _fwd([ast.Assign(targets=[ast.Name(id="__v", ctx=ast.Store())], value=st.value)], env_names)
            stores_seen[dotted(st.targets[0])[5:]] = (e_["__v"], st)
        else:
            env_names, _o = _fwd([st], env_names)
    probes = (0x00000181, 0x40000181, 0x80000181, 0xC0000181, 0x000007FF, 0x9FFFFFFF, 0x5FFFFFFF, 0x00000000)
    for attr, want in (("cob_id", lambda w: w & 0x1FFFFFFF), ("enabled", lambda w: not w & (1 << 31)), ("rtr_allowed", lambda w: not w & (1 << 30))):
        chk.floor(rule, len(attr_stores(read.node, attr)), 1, f"store of {attr} in read")
        if attr not in stores_seen:
            chk.unk(rule, f"{PB}:PdoMap.read | {attr}", read.loc(), f"self.{attr} is not set by the straight-line statements after the read of sub-index 1")
            continue
        e_, st = stores_seen[attr]
        if RAW not in src(e_):
            chk.bad(rule, f"{PB}:PdoMap.read | {attr}", read.loc(st), f"self.{attr} = {src(e_)} is not computed from {RAW}")
            continue
        wrong = None
        for w in probes:
            try:
                v = folder.fold(_ssrc(e_, {RAW: w}), fsc)
            except _Unf as ex_:
                wrong = ("unknown", str(ex_))
                break
            if attr == "cob_id":
                bad_v = v != want(w)
            else:
                bad_v = not isinstance(v, bool) or v != bool(want(w))
            if bad_v:
                wrong = ("bad", f"for the COB-ID word {w:#010x} self.{attr} becomes {v!r}; expected {want(w)!r} (computed as {src(e_)})")
                break
        if wrong and wrong[0] == "unknown":
            chk.unk(rule, f"{PB}:PdoMap.read | {attr}", read.loc(st), f"`{src(e_)}` does not evaluate: {wrong[1]}")
        else:
            chk.check(wrong is None, rule, f"{PB}:PdoMap.read | {attr}", read.loc(st), wrong[1] if wrong else "", f"evaluated for {len(probes)} COB-ID words")


def notify_params_unchanged(chk, rule: str):
    """Network.notify hands the frame's own id, data and timestamp to the callbacks: none of the three parameters is re-bound on
    the way, except to fill in a value that was not given (`if timestamp is None: timestamp = ...`) -- a truth-value test instead
    would replace the legal values 0 / 0.0 / b'' as well."""
    repo, folder = ctx(chk)
    NETR = "canopen/network.py"
    no = repo.func(NETR, "Network.notify", f"{chk.prop}.{rule}")
    fn = ff_for(chk, no, f"{chk.prop}.{rule}")
    from ..facts import assigned_targets
    bad = None
    for n in own_nodes(no.node):
        if not isinstance(n, ast.stmt):
            continue
        hit = {"can_id", "data", "timestamp"} & assigned_targets(n)
        if not hit or isinstance(n, (ast.For, ast.While, ast.If, ast.With, ast.Try)):
            continue
        for nm in hit:
            facts = [(fn.norm(e, subst=False), p) for e, p in fn.facts_at(n)]
            if not any((t == f"{nm} is None" and p) or (t == f"{nm} is not None" and not p) for t, p in facts):
                bad = bad or (n, nm, facts)
    chk.check(bad is None, rule, f"{NETR}:Network.notify | parameters unchanged", no.loc(bad[0]) if bad else no.loc(),
              f"`{src(bad[0])[:60]}` replaces the frame's {bad[1]} under {bad[2]}: callbacks (PDO maps, EMCY log, heartbeat) get something else than the frame carried"
              + (" -- a truth-value test also replaces a legal 0 / 0.0" if bad and any(t in (bad[1], f"not {bad[1]}") for t, _ in bad[2]) else "") if bad else "")


def sdo_address_unchanged(chk, rule: str):
    """The object addressed on the wire is the one the caller named: SdoClient.open / upload / download and the stream constructors
    do not re-bind `index` or `subindex` -- except to translate a name (`isinstance(index, str)` in force), the only input for which
    the number has to come from somewhere else."""
    repo, folder = ctx(chk)
    CLI = "canopen/sdo/client.py"
    from ..facts import assigned_targets
    n = 0
    for fq in ("SdoClient.open", "SdoClient.upload", "SdoClient.download", "ReadableStream.__init__", "WritableStream.__init__",
               "BlockUploadStream.__init__", "BlockDownloadStream.__init__"):
        f = repo.func(CLI, fq, f"{chk.prop}.{rule}")
        ff = ff_for(chk, f, f"{chk.prop}.{rule}")
        n += 1
        for st in own_nodes(f.node):
            if not isinstance(st, (ast.Assign, ast.AugAssign, ast.AnnAssign)):
                continue
            hit = {"index", "subindex"} & assigned_targets(st)
            for nm in sorted(hit):
                facts = [(e, p) for e, p in ff.facts_at(st)]
                named = any(p and isinstance(e, ast.Call) and dotted(e.func) == "isinstance" and len(e.args) == 2 and src(e.args[0]) == nm and "str" in src(e.args[1]) for e, p in facts)
                chk.check(named, rule, f"{CLI}:{fq} | {nm} is the caller's", f.loc(st),
                          f"`{src(st)[:60]}` replaces the {nm} given by the caller (conditions {[(src(e), p) for e, p in facts]}): the request on the wire addresses another object "
                          f"than the one asked for")
    chk.ok(rule, f"{CLI} | index / subindex reach the request unchanged", CLI, f"{n} functions scanned")


def pdo_collection_lookup(chk, rule: str):
    """PdoBase.__getitem__ (tpdo['Name'], rpdo[0x6041]) searches the maps as they are now, in map order: every `<m>[key]` it evaluates
    has <m> bound by the loop over self.map.values() -- a remembered answer (a cache of where the key was found last time) goes
    stale when an earlier map gains the object or the remembered map loses it."""
    repo, folder = ctx(chk)
    from .common import enclosing
    f = repo.func(PB, "PdoBase.__getitem__", f"{chk.prop}.{rule}")
    chk.saw(f)
    key = f.params[1] if len(f.params) > 1 else "key"
    subs = [n for n in ast.walk(f.node) if isinstance(n, ast.Subscript) and isinstance(n.ctx, ast.Load) and src(n.slice) == key and src(n.value) != "self.map"]
    chk.floor(rule, len([n for n in subs if isinstance(n.value, ast.Name)]), 1, "per-map lookups in PdoBase.__getitem__")
    for n in subs:
        loops = [lp for lp in enclosing(f.node, n, (ast.For,)) if isinstance(lp.target, ast.Name) and isinstance(n.value, ast.Name) and lp.target.id == n.value.id]
        ok = any(src(lp.iter) in ("self.map.values()", "list(self.map.values())", "tuple(self.map.values())") for lp in loops)
        chk.check(ok, rule, f"{PB}:PdoBase.__getitem__ | `{src(n)}` looks into a map of the current search", f.loc(n),
                  f"`{src(n.value)}` is not bound by a loop over self.map.values() here: the answer comes from somewhere else than the maps in their current order and configuration "
                  f"(a remembered answer is stale as soon as a map is re-configured through another view of the same maps)")


_ARITH = (ast.Add, ast.Sub, ast.Mult, ast.Div, ast.FloorDiv, ast.Mod, ast.LShift, ast.RShift, ast.BitAnd, ast.BitOr, ast.BitXor, ast.Pow)
_NUMERIC_MAKERS = {"int", "float", "len", "bytearray", "bytes", "time.time", "time.monotonic", "round", "abs", "min", "max", "sum"}
_REF_CACHE = {}


def _reference_funcs(rel):
    import json, os
    if "ref" not in _REF_CACHE:
        pth = os.path.join(os.path.dirname(os.path.dirname(os.path.abspath(__file__))), "reference.json")
        try:
            _REF_CACHE["ref"] = json.load(open(pth))
        except (OSError, ValueError):
            _REF_CACHE["ref"] = {}
    return _REF_CACHE["ref"].get(rel, {}).get("funcs", {})


def _truth_operands(test):
    if isinstance(test, ast.UnaryOp) and isinstance(test.op, ast.Not):
        return _truth_operands(test.operand)
    if isinstance(test, ast.BoolOp):
        return [o for v in test.values for o in _truth_operands(v)]
    if isinstance(test, (ast.Name, ast.Attribute)):
        return [test]
    return []


def _tested_by_truth(fn_node):
    """[(operand node, holder node)] for every name / attribute whose truth value decides something in fn_node: tests of if / while /
    conditional expressions / assert, and the non-final operands of `a or b` / `a and b` used as values."""
    out = []
    for n in ast.walk(fn_node):
        if isinstance(n, (ast.If, ast.While, ast.IfExp, ast.Assert)):
            out += [(o, n.test) for o in _truth_operands(n.test)]
        elif isinstance(n, ast.BoolOp):
            for v in n.values[:-1]:
                out += [(o, n) for o in _truth_operands(v)]
        elif isinstance(n, ast.comprehension):
            for c in n.ifs:
                out += [(o, c) for o in _truth_operands(c)]
    return out


def none_is_not_zero(chk, rule: str, rels=None):
    """A quantity that may be None *and* may legally be 0 / 0.0 / empty (a number, a time stamp, a byte string) must be tested with
    `is None`: a truth-value test takes the legal 0 for "absent".  Reported only where the current tree introduces such a test (the
    pinned tree's function does not test that name by truth value): names that are None-able (parameter default None, assigned
    None in the function / class) and for which the code itself shows numeric or byte-string use (annotation, arithmetic, ordered
    comparison, int()/len()/bytearray() construction)."""
    repo, folder = ctx(chk)
    n_fn = 0
    for m in repo.modules.values():
        if rels is not None and m.rel not in rels:
            continue
        ref = _reference_funcs(m.rel)
        for f in list(m.funcs.values()) + [mm for cc in m.classes.values() for mm in cc.methods.values()]:
            n_fn += 1
            a = f.node.args
            pos = a.posonlyargs + a.args
            pd = list(zip(pos[len(pos) - len(a.defaults):], a.defaults)) + [(p_, d_) for p_, d_ in zip(a.kwonlyargs, a.kw_defaults) if d_ is not None]
            noneable = {p_.arg for p_, d_ in pd if isinstance(d_, ast.Constant) and d_.value is None}
            numeric = {p_.arg for p_ in pos + a.kwonlyargs if p_.annotation is not None and any(t in ast.unparse(p_.annotation) for t in ("int", "float", "bytes", "bytearray"))
                       and not any(t in ast.unparse(p_.annotation) for t in ("Callable", "List", "Dict", "Iterable[", "Sequence["))}
            scope_nodes = [f.node] if f.cls is None else [mm.node for mm in f.cls.methods.values()]
            for sn in scope_nodes:
                for n in ast.walk(sn):
                    if isinstance(n, ast.Assign):
                        for t in n.targets:
                            if not (isinstance(t, ast.Attribute) and dotted(t.value) == "self") and not (isinstance(t, ast.Name) and sn is f.node):
                                continue
                            if isinstance(n.value, ast.Constant) and n.value.value is None:
                                noneable.add(src(t))
                            v = n.value
                            if (isinstance(v, ast.Constant) and isinstance(v.value, (int, float, bytes)) and not isinstance(v.value, bool)) or \
                                    (isinstance(v, ast.BinOp) and isinstance(v.op, _ARITH) and not isinstance(v.left, (ast.Constant, ast.JoinedStr)) ) or \
                                    (isinstance(v, ast.Call) and (dotted(v.func) or "") in _NUMERIC_MAKERS):
                                numeric.add(src(t))
                    elif isinstance(n, ast.AugAssign) and isinstance(n.op, _ARITH):
                        numeric.add(src(n.target))
                    elif isinstance(n, ast.BinOp) and isinstance(n.op, _ARITH) and not (isinstance(n.left, ast.Constant) and isinstance(n.left.value, str)):
                        for o in (n.left, n.right):
                            if isinstance(o, (ast.Name, ast.Attribute)) and (isinstance(o, ast.Attribute) or sn is f.node):
                                numeric.add(src(o))
                    elif isinstance(n, ast.Compare) and any(isinstance(o, (ast.Lt, ast.LtE, ast.Gt, ast.GtE)) for o in n.ops):
                        for o in [n.left] + n.comparators:
                            if isinstance(o, (ast.Name, ast.Attribute)) and (isinstance(o, ast.Attribute) or sn is f.node):
                                numeric.add(src(o))
            cand = noneable & numeric
            if not cand:
                continue
            rf = ref.get(f.qualname)
            old = set()
            if rf is not None:
                try:
                    old = {src(o) for o, _h in _tested_by_truth(ast.parse(rf.get("src", "")))}
                except SyntaxError:
                    old = set()
            for o, holder in _tested_by_truth(f.node):
                nm = src(o)
                if nm in cand and nm not in old:
                    chk.bad(rule, f"{f.key} | `{nm}` may be None and may be 0: tested with `is None`", f.loc(holder),
                            f"`{src(holder)[:70]}` decides by the truth value of {nm}, which is None when absent but can also be a legal 0 / 0.0 / empty value "
                            f"(numeric or byte-string use elsewhere in the {'class' if f.cls is not None else 'function'}): the legal zero is handled as if nothing had been given")
                    break
    chk.ok(rule, f"{'package' if rels is None else ', '.join(sorted(rels))} | no new truth-value test of a None-able number", "canopen/", f"scanned {n_fn} functions")


def lock_discipline(chk, rule: str, rels=None):
    """A lock that is not re-entrant (`threading.Lock()`) is not held while user callbacks run: a callback that calls back into the
    object (a write callback that writes another entry, a receive callback that reads a variable) would block on the lock its own
    thread holds -- the operation never completes and the receive thread is stuck for every later frame.  Looked for in the source as
    written (the canonical form flattens fresh locks)."""
    repo, folder = ctx(chk)
    plain = set()
    for m in repo.modules.values():
        try:
            raw = ast.parse(m.src)
        except SyntaxError:
            continue
        for n in ast.walk(raw):
            is_plain = isinstance(n, ast.Assign) and isinstance(n.value, ast.Call) and (
                ((dotted(n.value.func) or "") in ("threading.Lock", "Lock") and not n.value.args) or
                ((dotted(n.value.func) or "") in ("threading.Condition", "Condition") and len(n.value.args) == 1 and isinstance(n.value.args[0], ast.Call)
                 and (dotted(n.value.args[0].func) or "") in ("threading.Lock", "Lock")))      # a condition over a non-re-entrant lock
            if is_plain:
                for t in n.targets:
                    if isinstance(t, ast.Attribute):
                        plain.add(t.attr)
    n_with = 0
    for m in repo.modules.values():
        if rels is not None and m.rel not in rels:
            continue
        try:
            raw = ast.parse(m.src)
        except SyntaxError:
            continue
        for w in [n for n in ast.walk(raw) if isinstance(n, ast.With)]:
            held = [it.context_expr.attr for it in w.items if isinstance(it.context_expr, ast.Attribute) and it.context_expr.attr in plain]
            if not held:
                continue
            n_with += 1
            for lp in [x for b in w.body for x in ast.walk(b) if isinstance(x, ast.For) and isinstance(x.target, ast.Name)]:
                it_src = src(lp.iter)
                if "callback" in it_src.lower() and any(isinstance(c, ast.Call) and isinstance(c.func, ast.Name) and c.func.id == lp.target.id for c in ast.walk(lp)):
                    chk.bad(rule, f"{m.rel}:{w.lineno} | callbacks do not run under the non-re-entrant lock {held[0]}", f"{m.rel}:{lp.lineno}",
                            f"`for {lp.target.id} in {it_src}` calls user callbacks while `{held[0]}` (a plain threading.Lock) is held: a callback that comes back into this object "
                            f"on the same thread blocks for ever, the request is never answered")
                    break
    chk.ok(rule, f"{'package' if rels is None else ', '.join(sorted(rels))} | no callback under a plain Lock", "canopen/", f"{n_with} with-blocks on plain locks, {len(plain)} plain locks")
    # a lock that a receive callback (on_message, on_*) takes is not held across an SDO exchange: the answer to that exchange is
    # dispatched by the very thread that is then blocked in the callback, behind a frame that arrived first
    def _sdo_exchange(node):
        for x in ast.walk(node):
            if isinstance(x, ast.Attribute) and x.attr in ("raw", "phys", "desc") and isinstance(x.value, ast.Subscript):
                return x
            if isinstance(x, ast.Call) and isinstance(x.func, ast.Attribute) and x.func.attr in ("request_response", "read_response", "upload", "download"):
                return x
        return None
    n_cb = 0
    for m in repo.modules.values():
        if rels is not None and m.rel not in rels:
            continue
        try:
            raw = ast.parse(m.src)
        except SyntaxError:
            continue
        for c in [n for n in ast.walk(raw) if isinstance(n, ast.ClassDef)]:
            meths = {f_.name: f_ for f_ in c.body if isinstance(f_, ast.FunctionDef)}
            cb_locks = {it.context_expr.attr for nm_, f_ in meths.items() if nm_.startswith("on_") for w in ast.walk(f_) if isinstance(w, ast.With)
                        for it in w.items if isinstance(it.context_expr, ast.Attribute) and it.optional_vars is None}
            if not cb_locks:
                continue
            for nm_, f_ in meths.items():
                if nm_.startswith("on_"):
                    continue
                for w in [x for x in ast.walk(f_) if isinstance(x, ast.With)]:
                    held = [it.context_expr.attr for it in w.items if isinstance(it.context_expr, ast.Attribute) and it.optional_vars is None and it.context_expr.attr in cb_locks]
                    if not held:
                        continue
                    n_cb += 1
                    hit = None
                    for b in w.body:
                        hit = hit or _sdo_exchange(b)
                        for call in [x for x in ast.walk(b) if isinstance(x, ast.Call) and isinstance(x.func, ast.Attribute) and isinstance(x.func.value, ast.Name) and x.func.value.id == "self"
                                     and x.func.attr in meths]:
                            hit = hit or _sdo_exchange(meths[call.func.attr])
                    if hit is not None:
                        chk.bad(rule, f"{m.rel}:{c.name}.{nm_} | no SDO exchange while holding {held[0]}", f"{m.rel}:{w.lineno}",
                                f"`with self.{held[0]}:` is held across an SDO access (`{src(hit)[:50]}`), and the receive callback of this class takes the same lock: a frame for that "
                                f"callback queued ahead of the SDO response blocks the only receiving thread, the response is never dispatched and the exchange times out")
    chk.ok(rule, f"{'package' if rels is None else ', '.join(sorted(rels))} | receive-callback locks are not held across SDO exchanges", "canopen/", f"{n_cb} with-blocks on callback locks outside callbacks")


# --------------------------------------------------------------------------------------------------
# memo soundness: a look-up memory the pinned tree does not have answers for the computation it replaces only if (a) its key
# tells apart all inputs the computation tells apart and (b) it does not outlive what it was computed from.

_MEMO_PROBES = (1, 2, 3, 7, 8, 0xFF, 0x100, 0x1000, 0x1018, 0x1A00, 0x2030, 0x3020, 0x6040, 0xFFFF, 0)
_OD_ROOTS = ("self.object_dictionary", "self.od", "self.node.object_dictionary", "self._node.object_dictionary")
_SERVER_SIDE = ("canopen/node/local.py", "canopen/sdo/server.py")


def _reference_text(rel) -> str:
    import json
    _reference_funcs(rel)
    mod = _REF_CACHE["ref"].get(rel, {})
    return "\n".join(f.get("src", "") for f in mod.get("funcs", {}).values()) + "\n" + json.dumps(mod.get("class_attrs", {})) + json.dumps(mod.get("init_attr_order", {}))


def _memo_sites(cls_node):
    """[(attr, method node, key expr of the store, stored value expr, store stmt)] for `self.<attr>[K] = V` where the same method also
    looks `self.<attr>` up (subscript read, .get, membership)."""
    out = []
    for meth in [f for f in cls_node.body if isinstance(f, ast.FunctionDef) and f.name != "__init__"]:
        stores, reads = [], set()
        for n in ast.walk(meth):
            if isinstance(n, ast.Assign) and len(n.targets) == 1 and isinstance(n.targets[0], ast.Subscript) and isinstance(n.targets[0].value, ast.Attribute) \
                    and dotted(n.targets[0].value.value) == "self":
                stores.append((n.targets[0].value.attr, n.targets[0].slice, n.value, n))
            elif isinstance(n, ast.Subscript) and isinstance(n.ctx, ast.Load) and isinstance(n.value, ast.Attribute) and dotted(n.value.value) == "self":
                reads.add(n.value.attr)
            elif isinstance(n, ast.Call) and isinstance(n.func, ast.Attribute) and n.func.attr == "get" and isinstance(n.func.value, ast.Attribute) and dotted(n.func.value.value) == "self":
                reads.add(n.func.value.attr)
            elif isinstance(n, ast.Compare) and any(isinstance(o, (ast.In, ast.NotIn)) for o in n.ops):
                for c in n.comparators:
                    if isinstance(c, ast.Attribute) and dotted(c.value) == "self":
                        reads.add(c.attr)
        for a, k, v, st in stores:
            if a in reads:
                out.append((a, meth, k, v, st))
    return out


def _single_def(meth, name):
    defs = [n for n in ast.walk(meth) if isinstance(n, ast.Assign) and len(n.targets) == 1 and isinstance(n.targets[0], ast.Name) and n.targets[0].id == name]
    return defs[0].value if len(defs) == 1 else None


def _memo_key_collision(folder, mod, key, params):
    """Two distinct parameter tuples with the same key, or None.  Keys that are a parameter, or a tuple whose elements are distinct
    parameters / attributes / literals, are injective by construction; anything else is folded over a grid of probe values."""
    import itertools
    if isinstance(key, ast.Name):
        return None
    if isinstance(key, ast.Tuple) and all(isinstance(e, (ast.Name, ast.Attribute, ast.Constant)) for e in key.elts):
        return None
    used = [p for p in params if any(isinstance(x, ast.Name) and x.id == p for x in ast.walk(key))]
    if len(used) < 2 or len(used) > 3:
        return None
    seen = {}
    for vals in itertools.product(_MEMO_PROBES, repeat=len(used)):
        try:
            k = folder.fold(key, Scope(mod, None, dict(zip(used, vals))))
            hash(k)
        except Exception:  # noqa  (not foldable: not decided)
            return None
        if k in seen and seen[k] != vals:
            return used, seen[k], vals, k
        seen[k] = vals
    return None


def memo_soundness(chk, rule: str, rels=None):
    """A dictionary on `self` that the pinned tree does not have, filled with the result of a computation and consulted before that
    computation, must (a) be keyed so that inputs the computation distinguishes get distinct keys (every parameter the stored value
    is computed from appears in the key; arithmetic keys are folded over a grid of addresses and must not collide), and (b) on the
    serving side -- where the object dictionary decides which accesses are refused -- be emptied somewhere when it remembers
    object-dictionary look-ups (entries can be deleted and re-defined at run time).  Decided on the source as written."""
    repo, folder = ctx(chk)
    n_memo = 0
    for m in repo.modules.values():
        if rels is not None and m.rel not in rels:
            continue
        try:
            raw = ast.parse(m.src)
        except SyntaxError:
            continue
        ref_text = _reference_text(m.rel)
        for c in [n for n in ast.walk(raw) if isinstance(n, ast.ClassDef)]:
            meths = {f_.name: f_ for f_ in c.body if isinstance(f_, ast.FunctionDef)}
            for attr, meth, key, val, st in _memo_sites(c):
                if attr in ref_text:
                    continue                       # state the pinned tree already has: decided by the property's own rules
                n_memo += 1
                params = [a.arg for a in meth.args.posonlyargs + meth.args.args + meth.args.kwonlyargs if a.arg != "self"]
                if isinstance(key, ast.Name) and key.id not in params:
                    key = _single_def(meth, key.id) or key
                site = f"{m.rel}:{c.name}.{meth.name} | memo self.{attr}"
                where = f"{m.rel}:{st.lineno}"
                hit = _memo_key_collision(folder, m, key, params)
                if hit is not None:
                    used, a_, b_, k = hit
                    chk.bad(rule, f"{site} keyed injectively", where,
                            f"key `{src(key)}` gives {k!r} both for ({', '.join(f'{p}={v:#x}' for p, v in zip(used, a_))}) and for "
                            f"({', '.join(f'{p}={v:#x}' for p, v in zip(used, b_))}): the second of two such accesses is answered with what was remembered for the first")
                    continue
                # (a) completeness: parameters the remembered value is computed from
                vexpr = val
                if isinstance(vexpr, ast.Name):
                    vexpr = _single_def(meth, vexpr.id) or vexpr
                dep = {x.id for x in ast.walk(vexpr) if isinstance(x, ast.Name) and x.id in params}
                keyed = {x.id for x in ast.walk(key) if isinstance(x, ast.Name)}
                missing = sorted(dep - keyed)
                if missing and keyed:
                    chk.bad(rule, f"{site} keyed by everything the value depends on", where,
                            f"`{src(st)[:70]}` remembers a value computed from {sorted(dep)} under the key `{src(key)}`, which ignores {missing}: calls that differ only in "
                            f"{missing[0]} get the answer of the first one")
                    continue
                # (b) serving side: remembered object-dictionary look-ups are emptied somewhere
                if m.rel in _SERVER_SIDE:
                    texts = [src(vexpr)]
                    for x in ast.walk(vexpr):
                        if isinstance(x, ast.Call) and isinstance(x.func, ast.Attribute) and dotted(x.func.value) == "self" and x.func.attr in meths:
                            texts.append(ast.unparse(meths[x.func.attr]))
                    from_od = any(r in t for t in texts for r in _OD_ROOTS)
                    emptied = False
                    for other in meths.values():
                        for n in ast.walk(other):
                            if isinstance(n, ast.Call) and isinstance(n.func, ast.Attribute) and n.func.attr in ("clear", "pop", "popitem") and src(n.func.value) == f"self.{attr}":
                                emptied = True
                            if isinstance(n, ast.Delete) and any(f"self.{attr}" in src(t) for t in n.targets):
                                emptied = True
                            if other.name != "__init__" and isinstance(n, ast.Assign) and any(dotted(t) == f"self.{attr}" for t in n.targets):
                                emptied = True
                    if from_od and not emptied:
                        chk.bad(rule, f"{site} does not outlive the dictionary entries it remembers", where,
                                f"`{src(st)[:70]}` remembers the result of an object-dictionary look-up and nothing ever empties self.{attr}: after an entry is deleted or "
                                f"re-defined at run time, an access that must be refused (object / sub-index does not exist) is served from the remembered entry")
                        continue
                chk.ok(rule, site, where, f"key `{src(key)}`")
    chk.ok(rule, f"{'package' if rels is None else ', '.join(sorted(rels))} | look-up memories are keyed by their inputs and emptied with their source", "canopen/", f"{n_memo} fresh memo sites")
    t = ast.parse("class S:\n    def f(self, index, subindex):\n        key = index << 8 + subindex\n        v = self._m.get(key)\n        if v is None:\n"
                  "            v = self.od.get_variable(index, subindex)\n            self._m[key] = v\n        return v\n")
    sites = _memo_sites(t.body[0])
    fired = bool(sites) and _memo_key_collision(folder, next(iter(repo.modules.values())), _single_def(sites[0][1], "key"), ["index", "subindex"]) is not None
    chk.fixture(rule, "memo key `index << 8 + subindex` collides", fired)


def done_before_last_exchange(chk, rule: str):
    """WritableStream.write marks the stream done *before* the segment flagged last is exchanged: when the server refuses exactly that
    segment (the place where a segmented write to a read-only / wrong-length / missing object is refused), close() -- which always
    follows -- must not send another 'last' segment; the caller would get the toggle error of that stray frame instead of the
    server's abort code.  (Clause of C01.R6, shared with C06.)"""
    repo, folder = ctx(chk)
    f = repo.func(CL, "WritableStream.write", f"{chk.prop}.{rule}")
    ff = ff_for(chk, f, f"{chk.prop}.{rule}")
    adds = [n for n in own_nodes(f.node) if isinstance(n, ast.AugAssign) and isinstance(n.target, ast.Name) and folder.try_fold(n.value, ff.scope, None) == 1 and isinstance(n.op, ast.BitOr)]
    dn = [s_ for s_ in attr_stores(f.node, "_done") if folder.try_fold(s_.value, ff.scope, None) is True]
    dnodes = [ff.cfg.node_of(s_) for s_ in dn]
    for a in adds:
        an = ff.cfg.node_of(a)
        exch = [n for n in ff.cfg.reach_from(an) if n.kind == "stmt" and any(isinstance(c_, ast.Call) and isinstance(c_.func, ast.Attribute) and c_.func.attr in ("request_response", "send_request")
                                                                             for c_ in ast.walk(n.ast))]
        wit = must_pass(ff.cfg, lambda n: n in dnodes, from_node=an, to_nodes=exch) if exch else None
        chk.check(wit is None, rule, f"{CL}:WritableStream.write | marked done before the last segment is exchanged", f.loc(a),
                  f"the last segment goes out before `self._done = True`: if the server refuses it, close() sends a second 'last' segment and the caller sees that frame's toggle error "
                  f"instead of the server's abort code ({path_text(wit) if wit else ''})")
