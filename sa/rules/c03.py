"""C03 -- typed values survive the client -> bus -> server -> client round trip (weakest claim: composition,
channel agreement, hand-off discipline, per-instance state)."""
from __future__ import annotations

import ast

from .. import oracles as O
from ..fold import Scope, dotted, src
from .common import (ctx, is_observational_stmt, ff_for, find_calls, inside_with, must_pass, node_calls, own_nodes, path_text)

V = "canopen/variable.py"
SB = "canopen/sdo/base.py"
CL = "canopen/sdo/client.py"
SV = "canopen/sdo/server.py"
LN = "canopen/node/local.py"
RN = "canopen/node/remote.py"
NET = "canopen/network.py"

MUTABLE_CALLS = {"list", "dict", "set", "bytearray", "defaultdict", "OrderedDict", "deque", "queue.Queue", "Queue"}
MUTATORS = {"append", "extend", "insert", "pop", "remove", "clear", "update", "setdefault", "add", "discard", "popitem", "put", "sort", "reverse"}

EXPLANATION = (
    "R1 composition: the typed accessor is codec o transfer -- Variable.raw get/set are decode_raw(data)/encode_raw "
    "into data, SdoVariable.get_data/set_data delegate to the node's upload/download with (od.index, od.subindex), "
    "SdoBase/SdoRecord/SdoArray build SdoVariables over the dictionary entry reached by index or name; R2 DOMAIN forces "
    "segmented transfer: the flag flows set_data -> download -> open -> WritableStream and is a disjunct of the "
    "segmented guard; R3 channel agreement: LocalNode serves 0x600+id -> 0x580+id, RemoteNode's client uses the same "
    "pair in the opposite direction, each side subscribes the id it receives on and sends on the other; R4 hand-off "
    "discipline: the single bus.send is inside `with send_lock`, responses are queued as bytes copies in a queue.Queue "
    "created per client; R5 isolation: no class in the package keeps transfer state in a mutable class-level attribute "
    "that is mutated in place (it would be shared by all instances, i.e. by all nodes); R6 the codec clause of the "
    "statement: the C04 rules (type table, odd-width packers, error surfacing) evaluated under this property; R7 stale "
    "responses flushed completely before every request; R8 the server starts every segmented transfer from a fresh buffer "
    "and toggle; R9 the local node stores an immutable copy of exactly the downloaded bytes; R10 what a later read returns is what was stored: value-source precedence of LocalNode.get_data by presence (shared with C02.R10); R11 members of arrays described once are reachable on the local node (shared with C08.R11); R5 also: no method re-runs the constructor, logging statements cannot raise (typed eager formatting, divisions), no mutable default argument is kept or mutated, no new truth-value test of a None-able number, a look-up memory the pinned tree does not have is keyed by all its inputs (arithmetic keys folded over a grid of addresses) and, on the serving side, emptied somewhere."
    " R8 also: the server's emission sites against the CiA 301 frame layouts (shared with C02.R1-R3) and per-transfer server state set by the initiate handlers."
    ' R9 also: nothing that can refuse the write runs after the store; R8 also: per-transfer memory is reset by both initiate handlers.'
)
ASSUMPTIONS = [
    "not decided -- and this is most of the property: value identity over all types and values (codec and framing "
    "clauses are decided under C04, C01, C02), delivery schedules, interleavings of concurrent transfers",
]


def run(chk):
    repo, folder = ctx(chk)
    # ------------------------------------------------------------------ R1 composition
    sv = repo.cls(SB, "SdoVariable", "C03.R1")
    gd, sd = sv.methods.get("get_data"), sv.methods.get("set_data")
    chk.check(gd is not None and sd is not None, "R1", f"{SB}:SdoVariable | transport methods", f"{SB}:{sv.node.lineno}", "get_data/set_data missing")
    if gd is not None:
        chk.saw(gd)
        r = [n for n in own_nodes(gd.node) if isinstance(n, ast.Return)]
        chk.check(len(r) == 1 and src(r[0].value) == "self.sdo_node.upload(self.od.index, self.od.subindex)", "R1", f"{SB}:SdoVariable.get_data | upload of the entry's address", gd.loc(), f"{[src(x) for x in r]}")
    if sd is not None:
        fs = ff_for(chk, sd, "C03.R1")
        cs = find_calls(sd.node, "self.sdo_node.download")
        ok = len(cs) == 1 and [src(a) for a in cs[0].args][:3] == ["self.od.index", "self.od.subindex", "data"]
        chk.check(ok, "R1", f"{SB}:SdoVariable.set_data | download of exactly the encoded bytes to the entry's address", sd.loc(), f"{[src(c) for c in cs]}")
        # R2 DOMAIN => force_segment
        if cs:
            a3 = cs[0].args[3] if len(cs[0].args) > 3 else next((k.value for k in cs[0].keywords if k.arg == "force_segment"), None)
            if isinstance(a3, ast.Name) and fs.one_def(a3.id) is not None:
                a3 = fs.one_def(a3.id)
            chk.check(a3 is not None and fs.is_form(a3, "self.od.data_type == objectdictionary.DOMAIN"), "R2", f"{SB}:SdoVariable.set_data | DOMAIN forces segmented transfer", sd.loc(),
                      f"force_segment = {src(a3) if a3 is not None else 'not passed'}")
    dl = repo.func(CL, "SdoClient.download", "C03.R2")
    chk.saw(dl)
    op = find_calls(dl.node, "self.open")
    kw = {k.arg: src(k.value) for c in op for k in c.keywords}
    chk.check(kw.get("force_segment") == "force_segment" and "force_segment" in dl.params, "R2", f"{CL}:SdoClient.download | flag handed to open()", dl.loc(), f"{kw}")
    o = repo.func(CL, "SdoClient.open", "C03.R2")
    chk.saw(o)
    ws = [c for c in ast.walk(o.node) if isinstance(c, ast.Call) and dotted(c.func) == "WritableStream"]
    chk.check(len(ws) == 1 and "force_segment" in [src(a) for a in ws[0].args], "R2", f"{CL}:SdoClient.open | flag handed to the stream", o.loc(), "")
    wi = repo.func(CL, "WritableStream.__init__", "C03.R2")
    fwi = ff_for(chk, wi, "C03.R2")
    tests = [n for n in fwi.cfg.nodes if n.kind == "test" and isinstance(n.ast, ast.BoolOp) and isinstance(n.ast.op, ast.Or) and "force_segment" in [src(v) for v in n.ast.values]]
    ok = False
    for t in tests:
        owner = getattr(t, "owner", None)
        ok = ok or (owner is not None and any(isinstance(c, ast.Call) and src(c.func).endswith("request_response") for s_ in owner.body for c in ast.walk(s_)))
    chk.check(ok, "R2", f"{CL}:WritableStream.__init__ | flag is a disjunct of the segmented-initiate condition", wi.loc(), "")
    # SdoBase item access
    gi = repo.func(SB, "SdoBase.__getitem__", "C03.R1")
    fgi = ff_for(chk, gi, "C03.R1")
    e = fgi.one_def("entry")
    chk.check(e is not None and src(e) == "self.od[index]", "R1", f"{SB}:SdoBase.__getitem__ | entry looked up by index or name", gi.loc(), "")
    made = {}
    for r in [n for n in own_nodes(gi.node) if isinstance(n, ast.Return) and isinstance(n.value, ast.Call)]:
        g = [src(x) for x, p in fgi.facts_at(r) if p]
        made[dotted(r.value.func)] = ([src(a) for a in r.value.args], g)
    ok = made.get("SdoVariable", ([], []))[0] == ["self", "entry"] and made.get("SdoArray", ([], []))[0] == ["self", "entry"] and made.get("SdoRecord", ([], []))[0] == ["self", "entry"] \
        and "isinstance(entry, objectdictionary.ODVariable)" in made.get("SdoVariable", ([], []))[1]
    chk.check(ok, "R1", f"{SB}:SdoBase.__getitem__ | wrapper per entry kind", gi.loc(), f"{made}")
    for cname in ("SdoRecord", "SdoArray"):
        m = repo.func(SB, f"{cname}.__getitem__", "C03.R1")
        chk.saw(m)
        r = [n for n in own_nodes(m.node) if isinstance(n, ast.Return)]
        chk.check(len(r) == 1 and src(r[0].value) == "SdoVariable(self.sdo_node, self.od[subindex])", "R1", f"{SB}:{cname}.__getitem__ | member variable over the same node", m.loc(), f"{[src(x) for x in r]}")
    vi = repo.func(SB, "SdoVariable.__init__", "C03.R1")
    chk.saw(vi)
    chk.check(any(src(n) == "self.sdo_node = sdo_node" for n in own_nodes(vi.node) if isinstance(n, ast.Assign)) and
              any(isinstance(c, ast.Call) and dotted(c.func) == "variable.Variable.__init__" and [src(a) for a in c.args] == ["self", "od"] for c in ast.walk(vi.node)),
              "R1", f"{SB}:SdoVariable.__init__ | bound to its node and entry", vi.loc(), "")
    vv = repo.cls(V, "Variable", "C03.R1")
    raw_g, raw_s = vv.methods.get("raw"), vv.methods.get("raw.setter")
    if raw_g is not None and raw_s is not None:
        fg = ff_for(chk, raw_g, "C03.R1")
        v = fg.one_def("value")
        chk.check(v is not None and src(v) == "self.od.decode_raw(self.data)", "R1", f"{V}:Variable.raw | decode_raw(data)", raw_g.loc(), "")
        chk.check(any(src(n) == "self.data = self.od.encode_raw(value)" for n in own_nodes(raw_s.node) if isinstance(n, ast.Assign)), "R1", f"{V}:Variable.raw.setter | data = encode_raw(value)", raw_s.loc(), "")
    else:
        chk.bad("R1", f"{V}:Variable.raw", f"{V}:{vv.node.lineno}", "raw property missing")
    # local node's own typed access goes through the same store
    su = repo.func(SV, "SdoServer.upload", "C03.R1")
    sdn = repo.func(SV, "SdoServer.download", "C03.R1")
    chk.saw(su); chk.saw(sdn)
    chk.check(any(src(n.value) == "self._node.get_data(index, subindex)" for n in own_nodes(su.node) if isinstance(n, ast.Return)), "R1", f"{SV}:SdoServer.upload | local read of the node's value", su.loc(), "")
    chk.check(any(src(n.value) == "self._node.set_data(index, subindex, data)" for n in own_nodes(sdn.node) if isinstance(n, ast.Return)), "R1", f"{SV}:SdoServer.download | local write into the node's store", sdn.loc(), "")

    # ------------------------------------------------------------------ R3 channel agreement
    li = repo.func(LN, "LocalNode.__init__", "C03.R3")
    fli = ff_for(chk, li, "C03.R3")
    c = [x for x in ast.walk(li.node) if isinstance(x, ast.Call) and dotted(x.func) == "SdoServer"]
    ok = len(c) == 1 and fli.norm(c[0].args[0], subst=False) == fli.canon(f"{O.SDO_RX} + self.id") and fli.norm(c[0].args[1], subst=False) == fli.canon(f"{O.SDO_TX} + self.id") and src(c[0].args[2]) == "self"
    chk.check(ok, "R3", f"{LN}:LocalNode.__init__ | server on 0x600+id / 0x580+id", li.loc(), f"{[src(x) for x in c]}")
    ri = repo.func(RN, "RemoteNode.__init__", "C03.R3")
    fri = ff_for(chk, ri, "C03.R3")
    c = [x for x in ast.walk(ri.node) if isinstance(x, ast.Call) and dotted(x.func) == "self.add_sdo"]
    ok = len(c) == 1 and fri.norm(c[0].args[0], subst=False) == fri.canon(f"{O.SDO_RX} + self.id") and fri.norm(c[0].args[1], subst=False) == fri.canon(f"{O.SDO_TX} + self.id")
    chk.check(ok, "R3", f"{RN}:RemoteNode.__init__ | client on 0x600+id / 0x580+id", ri.loc(), f"{[src(x) for x in c]}")
    ads = repo.func(RN, "RemoteNode.add_sdo", "C03.R3")
    chk.saw(ads)
    c = [x for x in ast.walk(ads.node) if isinstance(x, ast.Call) and dotted(x.func) == "SdoClient"]
    chk.check(len(c) == 1 and [src(a) for a in c[0].args] == ["rx_cobid", "tx_cobid", "self.object_dictionary"], "R3", f"{RN}:RemoteNode.add_sdo | ids passed in order", ads.loc(), "")
    bi = repo.func(SB, "SdoBase.__init__", "C03.R3")
    chk.saw(bi)
    st = {src(n.targets[0]): src(n.value) for n in own_nodes(bi.node) if isinstance(n, ast.Assign)}
    chk.check(st.get("self.rx_cobid") == "rx_cobid" and st.get("self.tx_cobid") == "tx_cobid" and st.get("self.od") == "od", "R3", f"{SB}:SdoBase.__init__ | ids stored as given", bi.loc(), f"{st}")
    for f_rel, fq, want in ((CL, "SdoClient.send_request", "self.rx_cobid"), (SV, "SdoServer.send_response", "self.tx_cobid")):
        f = repo.func(f_rel, fq, "C03.R3")
        chk.saw(f)
        cs = find_calls(f.node, "self.network.send_message")
        chk.check(len(cs) == 1 and src(cs[0].args[0]) == want, "R3", f"{f_rel}:{fq} | sends on {want}", f.loc(), f"{[src(x) for x in cs]}")
    la = repo.func(LN, "LocalNode.associate_network", "C03.R3")
    ra = repo.func(RN, "RemoteNode.associate_network", "C03.R3")
    chk.saw(la); chk.saw(ra)
    chk.check(any([src(a) for a in c.args] == ["self.sdo.rx_cobid", "self.sdo.on_request"] for c in find_calls(la.node, "network.subscribe")), "R3", f"{LN}:LocalNode.associate_network | server listens on its rx id", la.loc(), "")
    chk.check(any([src(a) for a in c.args] == ["sdo.tx_cobid", "sdo.on_response"] for c in find_calls(ra.node, "network.subscribe")), "R3", f"{RN}:RemoteNode.associate_network | client listens on the server's tx id", ra.loc(), "")
    for f, attr in ((la, "self.sdo.network"), (ra, "self.sdo.network")):
        chk.check(any(src(n.targets[0]) == attr and src(n.value) == "network" for n in own_nodes(f.node) if isinstance(n, ast.Assign)), "R3", f"{f.key} | SDO endpoint attached to the network", f.loc(), "")

    # ------------------------------------------------------------------ R4 hand-off discipline
    sm = repo.func(NET, "Network.send_message", "C03.R4")
    chk.saw(sm)
    sends = [c for c in find_calls(sm.node, "self.bus.send")]
    n_all = sum(len([c for c in find_calls(f.node, ".bus.send") if dotted(c.func) == "self.bus.send"]) for f in repo.all_funcs())
    chk.check(len(sends) == 1 and n_all == 1 and inside_with(sm.node, sends[0], "self.send_lock"), "R4", f"{NET}:Network.send_message | the single bus.send is under send_lock", sm.loc(),
              f"{n_all} bus.send call sites; inside lock: {bool(sends) and inside_with(sm.node, sends[0], 'self.send_lock')}")
    ni = repo.func(NET, "Network.__init__", "C03.R4")
    chk.check(any(src(n) == "self.send_lock = threading.Lock()" for n in own_nodes(ni.node) if isinstance(n, ast.Assign)), "R4", f"{NET}:Network.__init__ | one lock per network", ni.loc(), "")
    orsp = repo.func(CL, "SdoClient.on_response", "C03.R4")
    chk.saw(orsp)
    body = [src(s_) for s_ in orsp.node.body if not (isinstance(s_, ast.Expr) and isinstance(s_.value, ast.Constant)) and not is_observational_stmt(repo, s_)]
    chk.check(body == ["self.responses.put(bytes(data))"], "R4", f"{CL}:SdoClient.on_response | only queues a copy of the frame", orsp.loc(), f"{body}")
    ci = repo.func(CL, "SdoClient.__init__", "C03.R4")
    chk.check(any(src(n) == "self.responses = queue.Queue()" for n in own_nodes(ci.node) if isinstance(n, ast.Assign)), "R4", f"{CL}:SdoClient.__init__ | queue per client", ci.loc(), "")

    # ------------------------------------------------------------------ R5 no shared mutable class state
    from . import shared
    shared.isolation(chk, "R5")

    # ------------------------------------------------------------------ R6 the codec clause of the statement
    # "the bytes held by the local node are exactly the CiA 301 little-endian encoding": the C04 rules, recorded here
    from . import c04
    from .common import RuleProxy
    c04.run(RuleProxy(chk, "R6"))
    # ------------------------------------------------------------------ R7-R9 what makes "read back the same value" hold across transfers
    from . import shared
    shared.client_flush(chk, "R7")
    shared.server_reset(chk, "R8")
    shared.store_exact(chk, "R9")
    # the frames the values travel in on the way back: the server's emission sites against the CiA 301 layouts (shared with C02.R1-R3;
    # an empty value answered as an expedited upload is read back as four zero bytes)
    _c02frames = __import__("sa.rules.c02", fromlist=["server_frames"])
    _c02frames.server_frames(RuleProxy(chk, "R8"))
    # R11: entries of arrays that are described once (implicit members) are served like described ones (shared with C08.R11 / C06.R9)
    from . import c08 as _c08im
    _c08im.implicit_members(chk, "R11")
    # R10: what a later read returns is what was stored -- the value-source precedence of LocalNode.get_data (shared with C02.R10)
    from . import c02 as _c02
    _c02._precedence(chk, repo, folder, "R10")


def _subclasses(repo, c):
    out = []
    for m in repo.modules.values():
        for k in m.classes.values():
            if k is not c and c in repo.mro(k):
                out.append(k)
    return out


def _fixture() -> bool:
    t = ast.parse("class S:\n    _buffer = bytearray()\n    def f(self, d):\n        self._buffer[:] = d\n")
    cls = t.body[0]
    val = cls.body[0].value
    mutable = isinstance(val, ast.Call) and dotted(val.func) in MUTABLE_CALLS
    hit = any(isinstance(n, ast.Assign) and isinstance(n.targets[0], ast.Subscript) and dotted(n.targets[0].value) == "self._buffer" for n in ast.walk(cls))
    return mutable and hit
