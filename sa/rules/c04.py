"""C04 -- data type codec is the exact CiA 301 representation and never silently wraps."""
from __future__ import annotations

import ast

from .. import oracles as O
from ..facts import FuncFacts, assigned_targets
from ..fold import Folder, PackerVal, Scope, StructVal, Unfoldable, dotted, src
from ..loader import AnalysisError
from .common import ctx, handler_always_raises, own_nodes, range_constraints

DT = "canopen/objectdictionary/datatypes.py"
OD = "canopen/objectdictionary/__init__.py"

EXPLANATION = (
    "R1 type table: every entry of ODVariable.STRUCT_TYPES folded from the source and compared with the CiA 301 "
    "type table (object code, width, signedness, little-endian prefix, every numeric type present); R2 group tuples "
    "SIGNED/UNSIGNED/INTEGER/FLOAT/NUMBER/DATA_TYPES equal the standard sets; R3 odd-width packers IntegerN/UnsignedN: "
    "format chosen per width by partial evaluation of the constructor's threshold chain, size = width//8, the "
    "truncating slice in pack dominated by a raising range guard whose bounds fold to the type's exact range for "
    "every width, unpack pads by exactly (wide size - size) bytes with 0xFF iff the sign bit of the top byte is set; "
    "R4 struct errors in encode_raw/decode_raw are never swallowed; R5 __len__ = codec size * 8; R6 text codecs; R9 no method of ODVariable caches (cached_property, lru_cache) a result derived from the re-assignable attributes data_type/factor/min/max/descriptions: the codec follows the current data type; R8 structural assumptions shared by all properties: no class-level mutable object is mutated in place by instances, no method re-runs the constructor, logging statements cannot raise (typed eager formatting, divisions), no mutable default argument is kept or mutated, no new truth-value test of a None-able number, a look-up memory the pinned tree does not have is keyed by all its inputs (arithmetic keys folded over a grid of addresses) and, on the serving side, emptied somewhere."
    " R4 also: a range pre-check in encode_raw is evaluated at both ends of every integer type's range (a legal end that reaches the raise is a violation)."
)
ASSUMPTIONS = [
    "CPython struct semantics for standard formats (range checking, exact-size unpack) are the trusted base",
    "not decided: nothing behavioural beyond the trusted base for the integer/real types; text round trip relies on "
    "CPython codecs 'ascii' and 'utf_16_le'",
]


def run(chk):
    repo, folder = ctx(chk)
    dtm = repo.mod(DT, "C04")
    odm = repo.mod(OD, "C04")
    sc_dt = Scope(dtm)

    # ---------------------------------------------------------------- R1 type constants + table
    found = 0
    for name, (code, kind, bits, signed) in O.DATA_TYPES.items():
        if name not in dtm.consts:
            chk.bad("R1", f"{DT}:{name}", DT, f"data type constant {name} is missing")
            continue
        v = folder.try_fold(dtm.consts[name], sc_dt, None)
        found += 1
        chk.check(v == code, "R1", f"{DT}:{name}", f"{DT}:{dtm.consts[name].lineno}",
                  f"{name} = {v!r}, CiA 301 object code is 0x{code:02X}")
    chk.floor("R1", found, 25, "data type constants")

    odv = repo.cls(OD, "ODVariable", "C04.R1")
    if "STRUCT_TYPES" not in odv.consts or not isinstance(odv.consts["STRUCT_TYPES"], ast.Dict):
        raise AnalysisError("C04.R1", "ODVariable.STRUCT_TYPES dict literal not found")
    table = odv.consts["STRUCT_TYPES"]
    chk.analysed_tables.append("ODVariable.STRUCT_TYPES")
    sc_od = Scope(odm, odv)
    sc_od.in_class_body = True
    seen = {}
    for k, v in zip(table.keys, table.values):
        kname = k.id if isinstance(k, ast.Name) else (k.attr if isinstance(k, ast.Attribute) else None)
        where = f"{OD}:{k.lineno}"
        try:
            kval = folder.fold(k, sc_od)
            val = folder.fold(v, sc_od)
        except Unfoldable as e:
            chk.unk("R1", f"STRUCT_TYPES[{src(k)}]", where, f"entry does not fold: {e}")
            continue
        # identify the type by its code (the name is only a label)
        tname = next((n for n, t in O.DATA_TYPES.items() if t[0] == kval), None)
        if tname is None or O.DATA_TYPES[tname][1] not in ("int", "float", "bool"):
            chk.bad("R1", f"STRUCT_TYPES[{kname}]", where, f"key 0x{kval:X} is not a CiA 301 numeric type")
            continue
        if tname in seen:
            chk.bad("R1", f"STRUCT_TYPES[{kname}]", where, f"type {tname} appears twice (later entry wins)")
        seen[tname] = True
        _, kind, bits, signed = O.DATA_TYPES[tname]
        if isinstance(val, StructVal):
            fmt = val.fmt
            prefix, letter = (fmt[0], fmt[1:]) if fmt and fmt[0] in "<>=!@" else ("", fmt)
            if letter not in O.FMT:
                chk.bad("R1", f"STRUCT_TYPES[{tname}]", where, f"format {fmt!r} is not a single standard item")
                continue
            fbits, fsigned, fkind = O.FMT[letter]
            ok = fbits == bits and fkind == kind and (fsigned == signed or kind != "int")
            if fbits > 8 and prefix != "<":
                ok = False
            if prefix in (">", "!"):
                ok = False
            chk.check(ok, "R1", f"STRUCT_TYPES[{tname}]", where,
                      f"codec {fmt!r} is {fbits}-bit {'signed' if fsigned else 'unsigned'} {fkind} with byte-order "
                      f"prefix {prefix!r}; CiA 301 {tname} is {bits}-bit {'signed' if signed else 'unsigned'} {kind}, "
                      f"little-endian")
        elif isinstance(val, PackerVal):
            ok = val.width == bits and val.signed == signed and kind == "int"
            chk.check(ok, "R1", f"STRUCT_TYPES[{tname}]", where,
                      f"codec {'IntegerN' if val.signed else 'UnsignedN'}({val.width}) for {tname} "
                      f"({bits}-bit {'signed' if signed else 'unsigned'})")
        else:
            chk.unk("R1", f"STRUCT_TYPES[{tname}]", where, f"value {src(v)} is neither struct.Struct nor IntegerN/UnsignedN")
    for tname, (code, kind, bits, signed) in O.DATA_TYPES.items():
        if kind in ("int", "float", "bool") and tname not in seen:
            chk.bad("R1", f"STRUCT_TYPES[{tname}]", f"{OD}:{table.lineno}", f"numeric type {tname} has no codec entry")
    chk.floor("R1", len(seen), 19, "STRUCT_TYPES entries")

    # ---------------------------------------------------------------- R2 group tuples
    code = {n: t[0] for n, t in O.DATA_TYPES.items()}
    groups = {
        "SIGNED_TYPES": {code[n] for n in O.SIGNED}, "UNSIGNED_TYPES": {code[n] for n in O.UNSIGNED},
        "INTEGER_TYPES": {code[n] for n in O.SIGNED | O.UNSIGNED}, "FLOAT_TYPES": {code[n] for n in O.FLOATS},
        "NUMBER_TYPES": {code[n] for n in O.SIGNED | O.UNSIGNED | O.FLOATS}, "DATA_TYPES": {code[n] for n in O.DATA},
    }
    for g, want in groups.items():
        if g not in dtm.consts:
            chk.bad("R2", f"{DT}:{g}", DT, "group tuple missing")
            continue
        v = folder.try_fold(dtm.consts[g], sc_dt, None)
        where = f"{DT}:{dtm.consts[g].lineno}"
        if v is None:
            chk.unk("R2", f"{DT}:{g}", where, "does not fold")
            continue
        got = set(v)
        chk.check(got == want and len(v) == len(got), "R2", f"{DT}:{g}", where,
                  f"{g} = {sorted(got)}; CiA 301 set is {sorted(want)} (missing {sorted(want - got)}, extra {sorted(got - want)})")

    # ---------------------------------------------------------------- R3 odd-width packers
    for cname, signed in (("UnsignedN", False), ("IntegerN", True)):
        cls = repo.cls(DT, cname, "C04.R3")
        _packer(chk, repo, folder, cls, signed)

    # ---------------------------------------------------------------- R4 error surfacing
    for fname, callname in (("encode_raw", "pack"), ("decode_raw", "unpack")):
        f = repo.func(OD, f"ODVariable.{fname}", "C04.R4")
        chk.saw(f)
        n_calls = 0
        for t in ast.walk(f.node):
            if isinstance(t, ast.Try):
                has_call = any(isinstance(c, ast.Call) and isinstance(c.func, ast.Attribute) and c.func.attr == callname
                               for b in t.body for c in ast.walk(b))
                if not has_call:
                    continue
                n_calls += 1
                for h in t.handlers:
                    chk.check(handler_always_raises(h), "R4", f"{OD}:ODVariable.{fname} | except {src(h.type) if h.type else ''}",
                              f"{OD}:{h.lineno}",
                              f"handler around {callname}() can complete normally: a range/size error would be swallowed")
        if n_calls == 0:
            # no try at all: struct.error propagates, which also surfaces the error
            direct = [c for c in ast.walk(f.node) if isinstance(c, ast.Call) and isinstance(c.func, ast.Attribute)
                      and c.func.attr == callname]
            if direct:
                chk.ok("R4", f"{OD}:ODVariable.{fname} | no handler", f"{OD}:{direct[0].lineno}", "struct.error propagates")
            else:
                chk.unk("R4", f"{OD}:ODVariable.{fname}", f"{OD}:{f.node.lineno}", f"no {callname}() call found")

    # the value handed to the packer is the caller's value (integers: int(value)); no other rewriting on the way
    f = repo.func(OD, "ODVariable.encode_raw", "C04.R4")
    fenc = FuncFacts(repo, folder, f, "C04.R4")
    vparam = f.params[1]
    for n in own_nodes(f.node):
        if isinstance(n, (ast.Assign, ast.AugAssign)) and vparam in assigned_targets(n):
            g = [(fenc.norm(e, subst=False), p) for e, p in fenc.facts_at(n)]
            ok = isinstance(n, ast.Assign) and src(n.value) == f"int({vparam})" and any(p and t == "self.data_type in INTEGER_TYPES" for t, p in g)
            chk.check(ok, "R4", f"{OD}:ODVariable.encode_raw | `{src(n)[:40]}`", f.loc(n),
                      f"the value is rewritten before it is packed (`{src(n)}` under {g}): only int(value) for integer types keeps the encoding exact "
                      f"(truthiness idioms lose -0.0, None becomes a number)")
    for c in [c for c in ast.walk(f.node) if isinstance(c, ast.Call) and isinstance(c.func, ast.Attribute) and c.func.attr == "pack"]:
        chk.check([src(a) for a in c.args] == [vparam] and not c.keywords, "R4", f"{OD}:ODVariable.encode_raw | packs the value itself", f.loc(c), src(c))
    # the packer alone decides what fits: a second range test in front of it would have to agree with it for every value
    # (including +-inf, NaN and the range ends), which this analysis cannot establish
    for rs in [n for n in own_nodes(f.node) if isinstance(n, ast.Raise)]:
        g = fenc.facts_at(rs)
        rng = [e for e, p in g if any(isinstance(x, ast.Compare) and any(isinstance(o, (ast.Lt, ast.LtE, ast.Gt, ast.GtE)) for o in x.ops)
                                       and vparam in [y.id for y in ast.walk(x) if isinstance(y, ast.Name)] for x in ast.walk(e))]
        if rng:
            # decided for the integer types by evaluating the conditions in force at the raise for both ends of every type's range
            # (len(self) and self.data_type bound per type); a legal value that reaches the raise is refused
            import copy as _copy

            class _Bind(ast.NodeTransformer):
                def __init__(self, code, bits, val):
                    self.code, self.bits, self.val = code, bits, val

                def visit_Call(self, node):
                    if src(node) == "len(self)":
                        return ast.Constant(value=self.bits)
                    return self.generic_visit(node)

                def visit_Attribute(self, node):
                    if src(node) == "self.data_type":
                        return ast.Constant(value=self.code)
                    return self.generic_visit(node)

                def visit_Name(self, node):
                    if node.id == vparam and isinstance(node.ctx, ast.Load):
                        return ast.Constant(value=self.val)
                    return node
            from .common import conj_of_facts
            refused, undecided = None, None
            for tname, (tcode_, kind_, bits_, signed_) in sorted(O.DATA_TYPES.items(), key=lambda kv: kv[1][0]):
                if kind_ != "int":
                    continue
                lo, hi = (-(1 << (bits_ - 1)), (1 << (bits_ - 1)) - 1) if signed_ else (0, (1 << bits_) - 1)
                for v in (lo, hi, 0):
                    e = _Bind(tcode_, bits_, v).visit(_copy.deepcopy(conj_of_facts(g)))
                    ast.fix_missing_locations(e)
                    r = folder.try_fold(e, Scope(f.mod, f.cls), "?")
                    if r == "?":
                        undecided = undecided or f"{tname}, value {v}"
                    elif r:
                        refused = refused or f"{tname}: the legal value {v} ({'minimum' if v == lo else 'maximum' if v == hi else 'zero'} of the type) reaches `{src(rs)[:50]}`"
            if refused:
                chk.bad("R4", f"{OD}:ODVariable.encode_raw | range pre-check `{src(rng[0])[:50]}`", f.loc(rs), f"{refused}: the pre-check refuses a value the packer encodes")
            elif undecided:
                chk.unk("R4", f"{OD}:ODVariable.encode_raw | range pre-check `{src(rng[0])[:50]}`", f.loc(rs),
                        f"a range test of the value raises before the packer is asked and could not be evaluated ({undecided}): it must accept exactly the type's values")
            else:
                chk.ok("R4", f"{OD}:ODVariable.encode_raw | range pre-check `{src(rng[0])[:50]}`", f.loc(rs), "accepts both ends of every integer type's range")

    # ---------------------------------------------------------------- R5 __len__
    f = repo.func(OD, "ODVariable.__len__", "C04.R5")
    chk.saw(f)
    ff = FuncFacts(repo, folder, f, "C04.R5")
    rets = [n for n in ast.walk(f.node) if isinstance(n, ast.Return) and n.value is not None]
    typed = [r for r in rets if "STRUCT_TYPES" in src(r.value)]
    cached = []
    for r in rets:
        for a in [x for x in ast.walk(r.value) if isinstance(x, ast.Attribute) and isinstance(x.value, ast.Name) and x.value.id == "self" and x.attr not in ("data_type", "STRUCT_TYPES")]:
            writers = [m for m in odv.methods.values() for n in ast.walk(m.node) if isinstance(n, (ast.Assign, ast.AugAssign, ast.AnnAssign))
                       for t in (n.targets if isinstance(n, ast.Assign) else [n.target]) if dotted(t) == f"self.{a.attr}"]
            if writers:
                cached.append((r, a.attr))
    for r, attr in cached:
        chk.bad("R5", f"{OD}:ODVariable.__len__ | computed from the current data type", f.loc(r),
                f"the bit length is returned from the stored attribute self.{attr}: data_type is a plain mutable attribute, after it changes the length is stale "
                f"(length checks, PDO mapping and SDO truncation use the old width)")
    evaluated = bit_length_by_type(chk, "R5")
    if not typed and not cached and not evaluated:
        chk.unk("R5", f"{OD}:ODVariable.__len__", f.loc(), "no return derived from STRUCT_TYPES")
    for r in typed:
        want = {"8 * self.STRUCT_TYPES[self.data_type].size", "self.STRUCT_TYPES[self.data_type].size * 8"}
        chk.check(ff.norm(r.value) in want, "R5", f"{OD}:ODVariable.__len__ | {ff.norm(r.value)}", f.loc(r),
                  f"bit length is not codec size * 8: {src(r.value)}")
        guard = [src(e) for e, p in ff.facts_at(r) if p]
        chk.check(any("self.data_type in self.STRUCT_TYPES" == g for g in guard), "R5",
                  f"{OD}:ODVariable.__len__ | guard", f.loc(r), f"type-derived length not guarded by membership: {guard}")

    # ---------------------------------------------------------------- R6 text codecs
    want_codec = {code["VISIBLE_STRING"]: O.TEXT_CODECS["VISIBLE_STRING"], code["UNICODE_STRING"]: O.TEXT_CODECS["UNICODE_STRING"]}
    per_type = {}
    for fname, meth in (("encode_raw", "encode"), ("decode_raw", "decode")):
        f = repo.func(OD, f"ODVariable.{fname}", "C04.R6")
        ff = FuncFacts(repo, folder, f, "C04.R6")
        for r in [n for n in ast.walk(f.node) if isinstance(n, ast.Return) and n.value is not None]:
            calls = [c for c in ast.walk(r.value) if isinstance(c, ast.Call) and isinstance(c.func, ast.Attribute)
                     and c.func.attr == meth]
            if not calls:
                continue
            c = calls[0]
            codec = folder.try_fold(c.args[0], Scope(odm, odv), None) if c.args else None
            tcode = None
            for e, p in ff.facts_at(r):
                if p and isinstance(e, ast.Compare) and isinstance(e.ops[0], ast.Eq) and src(e.left) == "self.data_type":
                    tcode = folder.try_fold(e.comparators[0], Scope(odm, odv), None)
            if tcode not in want_codec:
                chk.unk("R6", f"{OD}:ODVariable.{fname} | {src(c)}", f.loc(r), "cannot tell which string type this branch serves")
                continue
            per_type.setdefault(tcode, {})[fname] = codec
            chk.check(isinstance(codec, str) and codec.lower() in want_codec[tcode], "R6",
                      f"{OD}:ODVariable.{fname} | type 0x{tcode:X}", f.loc(r),
                      f"codec {codec!r} is not {sorted(want_codec[tcode])[0]!r}")
    # the decoded text is the codec's result; only trailing NULs (padding of C-based devices) may be removed
    fdec = repo.func(OD, "ODVariable.decode_raw", "C04.R6")
    for r in [n for n in ast.walk(fdec.node) if isinstance(n, ast.Return) and n.value is not None]:
        e = r.value
        if not any(isinstance(c, ast.Call) and isinstance(c.func, ast.Attribute) and c.func.attr == "decode" for c in ast.walk(e)):
            continue
        # one level of helper: self._h(<expr>) with `return <expression of its parameter>`
        if isinstance(e, ast.Call) and isinstance(e.func, ast.Attribute) and dotted(e.func.value) in ("self", "ODVariable") and e.func.attr in odv.methods and len(e.args) == 1:
            h = odv.methods[e.func.attr]
            hrets = [n for n in own_nodes(h.node) if isinstance(n, ast.Return) and n.value is not None]
            hp = [p_ for p_ in h.params if p_ != "self"]
            if len(hrets) == 1 and len(hp) == 1:
                from .common import substitute_src
                e = substitute_src(hrets[0].value, {hp[0]: e.args[0]})
        steps = []
        cur = e
        while isinstance(cur, ast.Call) and isinstance(cur.func, ast.Attribute) and cur.func.attr != "decode":
            steps.append(cur)
            cur = cur.func.value
        while isinstance(cur, ast.Subscript):
            steps.append(cur)
            cur = cur.value
            while isinstance(cur, ast.Call) and isinstance(cur.func, ast.Attribute) and cur.func.attr != "decode":
                steps.append(cur)
                cur = cur.func.value
        core_ok = isinstance(cur, ast.Call) and isinstance(cur.func, ast.Attribute) and cur.func.attr == "decode" and src(cur.func.value) == fdec.params[1]
        if not core_ok:
            chk.unk("R6", f"{OD}:ODVariable.decode_raw | `{src(r.value)[:50]}`", fdec.loc(r), "decoded text is post-processed in a way the rule does not recognise")
            continue
        extra = []
        for st_ in steps:
            if isinstance(st_, ast.Call) and st_.func.attr == "rstrip" and len(st_.args) == 1 and folder.try_fold(st_.args[0], Scope(odm, odv), None) == "\x00":
                continue
            extra.append(src(st_)[len(src(cur)):] if src(st_).startswith(src(cur)) else src(st_))
        chk.check(not extra, "R6", f"{OD}:ODVariable.decode_raw | decoded text returned as decoded (only trailing NULs removed)", fdec.loc(r),
                  f"the decoded text is further processed by `{extra[-1] if extra else ''}`: text containing such characters (an embedded NUL, leading blanks, ...) does not round-trip")
    for tcode, d in want_codec.items():
        got = per_type.get(tcode, {})
        if set(got) != {"encode_raw", "decode_raw"}:
            chk.bad("R6", f"{OD}:ODVariable | type 0x{tcode:X} branches", OD, f"string type lacks an encode or decode branch: {got}")
        else:
            chk.check(str(got["encode_raw"]).lower().replace("-", "_") == str(got["decode_raw"]).lower().replace("-", "_"),
                      "R6", f"{OD}:ODVariable | type 0x{tcode:X} agreement", OD, f"encode uses {got['encode_raw']!r}, decode {got['decode_raw']!r}")

    # ------------------------------------------------------------------ R9 the codec follows the current data_type
    odv_ = repo.cls(OD, "ODVariable", "C04.R9")
    n_m = 0
    for mname, m in sorted(odv_.methods.items()):
        n_m += 1
        decos = [dotted(d.func) if isinstance(d, ast.Call) else dotted(d) for d in m.node.decorator_list]
        cached = [d for d in decos if d and d.split(".")[-1] in ("cached_property", "lru_cache", "cache")]
        reads = sorted({x.attr for x in ast.walk(m.node) if isinstance(x, ast.Attribute) and isinstance(x.value, ast.Name) and x.value.id == "self" and isinstance(x.ctx, ast.Load)
                        and x.attr in ("data_type", "factor", "min", "max", "value_descriptions", "bit_definitions")})
        if cached:
            chk.check(not reads, "R9", f"{OD}:ODVariable.{mname} | nothing derived from a re-assignable attribute is cached", m.loc(),
                      f"`@{cached[0]}` freezes a result computed from self.{', self.'.join(reads)}: the attribute is public and re-assigned by importers and users "
                      "(var.data_type = ...), after which len(), encode_raw() and decode_raw() keep using the old type's codec")
    chk.floor("R9", n_m, 10, "methods of ODVariable inspected for cached derivations")
    # ------------------------------------------------------------------ R8 instances are independent (shared clause)
    from . import shared as _shared
    _shared.isolation(chk, "R8", rels=['canopen/objectdictionary/__init__.py', 'canopen/objectdictionary/datatypes.py'])


def bit_length_by_type(chk, rule: str) -> bool:
    """ODVariable.__len__ specialised for every CiA 301 type code: the codec's width for the fixed-size types, a positive
    number for all others (len() of a variable also decides its truth value: `names.get(k) or indices.get(k)` lookups and
    `if var:` tests rely on every variable being truthy).  Returns False when the method cannot be specialised."""
    import copy as _copy
    from .common import partial_eval
    repo, folder = ctx(chk)
    f = repo.func(OD, "ODVariable.__len__", f"{chk.prop}.{rule}")
    chk.saw(f)

    class _T(ast.NodeTransformer):
        def visit_Attribute(self, n):
            if src(n) == "self.data_type":
                return ast.copy_location(ast.Name(id="__dt__", ctx=ast.Load()), n)
            return self.generic_visit(n)
    node = _T().visit(_copy.deepcopy(f.node))
    ast.fix_missing_locations(node)
    wrong, unknown = [], None
    for name, (tcode, kind, bits, _signed) in O.DATA_TYPES.items():
        r = partial_eval(folder, node, f.mod, f.cls, {"__dt__": tcode})
        if r[0] != "return" or not isinstance(r[1], int) or isinstance(r[1], bool):
            unknown = f"{name}: {r}"
            break
        if bits is not None and r[1] != bits:
            wrong.append(f"{name} -> {r[1]} bits (the type has {bits})")
        elif bits is None and r[1] <= 0:
            wrong.append(f"{name} -> {r[1]} (a variable of this type would be falsy: lookups by name and `if var` tests fail)")
    if unknown is not None:
        return False
    chk.check(not wrong, rule, f"{OD}:ODVariable.__len__ | bit length of every data type", f.loc(),
              "; ".join(wrong[:4]) + ": upload truncation, PDO mapping and the download length check use this width", f"specialised for {len(O.DATA_TYPES)} type codes")
    bl = repo.cls(OD, "ODVariable", f"{chk.prop}.{rule}").methods.get("__bool__")
    chk.check(bl is None, rule, f"{OD}:ODVariable.__bool__ | variables are always truthy", f.loc(), "ODVariable defines __bool__: dictionary lookups select by truthiness")
    return True


def _packer(chk, repo, folder: Folder, cls, signed: bool):
    name = cls.name
    where0 = f"{DT}:{cls.node.lineno}"
    init = repo.method(cls, "__init__")
    pack = repo.method(cls, "pack")
    unpack = repo.method(cls, "unpack")
    size = repo.method(cls, "size")
    if not (init and pack and unpack and size):
        raise AnalysisError("C04.R3", f"{name} lacks one of __init__/pack/unpack/size")
    for f in (init, pack, unpack, size):
        chk.saw(f)
    # (0) the packer objects live in the class-level table STRUCT_TYPES and are shared by every variable of every node:
    #     nothing but the constructor may keep state on them
    from . import shared as _sh
    stateless = True
    for mname, meth in cls.methods.items():
        if mname == "__init__":
            continue
        for n in own_nodes(meth.node):
            tg = []
            if isinstance(n, (ast.Assign, ast.Delete)):
                tg = n.targets
            elif isinstance(n, (ast.AugAssign, ast.AnnAssign)):
                tg = [n.target]
            for t in tg:
                base = t.value if isinstance(t, ast.Subscript) else t
                if isinstance(base, ast.Attribute) and dotted(base.value) == "self":
                    stateless = False
                    chk.bad("R3", f"{DT}:{name}.{mname} | shared codec object keeps no state", meth.loc(n),
                            f"`{src(n)[:70]}` writes to the packer itself; the instance is shared through ODVariable.STRUCT_TYPES, so one decode/encode changes what the next one (of any variable, on any thread) sees")
            if isinstance(n, ast.Call) and isinstance(n.func, ast.Attribute) and n.func.attr in (_sh.MUTATORS | _sh.BUFFER_SINKS):
                recv = n.func.value
                args = list(n.args[:2]) if n.func.attr in _sh.BUFFER_SINKS else [recv]
                for a in args:
                    if isinstance(a, ast.Attribute) and dotted(a.value) == "self":
                        stateless = False
                        chk.bad("R3", f"{DT}:{name}.{mname} | shared codec object keeps no state", meth.loc(n), f"`{src(n)[:70]}` mutates state of the shared packer")
    if stateless:
        chk.ok("R3", f"{DT}:{name} | shared codec object keeps no state", where0)
    # (a) constructor threshold chain, partially evaluated per width
    wide = {}
    for w in (8, 16, 24, 32, 40, 48, 56, 64):
        fmt = _eval_init(folder, init, w)
        if fmt is None:
            chk.unk("R3", f"{DT}:{name}.__init__ | width {w}", init.loc(), "cannot determine the format chosen")
            continue
        prefix, letter = (fmt[0], fmt[1:]) if fmt[0] in "<>=!@" else ("", fmt)
        fb, fs, fk = O.FMT.get(letter, (None, None, None))
        smallest = min(b for b in (8, 16, 32, 64) if b >= w)
        ok = fk == "int" and fs == signed and fb == smallest and (fb == 8 or prefix == "<")
        chk.check(ok, "R3", f"{DT}:{name}.__init__ | width {w}", init.loc(),
                  f"width {w} selects {fmt!r}; expected the smallest little-endian {'signed' if signed else 'unsigned'} "
                  f"standard format >= {w} bits")
        wide[w] = fb
    # (b) size
    rets = [n for n in ast.walk(size.node) if isinstance(n, ast.Return)]
    chk.check(len(rets) == 1 and src(rets[0].value) in ("self.width // 8",), "R3", f"{DT}:{name}.size", size.loc(),
              f"size is {src(rets[0].value) if rets else '?'}, expected self.width // 8")
    # (c) pack: truncation guarded by exact range
    ff = FuncFacts(repo, folder, pack, "C04.R3")
    chk.saw_cfg(ff.cfg)
    truncs = []
    for r in [n for n in ast.walk(pack.node) if isinstance(n, ast.Return) and n.value is not None]:
        v = r.value
        if isinstance(v, ast.Subscript) and isinstance(v.slice, ast.Slice):
            truncs.append(r)
    if not truncs:
        chk.unk("R3", f"{DT}:{name}.pack", pack.loc(), "no truncating slice found in pack(); shape not recognised")
    for r in truncs:
        up = r.value.slice.upper
        if r.value.slice.lower is not None or up is None or src(up) != "self.size":
            chk.unk("R3", f"{DT}:{name}.pack | slice", pack.loc(r), f"slice {src(r.value)} is not [:self.size]")
            continue
        subject = "v[0]"
        for w in (24, 40, 48, 56, 8, 16, 32, 64):
            lo, hi = range_constraints(ff, r, subject, {"self.width": w}, repo, folder)
            want_lo, want_hi = (-(1 << (w - 1)), (1 << (w - 1)) - 1) if signed else (0, (1 << w) - 1)
            if w in (8, 16, 32, 64):
                # the wide format has exactly this width: CPython's struct already rejects out-of-range values;
                # a guard, if present, must not be narrower than the range
                ok = (lo is None or lo <= want_lo) and (hi is None or hi >= want_hi)
                det = f"guard [{lo}, {hi}] rejects legal values of the {w}-bit type"
            else:
                ok = lo == want_lo and hi == want_hi
                det = (f"value range accepted before truncation to {w} bits is [{lo}, {hi}], the type's range is "
                       f"[{want_lo}, {want_hi}]: " + ("out-of-range values wrap silently" if (lo is None or hi is None or lo < want_lo or hi > want_hi)
                                                     else "legal values are rejected"))
            chk.check(ok, "R3", f"{DT}:{name}.pack | range guard width {w}", pack.loc(r), det)
    # (d) unpack padding
    ffu = FuncFacts(repo, folder, unpack, "C04.R3")
    calls = [c for c in ast.walk(unpack.node) if isinstance(c, ast.Call) and dotted(c.func) == "super().unpack"]
    if len(calls) != 1 or len(calls[0].args) != 1:
        chk.unk("R3", f"{DT}:{name}.unpack", unpack.loc(), "expected exactly one super().unpack(<padded buffer>)")
        return
    arg = calls[0].args[0]
    defs = ffu.single_defs()
    if isinstance(arg, ast.Name) and arg.id in defs:
        arg = defs[arg.id]
    ok_shape = (isinstance(arg, ast.BinOp) and isinstance(arg.op, ast.Add) and src(arg.left) == "buffer"
                and isinstance(arg.right, ast.BinOp) and isinstance(arg.right.op, ast.Mult))
    if not ok_shape:
        text = src(arg)
        if any(k in text for k in (".ljust(", ".rjust(", ".zfill(", "[:", "int.from_bytes")):
            chk.bad("R3", f"{DT}:{name}.unpack | padding", unpack.loc(calls[0]),
                    f"buffer is normalised to the wide format's size ({text}): a byte string of the wrong length "
                    f"is decoded into a number instead of being rejected")
        else:
            chk.unk("R3", f"{DT}:{name}.unpack | padding", unpack.loc(calls[0]), f"padding shape not recognised: {text}")
        return
    pad, count = arg.right.left, arg.right.right
    is_fill = lambda e: isinstance(e, ast.IfExp) or (isinstance(e, ast.Constant) and isinstance(e.value, bytes))  # noqa
    if is_fill(count) and not is_fill(pad):
        pad, count = count, pad
    # pad count = (size of the wide struct format) - (own size): `super(...)` must resolve past every repository class that
    # overrides `size`, i.e. to struct.Struct.size
    ok_cnt, why_cnt = False, f"pad count is {src(count)}, expected super().size - self.size"
    if isinstance(count, ast.BinOp) and isinstance(count.op, ast.Sub) and src(count.right) == "self.size" and isinstance(count.left, ast.Attribute) and count.left.attr == "size" \
            and isinstance(count.left.value, ast.Call) and dotted(count.left.value.func) == "super":
        sargs = count.left.value.args
        chain = repo.mro(unpack.cls if unpack.cls is not None else cls)
        start_cls = unpack.cls if unpack.cls is not None else cls
        if len(sargs) == 2 and src(sargs[1]) == "self":
            start_cls = next((k for k in repo.mro(cls) if k.name == src(sargs[0])), None)
        elif sargs:
            start_cls = None
        if start_cls is not None:
            full = repo.mro(cls)
            idx = [i for i, k in enumerate(full) if k is start_cls]
            later = full[idx[0] + 1:] if idx else []
            overriders = [k.name for k in later if "size" in k.methods or "size" in k.consts]
            ok_cnt = not overriders
            if overriders:
                why_cnt = f"`{src(count.left)}` resolves to {overriders[0]}.size (the narrow size), not to struct.Struct.size: the pad count is 0 and short buffers are not rejected"
    chk.check(ok_cnt, "R3", f"{DT}:{name}.unpack | pad count", unpack.loc(calls[0]), why_cnt + " (so that only a buffer of exactly self.size bytes reaches the wide format's size)")
    if not signed:
        v = folder.try_fold(pad, Scope(cls.mod, cls), None)
        chk.check(v == b"\x00", "R3", f"{DT}:{name}.unpack | pad byte", unpack.loc(calls[0]), f"pad byte is {v!r}, expected b'\\x00'")
    else:
        if isinstance(pad, ast.Name) and pad.id in defs:
            pad = defs[pad.id]
        if not isinstance(pad, ast.IfExp):
            chk.unk("R3", f"{DT}:{name}.unpack | pad byte", unpack.loc(calls[0]), f"sign-dependent pad expected, got {src(pad)}")
            return
        t = ffu.norm_ast(pad.test)
        a = folder.try_fold(pad.body, Scope(cls.mod, cls), None)
        b = folder.try_fold(pad.orelse, Scope(cls.mod, cls), None)
        pol = _sign_test(t)
        if pol is None:
            chk.bad("R3", f"{DT}:{name}.unpack | sign test", unpack.loc(calls[0]),
                    f"the condition selecting the pad byte, {ast.unparse(t)}, is not a test of bit 7 of buffer[self.size - 1]")
            return
        neg_pad, pos_pad = (a, b) if pol else (b, a)
        chk.check(neg_pad == b"\xff" and pos_pad == b"\x00", "R3", f"{DT}:{name}.unpack | pad byte", unpack.loc(calls[0]),
                  f"negative values are padded with {neg_pad!r} and non-negative with {pos_pad!r}; expected b'\\xff' / b'\\x00'")
        chk.ok("R3", f"{DT}:{name}.unpack | sign test", unpack.loc(calls[0]), ast.unparse(t))


def _sign_test(t: ast.expr):
    """True if `t` holds exactly when bit 7 of buffer[self.size - 1] is set, False if exactly when clear, None otherwise."""
    top = "buffer[self.size - 1]"

    def is_masked(e):
        return (isinstance(e, ast.BinOp) and isinstance(e.op, ast.BitAnd)
                and {ast.unparse(e.left), ast.unparse(e.right)} == {top, "128"})
    if is_masked(t):
        return True
    if isinstance(t, ast.UnaryOp) and isinstance(t.op, ast.Not) and is_masked(t.operand):
        return False
    if isinstance(t, ast.Call) and dotted(t.func) == "bool" and len(t.args) == 1 and is_masked(t.args[0]):
        return True
    if isinstance(t, ast.Compare) and len(t.ops) == 1 and isinstance(t.comparators[0], ast.Constant):
        c = t.comparators[0].value
        op = type(t.ops[0])
        if is_masked(t.left):
            if (op, c) in ((ast.Gt, 0), (ast.NotEq, 0), (ast.Eq, 128), (ast.GtE, 128), (ast.GtE, 1)):
                return True
            if (op, c) in ((ast.Eq, 0), (ast.NotEq, 128), (ast.Lt, 128), (ast.Lt, 1), (ast.LtE, 0)):
                return False
        if ast.unparse(t.left) == top:
            if (op, c) in ((ast.GtE, 128), (ast.Gt, 127)):
                return True
            if (op, c) in ((ast.Lt, 128), (ast.LtE, 127)):
                return False
        if (isinstance(t.left, ast.BinOp) and isinstance(t.left.op, ast.RShift) and ast.unparse(t.left.left) == top
                and ast.unparse(t.left.right) == "7"):
            if (op, c) in ((ast.Eq, 1), (ast.NotEq, 0), (ast.Gt, 0)):
                return True
            if (op, c) in ((ast.Eq, 0), (ast.NotEq, 1)):
                return False
    return None


def _eval_init(folder: Folder, init, width: int):
    """Partial evaluation of the constructor's if/elif chain for one concrete width: the format handed to super().__init__."""
    env = {"width": width}
    sc = Scope(init.mod, init.cls, env)
    fmt = {}

    def run(stmts):
        for st in stmts:
            if isinstance(st, ast.If):
                t = folder.try_fold(st.test, sc, None)
                if t is None:
                    return "?"
                r = run(st.body if t else st.orelse)
                if r is not None:
                    return r
            elif isinstance(st, ast.Raise):
                return "raise"
            elif isinstance(st, ast.Assign) and len(st.targets) == 1 and isinstance(st.targets[0], ast.Name):
                v = folder.try_fold(st.value, sc, None)
                if v is None:
                    return "?"
                env[st.targets[0].id] = v
            elif isinstance(st, ast.Expr) and isinstance(st.value, ast.Call) and dotted(st.value.func) == "super().__init__":
                v = folder.try_fold(st.value.args[0], sc, None) if st.value.args else None
                fmt["v"] = v
                return "done"
        return None
    r = run(init.node.body)
    if r != "done" or not isinstance(fmt.get("v"), str):
        return None
    return fmt["v"]
