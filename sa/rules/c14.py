"""C14 -- exporting a dictionary to EDS/DCF and importing it again loses nothing."""
from __future__ import annotations

import ast
import re

from .. import oracles as O
from ..fold import Scope, Unfoldable, dotted, src
from ..facts import assigned_targets
from .common import (ctx, ff_for, find_calls, must_pass, node_calls, own_nodes, partial_eval, path_text)
from .edscommon import ATTR_KEYS, E, OD, reader_pairs, signed_widths, writer_pairs

EXPLANATION = (
    "R1 attribute<->option agreement of exporter and importer for the 12 attributes of the statement (+ SubNumber/"
    "ObjectType of records and arrays); R2 _convert_variable/_revert_variable branch on the same type groups in the "
    "same order and the integer branch never puts a sign inside a 0x literal (negative values get the sign outside); "
    "R3 signed limit widths (shared with C08.R3); R4 the exporter's section-name formats, instantiated for boundary "
    "indexes, are accepted by the importer's patterns; R5 the three index predicates that decide which list an object "
    "is exported in partition [0x1000, 0xFFFF] (specialised at every breakpoint of their literals); R6 destination "
    "independence: dest only selects/opens the sink, what export_od opens it closes, the document is written once; R7 "
    "DCF extras: ParameterValue written only for DCF and from value_raw/value, bit rate /1000 <-> *1000, NodeID, same "
    "section spelling on both sides, comment lines numbered 1..n with Lines = n; R8 object lists: every exported index "
    "is written to its list and its object body; R9 presence conditions: every optional attribute (storage location, "
    "data/access type, default, value, limits, description, factor, unit) is written under a positive test of that "
    "same attribute, bit rate and node id of a DCF whenever set, the file name's suffix selects DCF/EDS when no type is given. R11 on import the node id in force (argument, else the document's NodeID) reaches every build_variable call and od.node_id (shared with C08.R7); R11 on import the node id in force (argument, else the document's NodeID) reaches every build_variable call and od.node_id (shared with C08.R7); R12 DeviceInfo tables of importer and exporter agree, CiA 306 types, a missing option skips only that option (shared with C08.R5); R10 structural assumptions shared by all properties: no class-level mutable object is mutated in place by instances, no method re-runs the constructor, logging statements cannot raise (typed eager formatting, divisions), no mutable default argument is kept or mutated, no new truth-value test of a None-able number, a look-up memory the pinned tree does not have is keyed by all its inputs (arithmetic keys folded over a grid of addresses) and, on the serving side, emptied somewhere."
    ' R7 / R9 and the attribute-option table are decided by specialising export_variable for probe variables (edscommon.export_writes); R5 accepts in-place selecting conditions; R1/R8 follow the kind dispatch through aliases.'
    " R2 also: the kind of value each data type's text becomes on import (shared with C08.R7); R9 also: text attributes are written unchanged."
    ' R6 also: an error of close() reaches the caller (no handler around close() completes normally).'
)
ASSUMPTIONS = [
    "not decided: round trip for random dictionaries; configparser write/read symmetry is the trusted base",
]


def run(chk):
    repo, folder = ctx(chk)
    mod = repo.mod(E, "C14")
    sc = Scope(mod)
    # ------------------------------------------------------------------ R1
    rp, wp = reader_pairs(repo, folder), writer_pairs(repo, folder)
    for attr, key in ATTR_KEYS.items():
        r, w = rp.get(attr), wp.get(attr)
        ok = r is not None and w is not None and r[0] == w[0] == key
        chk.check(ok, "R1", f"{E} | {attr} <-> {key}", f"{E}:{(w[1].lineno if w else 0)}",
                  f"exporter writes {attr} under {w[0] if w else 'nothing'}, importer reads it from {r[0] if r else 'nothing'} (CiA 306: {key}): the attribute does not survive the round trip")
    ex = repo.func(E, "export_eds", "C14.R1")
    fe = ff_for(chk, ex, "C14.R1")
    rec = [n for n in ast.walk(ex.node) if isinstance(n, ast.FunctionDef) and n.name == "export_record"]
    chk.check(len(rec) == 1, "R1", f"{E}:export_eds.export_record", ex.loc(), "export_record not found")
    if rec:
        sets = {folder.try_fold(c.args[1], sc, None): c for c in ast.walk(rec[0]) if isinstance(c, ast.Call) and dotted(c.func) == "eds.set" and len(c.args) == 3}
        chk.check("SubNumber" in sets and "ObjectType" in sets, "R1", f"{E}:export_record | SubNumber and ObjectType", ex.loc(rec[0]), f"{sorted(k for k in sets if k)}")
        ot = [n for n in ast.walk(rec[0]) if isinstance(n, ast.Assign) and src(n.targets[0]) == "ot"]
        chk.check(len(ot) == 1 and src(ot[0].value) == "RECORD if isinstance(var, objectdictionary.ODRecord) else ARR", "R1", f"{E}:export_record | kind encoded", ex.loc(rec[0]), "")
        loops = [n for n in ast.walk(rec[0]) if isinstance(n, ast.For)]
        chk.check(len(loops) == 1 and src(loops[0].iter) == "var" and any(isinstance(c, ast.Call) and dotted(c.func) == "export_variable" and src(c.args[0]) == f"var[{src(loops[0].target)}]"
                                                                          for c in ast.walk(loops[0])), "R1", f"{E}:export_record | every member exported", ex.loc(rec[0]), "")
    # which writer each kind of object reaches: the if-chain over isinstance(<object>, <kind>) in export_object, or written in place in
    # add_list's loop; a local alias (`export_array = export_record`) is followed to the function it names
    aliases = {src(n.targets[0]): src(n.value) for n in ast.walk(ex.node) if isinstance(n, ast.Assign) and len(n.targets) == 1 and isinstance(n.targets[0], ast.Name)
               and isinstance(n.value, ast.Name) and n.value.id in ("export_record", "export_variable")}

    def _dispatch(stmts, subject):
        out = {}
        for i in stmts:
            while isinstance(i, ast.If):
                t = i.test
                if not (isinstance(t, ast.Call) and dotted(t.func) == "isinstance" and len(t.args) == 2 and src(t.args[0]) == subject and len(i.body) == 1):
                    break
                b = i.body[0]
                call = b.value if isinstance(b, (ast.Return, ast.Expr)) and isinstance(b.value, ast.Call) else None
                if call is None or not call.args or src(call.args[0]) != subject:
                    break
                for k in (t.args[1].elts if isinstance(t.args[1], ast.Tuple) else [t.args[1]]):
                    out.setdefault(src(k), aliases.get(dotted(call.func), dotted(call.func)))
                i = i.orelse[0] if len(i.orelse) == 1 else None
        return out
    kinds = None
    eo_ = [n for n in ast.walk(ex.node) if isinstance(n, ast.FunctionDef) and n.name == "export_object"]
    if eo_ and eo_[0].args.args:
        kinds = _dispatch(eo_[0].body, eo_[0].args.args[0].arg)
    else:
        for a_ in [n for n in ast.walk(ex.node) if isinstance(n, ast.FunctionDef) and n.name == "add_list"]:
            for lp in [n for n in ast.walk(a_) if isinstance(n, ast.For) and isinstance(n.target, ast.Name)]:
                k_ = _dispatch(lp.body, f"od[{lp.target.id}]")
                if k_:
                    kinds = k_
    if kinds is None:
        chk.unk("R1", f"{E}:export_eds | arrays exported like records", ex.loc(), "no dispatch over the kind of object found in export_object or add_list")
    else:
        chk.check(kinds.get("objectdictionary.ODArray") == "export_record" == kinds.get("objectdictionary.ODRecord"), "R1", f"{E}:export_eds | arrays exported like records", ex.loc(),
                  f"writers per kind: {kinds}")
    evs = [n for n in ast.walk(ex.node) if isinstance(n, ast.FunctionDef) and n.name == "export_variable"]
    if not evs:
        from ..loader import AnalysisError
        raise AnalysisError("C14.R1", "export_eds.export_variable not found")
    ev = evs[0]
    # values: data type, pdo mapping, limits are written in a form the importer parses
    for c in [x for x in ast.walk(ev) if isinstance(x, ast.Call) and dotted(x.func) == "eds.set" and len(x.args) == 3]:
        key = folder.try_fold(c.args[1], sc, None)
        v = src(c.args[2])
        if key == "DataType":
            chk.check(v == "f'0x{var.data_type:04X}'", "R1", f"{E}:export_variable | DataType literal", ex.loc(c), v)
        if key == "PDOMapping":
            chk.check(v in ("hex(var.pdo_mappable)", "int(var.pdo_mappable)", "f'{int(var.pdo_mappable)}'"), "R1", f"{E}:export_variable | PDOMapping literal", ex.loc(c), v)
        if key in ("LowLimit", "HighLimit"):
            chk.check(v in ("var.min", "var.max"), "R1", f"{E}:export_variable | {key} written as a plain (signed) decimal", ex.loc(c), v)
        if key == "AccessType":
            chk.check(v == "var.access_type", "R1", f"{E}:export_variable | AccessType", ex.loc(c), v)

    # ------------------------------------------------------------------ R2 converter agreement
    from .edscommon import convert_kinds
    convert_kinds(chk, "R2")            # what the exported text becomes on re-import, per data type (shared with C08.R7)
    cv = repo.func(E, "_convert_variable", "C14.R2")
    rv = repo.func(E, "_revert_variable", "C14.R2")
    chk.saw(cv); chk.saw(rv)

    def groups(f):
        out = []
        node = next((n for n in f.node.body if isinstance(n, ast.If) and "var_type" in src(n.test)), None)
        while node is not None:
            out.append(src(node.test))
            nxt = node.orelse[0] if len(node.orelse) == 1 and isinstance(node.orelse[0], ast.If) else None
            if nxt is None:
                out.append("else")
            node = nxt
        return out
    gc, gr = groups(cv), groups(rv)
    gr_t = [g for g in gr if "var_type" in g or g == "else"]
    # (the agreement of the two functions per type group is decided by the probes below, not by the shape of their if-chains)
    # integer branch of the reverter: sign-safe literal
    int_probes = [(O.DATA_TYPES["INTEGER16"][0], -5, "negative INTEGER16"), (O.DATA_TYPES["INTEGER32"][0], -2 ** 31, "minimum INTEGER32"), (O.DATA_TYPES["UNSIGNED8"][0], 0, "zero"),
                  (O.DATA_TYPES["UNSIGNED32"][0], 0xFFFFFFFF, "maximum UNSIGNED32"), (O.DATA_TYPES["INTEGER8"][0], 127, "positive INTEGER8")]
    int_probes += [(O.DATA_TYPES["INTEGER64"][0], v, f"INTEGER64 {v}") for v in (-2 ** 63, -256, -255, -129, -16, -15, -3, -2, -1, 1, 2, 3, 9, 10, 15, 16, 255, 256, 2 ** 63 - 1)]
    int_probes += [(O.DATA_TYPES["BOOLEAN"][0], v, f"BOOLEAN {v}") for v in (0, 1)]
    for code, val, what in int_probes:
        text = _revert_text(folder, rv, code, val)
        if text is None:
            chk.unk("R2", f"{E}:_revert_variable | {what}", rv.loc(), "integer branch does not specialise (f-string shape not recognised)")
            continue
        back = partial_eval(folder, cv.node, cv.mod, None, {"node_id": None, "var_type": code, "value": text})
        # int(value, 0) is not folded by the partial evaluator: model it here (the checker's model of int literals)
        try:
            parsed = int(text.replace(" ", "").upper(), 0)
        except ValueError:
            parsed = None
        chk.check(parsed == val, "R2", f"{E}:_revert_variable | {what} ({val}) is written as {text!r}", rv.loc(),
                  f"the importer's int(text, 0) {'cannot parse it' if parsed is None else 'reads ' + str(parsed)}: the value is lost on re-import")
    import struct as _st
    f32 = lambda x: _st.unpack("<f", _st.pack("<f", x))[0]  # noqa  (the checker's own model of a REAL32 value)
    fprobes = [(O.DATA_TYPES["REAL32"][0], f32(3.141592653589793), "REAL32"), (O.DATA_TYPES["REAL32"][0], 16777215.0, "REAL32"), (O.DATA_TYPES["REAL32"][0], f32(1 + 2 ** -23), "REAL32"),
               (O.DATA_TYPES["REAL32"][0], f32(-0.1), "REAL32"), (O.DATA_TYPES["REAL32"][0], f32(1e-38), "REAL32"),
               (O.DATA_TYPES["REAL64"][0], -1.2345678901234567e-05, "REAL64"), (O.DATA_TYPES["REAL64"][0], 0.1 + 0.2, "REAL64"), (O.DATA_TYPES["REAL64"][0], 1.7976931348623157e308, "REAL64"),
               # a REAL object whose value was given as a Python int in code (var.default = 2): the branch is chosen by the data type
               (O.DATA_TYPES["REAL32"][0], 2, "REAL32"), (O.DATA_TYPES["REAL64"][0], -3, "REAL64"), (O.DATA_TYPES["REAL64"][0], 0, "REAL64")]
    for code, val, what in fprobes:
        r = partial_eval(folder, rv.node, rv.mod, None, {"var_type": code, "value": val})
        text = r[1] if r[0] == "return" and isinstance(r[1], str) else _revert_text(folder, rv, code, val)
        if r[0] == "return" and isinstance(r[1], (int, float)) and not isinstance(r[1], bool) and type(val) is int:
            chk.check(r[1] == val, "R2", f"{E}:_revert_variable | {what} {val!r} handed on unchanged", rv.loc(), f"{r[1]!r} != {val!r}")
        elif r[0] == "return" and isinstance(r[1], float):
            chk.check(r[1] == val, "R2", f"{E}:_revert_variable | {what} {val!r} handed on unchanged", rv.loc(), f"{r[1]!r} != {val!r}")
        elif text is not None:
            try:
                back = float(text)
            except ValueError:
                back = None
            same = back is not None and (back == val or (what == "REAL32" and abs(back) < 3.5e38 and f32(back) == f32(val)))
            chk.check(same, "R2", f"{E}:_revert_variable | {what} {val!r} written as {text!r}", rv.loc(),
                      (f"re-import reads {back!r} instead of {val!r}: the text keeps too few digits" if back is not None else
                       f"the importer's float({text!r}) raises ValueError, which build_variable swallows: the value of the REAL object is lost on re-import"))
        else:
            chk.unk("R2", f"{E}:_revert_variable | {what}", rv.loc(), f"float branch not specialised: {r}")
    # byte-string and text defaults: what the reverter writes is what the converter reads back; None stays None
    for tname, val in (("OCTET_STRING", b"\x00\x01\xfe\xff"), ("DOMAIN", b"\x10"), ("OCTET_STRING", b"")):
        code = O.DATA_TYPES[tname][0]
        r = partial_eval(folder, rv.node, rv.mod, None, {"var_type": code, "value": val})
        if r[0] != "return":
            chk.unk("R2", f"{E}:_revert_variable | {tname} {val!r}", rv.loc(), f"byte-string branch not specialised: {r}")
            continue
        if not isinstance(r[1], str):
            chk.bad("R2", f"{E}:_revert_variable | {tname} {val!r} written as text", rv.loc(), f"the reverter returns {r[1]!r}, not hexadecimal text: the importer's bytes.fromhex cannot read it back")
            continue
        back = partial_eval(folder, cv.node, cv.mod, None, {"node_id": None, "var_type": code, "value": r[1]})
        if back[0] == "unknown":
            chk.unk("R2", f"{E}:_convert_variable | {tname} {r[1]!r}", cv.loc(), f"byte-string branch not specialised: {back}")
            continue
        chk.check(back == ("return", val), "R2", f"{E}:_revert_variable | {tname} {val!r} survives as {r[1]!r}", rv.loc(), f"re-import gives {back}")
    for tname, val in (("VISIBLE_STRING", "a b%c=d"), ("UNICODE_STRING", "\u00e5\u00e4")):
        code = O.DATA_TYPES[tname][0]
        r = partial_eval(folder, rv.node, rv.mod, None, {"var_type": code, "value": val})
        back = partial_eval(folder, cv.node, cv.mod, None, {"node_id": None, "var_type": code, "value": val})
        if r[0] == "unknown" or back[0] == "unknown":
            chk.unk("R2", f"{E}:_revert_variable | {tname}", rv.loc(), f"text branch not specialised: {r} / {back}")
            continue
        chk.check(r == ("return", val) and back == ("return", val), "R2", f"{E}:_revert_variable | {tname} text handed on unchanged", rv.loc(), f"reverter {r}, converter {back}")
    r = partial_eval(folder, rv.node, rv.mod, None, {"var_type": O.DATA_TYPES["UNSIGNED8"][0], "value": None})
    if r[0] == "unknown":
        chk.notes.append(f"C14.R2: _revert_variable(None) not specialised: {r[1]}")
    else:
        chk.check(r == ("return", None), "R2", f"{E}:_revert_variable | an absent value stays absent", rv.loc(), f"{r}")
    # ------------------------------------------------------------------ R3 signed widths (shared)
    f, widths = signed_widths(repo, folder)
    for name, (bits, r) in widths.items():
        if r[0] == "unknown":
            chk.unk("R3", f"{E}:_calc_bit_length | {name}", f.loc(), r[1])
        else:
            chk.check(r == ("return", bits), "R3", f"{E}:_calc_bit_length | {name}", f.loc(), f"{name}: {r}; expected width {bits} (limits of this type do not survive the round trip)")

    # ------------------------------------------------------------------ R4 section formats inside importer patterns
    ie = repo.func(E, "import_eds", "C14.R4")
    pats = [folder.try_fold(c.args[0], sc, None) for c in ast.walk(ie.node) if isinstance(c, ast.Call) and dotted(c.func) == "re.match" and len(c.args) == 2 and src(c.args[1]) == "section"]
    pats = [p for p in pats if isinstance(p, str)]
    fmts = [n for n in ast.walk(ev) if isinstance(n, ast.Assign) and src(n.targets[0]) == "section" and isinstance(n.value, ast.JoinedStr)]
    chk.floor("R4", len(fmts), 2, "section name formats in export_variable")
    for fm in fmts:
        is_sub = "subindex" in src(fm.value)
        for index, sub in ((0x1000, 0), (0x1A00, 1), (0xFFFF, 0xFF), (0x0002, 0x10)):
            name = _render(fm.value, {"var.index": index, "var.subindex": sub})
            if name is None:
                chk.unk("R4", f"{E}:export_variable | section format", ex.loc(fm), f"format `{src(fm.value)}` not rendered")
                break
            hits = []
            for p in pats:
                m = re.match(p, name)
                if m:
                    hits.append((p, m.groups()))
            want_groups = (f"{index:04X}", f"{sub:X}") if is_sub else ()
            ok = len(hits) == 1 and (not is_sub or (int(hits[0][1][0], 16), int(hits[0][1][1], 16)) == (index, sub)) and (is_sub or int(name, 16) == index)
            chk.check(ok, "R4", f"{E}:export_variable | section {name!r} parsed back", ex.loc(fm),
                      f"section name {name!r} is matched by {[h[0] for h in hits]}: expected exactly the {'sub-index' if is_sub else 'index'} pattern yielding ({index:#x}, {sub:#x})")
    for fmr in [n for n in ast.walk(rec[0]) if isinstance(n, ast.Assign) and src(n.targets[0]) == "section"] if rec else []:
        chk.check(src(fmr.value) == "f'{var.index:04X}'", "R4", f"{E}:export_record | section format", ex.loc(fmr), src(fmr.value))

    # ------------------------------------------------------------------ R5 index predicates partition
    preds = {n.name: n for n in ast.walk(ex.node) if isinstance(n, ast.FunctionDef) and n is not ex.node and len(n.args.args) == 1
             and any(isinstance(r_, ast.Return) for r_ in ast.walk(n)) and not any(isinstance(c_, ast.Call) and dotted(c_.func) in ("eds.set", "eds.add_section") for c_ in ast.walk(n))}

    def _pred_of(e, depth=0):
        """Name of the predicate that selects the indices of `e` from od: list(filter(p, od)), filter(p, od), [i for i in od if p(i)]."""
        if depth > 3:
            return None
        if isinstance(e, ast.Name):
            ds = [n for n in ast.walk(ex.node) if isinstance(n, ast.Assign) and src(n.targets[0]) == e.id]
            return _pred_of(ds[0].value, depth + 1) if len(ds) == 1 else None
        if isinstance(e, ast.Call) and src(e.func) in ("list", "sorted", "tuple") and len(e.args) == 1:
            return _pred_of(e.args[0], depth + 1)
        if isinstance(e, ast.Call) and dotted(e.func) == "filter" and len(e.args) == 2 and src(e.args[1]) == "od":
            return src(e.args[0])
        if isinstance(e, (ast.ListComp, ast.GeneratorExp)) and len(e.generators) == 1 and src(e.generators[0].iter) == "od" and len(e.generators[0].ifs) == 1 \
                and isinstance(e.generators[0].target, ast.Name) and src(e.elt) == e.generators[0].target.id:
            c_ = e.generators[0].ifs[0]
            if isinstance(c_, ast.Call) and isinstance(c_.func, ast.Name) and [src(a) for a in c_.args] == [e.generators[0].target.id]:
                return c_.func.id
        if isinstance(e, (ast.ListComp, ast.GeneratorExp)) and len(e.generators) == 1 and src(e.generators[0].iter) == "od" and e.generators[0].ifs \
                and isinstance(e.generators[0].target, ast.Name) and src(e.elt) == e.generators[0].target.id:
            # the selecting condition written in place: an anonymous predicate over the comprehension variable
            ifs = e.generators[0].ifs
            cond = ifs[0] if len(ifs) == 1 else ast.BoolOp(op=ast.And(), values=list(ifs))
            fn = ast.FunctionDef(name=f"<condition at line {getattr(e, 'lineno', 0)}>", args=ast.arguments(posonlyargs=[], args=[ast.arg(arg=e.generators[0].target.id)], kwonlyargs=[], kw_defaults=[], defaults=[]),
                                 body=[ast.Return(value=cond)], decorator_list=[])
            ast.fix_missing_locations(fn)
            anon[fn.name] = fn
            return fn.name
        return None
    anon = {}
    lists = {}
    for c_ in [c for c in ast.walk(ex.node) if isinstance(c, ast.Call) and dotted(c.func) == "add_list" and len(c.args) == 2]:
        lists[src(c_.args[1])] = _pred_of(c_.args[1])
    preds.update(anon)
    chk.check(len(lists) == 3 and all(v in preds for v in lists.values()), "R5", f"{E}:export_eds | three object lists filtered from od", ex.loc(), f"{lists}")
    used = [preds[p] for p in lists.values() if p in preds]
    # constants of export_eds the conditions may name (e.g. a set of mandatory indices), folded from their single definition
    consts = {}
    for st in ex.node.body:
        if isinstance(st, ast.Assign) and len(st.targets) == 1 and isinstance(st.targets[0], ast.Name):
            nm = st.targets[0].id
            if sum(1 for n in ast.walk(ex.node) if isinstance(n, ast.Name) and n.id == nm and isinstance(n.ctx, ast.Store)) == 1:
                try:
                    consts[nm] = folder.fold(st.value, sc)
                except Exception:
                    pass
    if len(used) == 3:
        lits = set()
        for p in preds.values():
            for c in ast.walk(p):
                if isinstance(c, ast.Name) and isinstance(consts.get(c.id), (set, frozenset, list, tuple)):
                    lits |= {y + d for y in consts[c.id] if isinstance(y, int) for d in (-1, 0, 1)}
            for c in ast.walk(p):
                if isinstance(c, ast.Constant) and isinstance(c.value, int) and not isinstance(c.value, bool):
                    lits |= {c.value - 1, c.value, c.value + 1}
        points = sorted(x for x in lits | {0x1000, 0x1001, 0xFFFF, 0xFFFE} if 0x1000 <= x <= 0xFFFF)
        bad = None
        for x in points:
            vals = []
            for p in used:
                r = partial_eval(folder, p, mod, None, {**consts, p.args.args[0].arg: x}, preds)
                if r[0] != "return":
                    bad = ("unknown", f"{p.name}({x:#x}): {r}")
                    break
                vals.append(bool(r[1]))
            if bad:
                break
            if sum(vals) != 1:
                bad = ("bad", f"index {x:#06x} is in {sum(vals)} of the three lists ({', '.join(p.name for p, v in zip(used, vals) if v) or 'none'}): "
                              + ("the object is silently left out of the exported document" if sum(vals) == 0 else "the object is exported twice"))
                break
        if bad and bad[0] == "unknown":
            chk.unk("R5", f"{E}:export_eds | index predicates", ex.loc(), bad[1])
        else:
            chk.check(bad is None, "R5", f"{E}:export_eds | index predicates partition 0x1000..0xFFFF", ex.loc(), bad[1] if bad else "",
                      f"specialised at {len(points)} breakpoints of the predicates' literals")
    al = [n for n in ast.walk(ex.node) if isinstance(n, ast.FunctionDef) and n.name == "add_list"]
    if al:
        a = al[0]
        loops = [n for n in ast.walk(a) if isinstance(n, ast.For)]
        ok = any(src(lp.iter) == "list" and any(isinstance(c, ast.Call) and dotted(c.func) == "export_object" and src(c.args[0]) == f"od[{src(lp.target)}]" for c in ast.walk(lp)) for lp in loops)
        if not ok and not eo_:
            # the dispatch written in place: every kind of object must reach its writer from the loop over the list
            ok = any(src(lp.iter) == "list" and isinstance(lp.target, ast.Name) and _dispatch(lp.body, f"od[{lp.target.id}]") ==
                     {"objectdictionary.ODVariable": "export_variable", "objectdictionary.ODRecord": "export_record", "objectdictionary.ODArray": "export_record"} for lp in loops)
        chk.check(ok, "R8", f"{E}:export_eds.add_list | every listed object is exported", ex.loc(a), "")
        cnt = [c for c in ast.walk(a) if isinstance(c, ast.Call) and dotted(c.func) == "eds.set" and folder.try_fold(c.args[1], sc, None) == "SupportedObjects"]
        chk.check(len(cnt) == 1 and src(cnt[0].args[2]) == "len(list)", "R8", f"{E}:export_eds.add_list | SupportedObjects", ex.loc(a), "")
        calls = [(folder.try_fold(c.args[0], sc, None), src(c.args[1])) for c in ast.walk(ex.node) if isinstance(c, ast.Call) and dotted(c.func) == "add_list"]
        chk.check(sorted(x[1] for x in calls) == sorted(lists) and len(calls) == 3, "R8", f"{E}:export_eds | all three lists written", ex.loc(), f"{calls}")
    eo = [n for n in ast.walk(ex.node) if isinstance(n, ast.FunctionDef) and n.name == "export_object"]
    if eo:
        kinds = {src(i.test.args[1]): dotted(i.body[0].value.func) for i in eo[0].body if isinstance(i, ast.If) and isinstance(i.test, ast.Call) and isinstance(i.body[0], ast.Return)}
        kinds = {k: aliases.get(v, v) for k, v in kinds.items()}
        chk.check(kinds == {"objectdictionary.ODVariable": "export_variable", "objectdictionary.ODRecord": "export_record", "objectdictionary.ODArray": "export_record"}, "R8",
                  f"{E}:export_eds.export_object | dispatch on kind", ex.loc(eo[0]), f"{kinds}")

    # ------------------------------------------------------------------ R6 destination independence
    xo = repo.func(OD, "export_od", "C14.R6")
    fx = ff_for(chk, xo, "C14.R6")
    opens = [n for n in fx.cfg.nodes if n.kind == "stmt" and isinstance(n.ast, ast.Assign) and isinstance(n.ast.value, ast.Call) and dotted(n.ast.value.func) == "open"]
    chk.check(len(opens) == 1 and src(opens[0].ast.targets[0]) == "dest" and [src(a) for a in opens[0].ast.value.args] == ["dest", "'w'"], "R6", f"{OD}:export_od | sink opened from the file name", xo.loc(), "")
    flags = [n for n in fx.cfg.nodes if n.kind == "stmt" and isinstance(n.ast, ast.Assign) and src(n.ast.targets[0]) == "opened_here" and folder.try_fold(n.ast.value, Scope(xo.mod), None) is True]
    tries = [n for n in own_nodes(xo.node) if isinstance(n, ast.Try) and n.finalbody]
    ok = len(tries) == 1 and any(isinstance(s_, ast.If) and src(s_.test) == "opened_here" and any(isinstance(c, ast.Call) and dotted(c.func) == "dest.close" for c in ast.walk(s_)) for s_ in tries[0].finalbody)
    # a failing close() is a failing export: the tail of the document is flushed there, so its error may not be swallowed
    for tr_ in [n for n in ast.walk(xo.node) if isinstance(n, ast.Try)]:
        if any(isinstance(c, ast.Call) and (dotted(c.func) or "").endswith(".close") for b_ in tr_.body for c in ast.walk(b_)):
            for h_ in tr_.handlers:
                if not any(isinstance(x, ast.Raise) for x in ast.walk(h_)):
                    chk.bad("R6", f"{OD}:export_od | an error of close() reaches the caller", xo.loc(h_),
                            f"`except {src(h_.type) if h_.type is not None else ''}` around close() completes normally: buffered text is written by close(), so a full disk or a revoked "
                            f"file leaves a truncated document while export_od reports success")
    chk.check(ok and len(flags) == 1 and all(any(x is o.ast for b in tries[0].body for x in ast.walk(b)) for o in opens), "R6", f"{OD}:export_od | what it opens it closes", xo.loc(),
              "the file opened by export_od is not closed in a finally clause guarded by opened_here")
    for o in opens:
        chk.check(any(fl in fx.cfg.reach_from(o) for fl in flags), "R6", f"{OD}:export_od | flag set after opening", xo.loc(o.ast), "")
    for n in [x for x in fx.cfg.nodes if x.kind == "stmt" and isinstance(x.ast, ast.Assign) and src(x.ast.targets[0]) == "doc_type"]:
        g = [(src(e), p) for e, p in fx.facts_at(n.ast)]
        chk.check(("doc_type is None", True) in g, "R6", f"{OD}:export_od | `{src(n.ast)}` only when no document type was given", xo.loc(n.ast),
                  f"doc_type is overwritten under {g}: the file name's suffix overrides an explicit doc_type, so the destination changes the document")
    exports = [c for c in ast.walk(xo.node) if isinstance(c, ast.Call) and dotted(c.func) in ("eds.export_eds", "eds.export_dcf")]
    chk.check(len(exports) == 2 and all([src(a) for a in c.args] == ["od", "dest"] for c in exports), "R6", f"{OD}:export_od | same (od, dest) handed to both writers", xo.loc(), "")
    for c in exports:
        st = fx.stmt_of(c)
        g = [(src(e), p) for e, p in fx.facts_at(st)]
        want = "eds" if dotted(c.func).endswith("export_eds") else "dcf"
        chk.check((f"doc_type == '{want}'", True) in g, "R6", f"{OD}:export_od | {want} selected by doc_type", xo.loc(c), f"{g}")
    # in export_eds: dest only used for default and the final write
    uses = [n for n in ast.walk(ex.node) if isinstance(n, ast.Name) and n.id == "dest" and isinstance(n.ctx, ast.Load)]
    ok_uses = all(any(n is x for x in ast.walk(w)) for n in uses for w in [ex.node] if True)
    writes = [c for c in ast.walk(ex.node) if isinstance(c, ast.Call) and dotted(c.func) == "eds.write"]
    chk.check(len(writes) == 1 and src(writes[0].args[0]) == "dest", "R6", f"{E}:export_eds | document written once to dest", ex.loc(), f"{[src(w) for w in writes]}")
    other = [n for n in uses if not any(n is x for w in writes for x in ast.walk(w)) and not any(n is x for i in ast.walk(ex.node) if isinstance(i, ast.If) and src(i.test) == "not dest" for x in ast.walk(i.test))]
    chk.check(not other, "R6", f"{E}:export_eds | dest does not influence the document", ex.loc(), f"dest is also read at lines {[n.lineno for n in other]}")
    dflt = [i for i in ast.walk(ex.node) if isinstance(i, ast.If) and src(i.test) == "not dest"]
    chk.check(len(dflt) == 1 and any(src(s_) == "dest = sys.stdout" for s_ in dflt[0].body), "R6", f"{E}:export_eds | None means standard output", ex.loc(), "")
    xd = repo.func(E, "export_dcf", "C14.R6")
    chk.saw(xd)
    c = [x for x in ast.walk(xd.node) if isinstance(x, ast.Call) and dotted(x.func) == "export_eds"]
    chk.check(len(c) == 1 and [src(a) for a in c[0].args] == ["od", "dest", "fileInfo", "True"], "R6", f"{E}:export_dcf | same writer with commissioning data", xd.loc(), "")

    # ------------------------------------------------------------------ R7 DCF extras
    # decided by specialising export_variable for probe variables: the original text wins when there is one, else the value is
    # converted, nothing is written for None; ParameterValue only in a DCF.  (3 x 4 x 2 probes per option.)
    from .edscommon import ABSENT, export_writes
    rvf = [n for n in mod.tree.body if isinstance(n, ast.FunctionDef) and n.name == "_revert_variable"]
    sim_ok = bool(rvf)
    n_probe = 0
    for raw_attr, val_attr, key, dcf_only in (("default_raw", "default", "DefaultValue", False), ("value_raw", "value", "ParameterValue", True)):
        bad = None
        for dcf in (False, True):
            for raw in (ABSENT, None, "0x2A", "$NODEID+0x10"):
                for val in (None, 0, 7, -3):
                    r = export_writes(repo, folder, {raw_attr: raw, val_attr: val}, dcf)
                    if r[0] == "unknown":
                        sim_ok = False
                        break
                    n_probe += 1
                    what = f"{raw_attr}={'<absent>' if raw is ABSENT else repr(raw)}, {val_attr}={val!r}, {'DCF' if dcf else 'EDS'}"
                    if r[0] == "raise":
                        bad = bad or f"{what}: exporting raises {r[1]}"
                        continue
                    got = [v for _s, k, v in r[1] if k == key]
                    if dcf_only and not dcf:
                        want = []
                    elif raw is not ABSENT and raw is not None:
                        want = [raw]
                    elif val is not None:
                        t = partial_eval(folder, rvf[0], mod, None, dict(zip([a.arg for a in rvf[0].args.args], [5, val])))
                        if t[0] != "return":
                            sim_ok = False
                            break
                        want = [t[1]]
                    else:
                        want = []
                    if got != want:
                        bad = bad or f"{what}: {key} written as {got}, expected {want}" + (" (the original text of an imported value must be re-emitted verbatim)" if want and want[0] == raw else "")
                if not sim_ok:
                    break
            if not sim_ok:
                break
        if not sim_ok:
            break
        chk.check(bad is None, "R7", f"{E}:export_variable | {key} from {raw_attr} else {val_attr}" + (", only in a DCF" if dcf_only else ""), ex.loc(ev), bad or "",
                  "export_variable specialised for probe variables (original text absent / None / present x value None / 0 / positive / negative x EDS / DCF)")
    if not sim_ok:
        pvs = [c for c in ast.walk(ev) if isinstance(c, ast.Call) and dotted(c.func) == "eds.set" and folder.try_fold(c.args[1], sc, None) == "ParameterValue"]
        chk.floor("R7", len(pvs), 2, "ParameterValue writers")
        for c in pvs:
            inside = [i for i in ast.walk(ev) if isinstance(i, ast.If) and src(i.test) == "device_commisioning" and any(x is c for x in ast.walk(i))]
            chk.check(bool(inside), "R7", f"{E}:export_variable | ParameterValue only in DCF ({src(c.args[2])[:30]})", ex.loc(c), "")
            v = src(c.args[2])
            chk.check(v in ("var.value_raw", "_revert_variable(var.data_type, var.value)"), "R7", f"{E}:export_variable | ParameterValue source {v[:30]}", ex.loc(c), v)
        dvs = [c for c in ast.walk(ev) if isinstance(c, ast.Call) and dotted(c.func) == "eds.set" and folder.try_fold(c.args[1], sc, None) == "DefaultValue"]
        for c in dvs:
            v = src(c.args[2])
            chk.check(v in ("var.default_raw", "_revert_variable(var.data_type, var.default)"), "R7", f"{E}:export_variable | DefaultValue source {v[:30]}", ex.loc(c), v)
    dc = [c for c in ast.walk(ex.node) if isinstance(c, ast.Call) and dotted(c.func) == "eds.set" and folder.try_fold(c.args[0], sc, None) == "DeviceComissioning"]
    got = {folder.try_fold(c.args[1], sc, None): src(c.args[2]) for c in dc}
    chk.check(got == {"Baudrate": "int(od.bitrate / 1000)", "NodeID": "int(od.node_id)"}, "R7", f"{E}:export_eds | DeviceComissioning options", ex.loc(), f"{got}")
    rd = {}
    for c in ast.walk(ie.node):
        if isinstance(c, ast.Call) and dotted(c.func) in ("eds.get", "eds.getint") and c.args and folder.try_fold(c.args[0], sc, None) == "DeviceComissioning":
            rd[folder.try_fold(c.args[1], sc, None)] = c
    chk.check(set(rd) == {"Baudrate", "NodeID"}, "R7", f"{E}:import_eds | DeviceComissioning options read", ie.loc(), f"{sorted(rd)}")
    br = [n for n in own_nodes(ie.node) if isinstance(n, ast.Assign) and src(n.targets[0]) == "od.bitrate"]
    chk.check(len(br) == 1 and src(br[0].value) in ("val * 1000", "1000 * val"), "R7", f"{E}:import_eds | bit rate kbit/s -> bit/s", ie.loc(), f"{[src(b) for b in br]}")
    secs = {folder.try_fold(c.args[0], sc, None) for c in ast.walk(ie.node) if isinstance(c, ast.Call) and dotted(c.func) == "eds.has_section"}
    wsecs = {folder.try_fold(c.args[0], sc, None) for c in ast.walk(ex.node) if isinstance(c, ast.Call) and dotted(c.func) == "eds.add_section" and isinstance(c.args[0], ast.Constant)}
    chk.check({"FileInfo", "Comments", "DeviceInfo", "DeviceComissioning"} <= secs and {"FileInfo", "Comments", "DeviceInfo", "DeviceComissioning"} <= wsecs, "R7",
              f"{E} | fixed sections spelled alike on both sides", E, f"read {sorted(s_ for s_ in secs if s_)}, written {sorted(s_ for s_ in wsecs if s_)}")
    # comments
    cm = [c for c in ast.walk(ex.node) if isinstance(c, ast.Call) and dotted(c.func) == "eds.set" and folder.try_fold(c.args[0], sc, None) == "Comments"]
    import re as _re2
    keys = {_re2.sub(r"\{[A-Za-z_][A-Za-z_0-9]*\}", "{_}", src(c.args[1])) for c in cm}       # the counter may have any name
    chk.check(keys == {"f'Line{_}'", "'Lines'"}, "R7", f"{E}:export_eds | comment lines", ex.loc(), f"{keys}")
    rk = {src(c.args[1]) for c in ast.walk(ie.node) if isinstance(c, ast.Call) and dotted(c.func) == "eds.get" and c.args and folder.try_fold(c.args[0], sc, None) == "Comments"}
    chk.check(rk == {"f'Line{line}'", "'Lines'"}, "R7", f"{E}:import_eds | comment lines", ie.loc(), f"{rk}")

    # comment counter: lines are numbered 1..n and `Lines` is n
    cml = [l for l in ast.walk(ex.node) if isinstance(l, ast.For) and any(c in cm for c in ast.walk(l))]
    chk.check(len(cml) == 1, "R7", f"{E}:export_eds | one loop writes the comment lines", ex.loc(), f"{len(cml)} loops")
    for l in cml:
        line_set = [c for c in cm if any(c is x for x in ast.walk(l))]
        if isinstance(l.iter, ast.Call) and dotted(l.iter.func) == "enumerate":
            st_ = l.iter.args[1] if len(l.iter.args) > 1 else next((k.value for k in l.iter.keywords if k.arg == "start"), None)
            it0 = l.iter.args[0]
            if isinstance(it0, ast.Name):
                ds_ = [n for n in own_nodes(ex.node) if isinstance(n, ast.Assign) and len(n.targets) == 1 and src(n.targets[0]) == it0.id]
                it0 = ds_[0].value if len(ds_) == 1 else it0
            chk.check(st_ is not None and folder.try_fold(st_, sc, None) == 1 and src(it0) == "od.comments.splitlines()", "R7", f"{E}:export_eds | comment lines numbered from 1", ex.loc(l), src(l.iter))
            # `Lines` is the number of lines written: len() of the same sequence, or the last counter value
            tot = [c for c in cm if src(c.args[1]) == "'Lines'"]
            for c in tot:
                v_ = c.args[2]
                ok_ = isinstance(v_, ast.Call) and dotted(v_.func) == "len" and (src(v_.args[0]) == src(l.iter.args[0]) or src(v_.args[0]) == "od.comments.splitlines()")
                chk.check(ok_, "R7", f"{E}:export_eds | Lines = number of comment lines", ex.loc(c), f"Lines written as {src(v_)}")
            continue
        chk.check(src(l.iter) == "od.comments.splitlines()", "R7", f"{E}:export_eds | every line of od.comments written", ex.loc(l), src(l.iter))
        incs = [n for n in l.body if isinstance(n, ast.AugAssign) and src(n.target) == "i" and isinstance(n.op, ast.Add) and folder.try_fold(n.value, sc, None) == 1]
        allinc = [n for n in ast.walk(l) if isinstance(n, (ast.AugAssign, ast.Assign)) and "i" in assigned_targets(n)]
        first_set = min((c.lineno for c in line_set), default=0)
        chk.check(len(incs) == 1 and len(allinc) == 1 and incs[0].lineno < first_set, "R7", f"{E}:export_eds | comment counter advances before each line is written", ex.loc(l),
                  f"counter updates {[src(n) for n in allinc]}: the importer reads Line1..Line<Lines>")
        inits = [n for n in own_nodes(ex.node) if isinstance(n, (ast.Assign, ast.AugAssign, ast.For)) and "i" in assigned_targets(n) and n.lineno < l.lineno]
        init = inits[-1].value if inits and isinstance(inits[-1], ast.Assign) else None
        chk.check(init is not None and folder.try_fold(init, sc, None) == 0, "R7", f"{E}:export_eds | comment counter starts at 0", ex.loc(l), f"i = {src(init) if init is not None else '?'}")
        tot = [c for c in cm if folder.try_fold(c.args[1], sc, None) == "Lines"]
        chk.check(len(tot) == 1 and src(tot[0].args[2]) == "i" and tot[0].lineno > l.end_lineno, "R7", f"{E}:export_eds | Lines = number of lines written", ex.loc(l), f"{[src(c) for c in tot]}")

    # ------------------------------------------------------------------ R9 presence: an attribute that is set is written
    from ..loader import Func
    # decided by specialisation where possible: for every optional attribute, each value that counts as set (a limit of 0 or below
    # included) must make export_variable write the option
    set_probes = {"data_type": ("DataType", (5, 0x10)), "access_type": ("AccessType", ("ro", "const")), "storage_location": ("StorageLocation", ("RAM", "PERSIST_COMM")),
                  "min": ("LowLimit", (0, -5, 3)), "max": ("HighLimit", (0, 255, -1)), "description": ("Description", ("some text", "0")),
                  "factor": ("Factor", (2.5, 0.5)), "unit": ("Unit", ("mm", "0")), "pdo_mappable": ("PDOMapping", (True, False)), "name": ("ParameterName", ("A name", "x=%y"))}
    probed = True
    verdicts = []
    for attr_, (key_, values_) in set_probes.items():
        miss = None
        for v_ in values_:
            r = export_writes(repo, folder, {attr_: v_}, False)
            if r[0] != "writes":
                probed = False
                break
            if key_ not in [k for _s, k, _v in r[1]]:
                miss = miss or f"{attr_} = {v_!r}: {key_} is not written, the attribute is lost in the document"
        if not probed:
            break
        verdicts.append((attr_, key_, miss))
    if probed:
        # text attributes are written as they are: names with runs of spaces, tabs, '%' and '=' come back unchanged
        for attr_, key_ in (("name", "ParameterName"), ("description", "Description"), ("unit", "Unit")):
            diff_ = None
            for v_ in ("Motor  speed", "a\tb", "x=%y  z", "50 %"):
                r = export_writes(repo, folder, {attr_: v_}, False)
                if r[0] != "writes":
                    diff_ = "?"
                    break
                got_ = [v for _s, k, v in r[1] if k == key_]
                if got_ != [v_]:
                    diff_ = diff_ or f"{attr_} = {v_!r} is written as {got_}: the text is altered on the way into the document"
            if diff_ != "?":
                chk.check(diff_ is None, "R9", f"{E}:export_variable | {key_} is the {attr_} as it is", ex.loc(ev), diff_ or "", "specialised for texts with runs of spaces, a tab, '=' and '%'")
        for attr_, key_, miss in verdicts:
            chk.check(miss is None, "R9", f"{E}:export_variable | {key_} written whenever {attr_} is set", ex.loc(ev), miss or "",
                      "export_variable specialised for probe variables with the attribute set to boundary values")
    for nm in (() if probed else ("export_variable", "export_common")):
        nodes = [n for n in ast.walk(ex.node) if isinstance(n, ast.FunctionDef) and n.name == nm]
        if not nodes:
            chk.unk("R9", f"{E}:export_eds.{nm}", ex.loc(), "helper not found")
            continue
        nf = Func(name=nm, qualname=f"export_eds.{nm}", node=nodes[0], mod=ex.mod, cls=None, kind="nested")
        fn_ = ff_for(chk, nf, "C14.R9")
        n_opt = 0
        for c in [x for x in ast.walk(nodes[0]) if isinstance(x, ast.Call) and dotted(x.func) == "eds.set" and len(x.args) == 3]:
            key = folder.try_fold(c.args[1], sc, None)
            attrs = sorted({x.attr for x in ast.walk(c.args[2]) if isinstance(x, ast.Attribute) and dotted(x.value) == "var"} - {"data_type"}) or \
                sorted({x.attr for x in ast.walk(c.args[2]) if isinstance(x, ast.Attribute) and dotted(x.value) == "var"})
            if not attrs:
                continue
            a = attrs[0]
            facts = fn_.facts_at(fn_.stmt_of(c))
            mine = [(fn_.norm(e, subst=False), p) for e, p in facts if f"var.{a}" in [dotted(x) for x in ast.walk(e) if isinstance(x, ast.Attribute)]
                    or any(isinstance(x, ast.Call) and dotted(x.func) == "getattr" and len(x.args) >= 2 and src(x.args[0]) == "var" and folder.try_fold(x.args[1], sc, None) == a for x in ast.walk(e))]
            if not mine:
                continue
            n_opt += 1
            ok = all(p for _, p in mine)
            forms = []
            for t, _p in mine:
                forms.append(t)
                good = t in (f"var.{a}", f"var.{a} is not None", f"getattr(var, '{a}', None) is not None")
                te = ast.parse(t, mode="eval").body
                if isinstance(te, ast.Compare) and len(te.ops) == 1 and isinstance(te.ops[0], ast.NotEq) and isinstance(te.left, ast.Call) and dotted(te.left.func) == "getattr" \
                        and len(te.left.args) == 3:
                    d_, c_ = folder.try_fold(te.left.args[2], sc, "?d"), folder.try_fold(te.comparators[0], sc, "?c")
                    good = d_ == c_ and type(d_) in (int, float, str, bool)
                ok = ok and good
            chk.check(ok, "R9", f"{E}:{nm} | {key} written whenever {a} is set", ex.loc(c),
                      f"`{src(c)[:60]}` runs under {mine}: with the condition inverted or altered a set attribute is left out of the document")
        if nm == "export_variable":
            chk.floor("R9", n_opt, 8, "conditionally written attributes in export_variable")
    # commissioning data
    for c in dc:
        key = folder.try_fold(c.args[1], sc, None)
        g = [(fe.norm(e, subst=False), p) for e, p in fe.facts_at(fe.stmt_of(c))]
        a = {"Baudrate": "od.bitrate", "NodeID": "od.node_id"}.get(key)
        pos = {t for t, p in g if p}
        neg = [t for t, p in g if not p]
        chk.check(a in pos and "device_commisioning" in pos and not neg, "R9", f"{E}:export_eds | {key} written for a DCF whenever it is set", ex.loc(c), f"written under {g}")
    secs_dc = [c for c in ast.walk(ex.node) if isinstance(c, ast.Call) and dotted(c.func) == "eds.add_section" and c.args and folder.try_fold(c.args[0], sc, None) == "DeviceComissioning"]
    for c in secs_dc:
        g = [(fe.norm(e, subst=False), p) for e, p in fe.facts_at(fe.stmt_of(c))]
        pos = {t for t, p in g if p}
        chk.check("device_commisioning" in pos and (fe.canon("od.bitrate or od.node_id") in pos or fe.canon("od.node_id or od.bitrate") in pos) and all(p for _, p in g), "R9",
                  f"{E}:export_eds | DeviceComissioning section for a DCF with bit rate or node id", ex.loc(c), f"created under {g}")
    # file-name suffix selects the document type when none is given
    sfx_loops = [l for l in own_nodes(xo.node) if isinstance(l, ast.For) and src(l.iter) == "supported_doctypes"]
    chk.check(len(sfx_loops) == 1, "R9", f"{OD}:export_od | document type from the file name's suffix", xo.loc(), "no loop over supported_doctypes")
    for l in sfx_loops:
        tv = src(l.target)
        asg = [n for b in l.body for n in ast.walk(b) if isinstance(n, ast.Assign) and src(n.targets[0]) == "doc_type"]
        ok = len(asg) == 1 and src(asg[0].value) == tv
        if ok:
            g = [(fx.norm(e, subst=False), p) for e, p in fx.facts_at(asg[0]) if tv in [x.id for x in ast.walk(e) if isinstance(x, ast.Name)]]
            ok = len(g) == 1 and g[0][1] and g[0][0] in (f"dest.endswith(f'.{{{tv}}}')", f"dest.endswith('.' + {tv})", f"dest.lower().endswith(f'.{{{tv}}}')")
        chk.check(ok, "R9", f"{OD}:export_od | `.dcf` file names give a DCF, `.eds` an EDS", xo.loc(l), f"{[src(a_) for a_ in asg]}")
        chk.check(bool(l.orelse) and any(isinstance(n, ast.Assign) and src(n) == "doc_type = 'eds'" for n in l.orelse), "R9", f"{OD}:export_od | other names default to EDS", xo.loc(l), "")
    st_ = folder.try_fold(xo.node.body[1].value if False else next((n.value for n in own_nodes(xo.node) if isinstance(n, ast.Assign) and src(n.targets[0]) == "supported_doctypes"), ast.Constant(None)), Scope(xo.mod), None)
    chk.check(st_ is not None and set(st_) == {"eds", "dcf"}, "R9", f"{OD}:export_od | supported document types", xo.loc(), f"{st_}")

    # ------------------------------------------------------------------ R12 the same device information (DeviceInfo tables of both directions; shared with C08.R5)
    from . import c08 as _c08di
    _c08di.device_info(chk, "R12")
    # ------------------------------------------------------------------ R11 re-import resolves $NODEID against the document's node id (shared with C08.R7)
    from . import c08 as _c08
    _c08.node_id_in_force(chk, "R11")
    # ------------------------------------------------------------------ R10 instances are independent (shared clause)
    from . import shared as _shared
    _shared.isolation(chk, "R10", rels=['canopen/objectdictionary/__init__.py', 'canopen/objectdictionary/eds.py'])


def _render(js: ast.JoinedStr, env):
    out = ""
    for v in js.values:
        if isinstance(v, ast.Constant):
            out += v.value
        elif isinstance(v, ast.FormattedValue):
            key = src(v.value)
            if key not in env:
                return None
            spec = "".join(x.value for x in v.format_spec.values if isinstance(x, ast.Constant)) if v.format_spec is not None else ""
            out += format(env[key], spec)
    return out


def _revert_text(folder, rv, code, val):
    """Text the reverter produces for integer `val` of type `code`: specialise the if-chain, then render the f-string."""
    env = {"var_type": code, "value": val}
    sc = Scope(rv.mod, None, env)

    def run(stmts):
        for st in stmts:
            if isinstance(st, ast.Expr) and isinstance(st.value, ast.Constant):
                continue
            if isinstance(st, ast.If):
                try:
                    t = folder.fold(st.test, sc)
                except Unfoldable:
                    return None
                r = run(st.body if t else st.orelse)
                if r is not None:
                    return r
            elif isinstance(st, ast.Return):
                v = st.value
                if isinstance(v, ast.JoinedStr):
                    out = ""
                    for part in v.values:
                        if isinstance(part, ast.Constant):
                            out += part.value
                        else:
                            try:
                                x = folder.fold(part.value, sc)
                            except Unfoldable:
                                return None
                            spec = "".join(p.value for p in part.format_spec.values if isinstance(p, ast.Constant)) if part.format_spec is not None else ""
                            try:
                                out += format(x, spec)
                            except (ValueError, TypeError):
                                return None
                    return out
                if isinstance(v, ast.Call) and dotted(v.func) in ("hex", "str") and len(v.args) == 1:
                    try:
                        x = folder.fold(v.args[0], sc)
                    except Unfoldable:
                        return None
                    return hex(x) if dotted(v.func) == "hex" else str(x)
                try:
                    x = folder.fold(v, sc)
                except Unfoldable:
                    return None
                return x if isinstance(x, str) else str(x)
        return None
    r0 = run(rv.node.body)
    if r0 is not None:
        return r0
    # the general specialiser (assignments to locals, nested ifs, isinstance on the probe value)
    from .common import partial_eval as _pe
    r = _pe(folder, rv.node, rv.mod, None, env)
    if r[0] == "return" and r[1] is not None:
        return r[1] if isinstance(r[1], str) else str(r[1])
    return None
