"""C20 -- physical, described and bit-field views agree with the raw value."""
from __future__ import annotations

import ast

from ..fold import Scope, dotted, src
from .common import (ctx, ff_for, find_calls, only_rejects, own_nodes)

V = "canopen/variable.py"
OD = "canopen/objectdictionary/__init__.py"
SB = "canopen/sdo/base.py"
PB = "canopen/pdo/base.py"

EXPLANATION = (
    "R1 bit-key normalisation: an int becomes [key], a slice becomes range(*key.indices(<bit length>)) (no None reaches "
    "range), anything else (list, defined name) is passed through; Bits.__getitem__/__setitem__ hand exactly "
    "(raw, normalised key[, the caller's value]) to decode_bits/encode_bits and write back; R2 encode_bits and "
    "decode_bits resolve defined names through bit_definitions the same way, build the mask by the same loop and shift "
    "by the same min(bits); R3 encode_phys = int(round(value / factor)) and decode_phys = value * factor under the "
    "same INTEGER_TYPES predicate; R4 encode_desc/decode_desc read the one value_descriptions table in opposite "
    "directions and raise for unknown entries; R5 the raw/phys/desc/bits/read/write views are defined once in Variable "
    "over get_data/set_data and neither SdoVariable nor PdoVariable overrides any of them; R6 structural assumptions shared by all properties: no class-level mutable object is mutated in place by instances, no method re-runs the constructor, logging statements cannot raise (typed eager formatting, divisions), no mutable default argument is kept or mutated, no new truth-value test of a None-able number, a look-up memory the pinned tree does not have is keyed by all its inputs (arithmetic keys folded over a grid of addresses) and, on the serving side, emptied somewhere."
    ' R2 accepts a handler that only rejects (raise / nothing) where it demanded pass.'
    ' R3 decides the rounding of encode_phys by evaluation for ten quotients.'
    ' R2 also: encode_bits keeps the result in the range of a signed type (specialised for boundary probes: sign bit set and cleared for INTEGER8/16/32, unsigned types unchanged).'
)
ASSUMPTIONS = [
    "not decided: floating-point rounding for all factors; values that do not fit the addressed bit field",
]


def run(chk):
    repo, folder = ctx(chk)
    # ------------------------------------------------------------------ R1 key normalisation
    gb = repo.func(V, "Bits._get_bits", "C20.R1")
    fg = ff_for(chk, gb, "C20.R1")
    key = [p for p in gb.params if p not in ("self", "cls")][0]
    branches = {}
    for n in own_nodes(gb.node):
        if isinstance(n, ast.Assign) and src(n.targets[0]) == "bits":
            g = [(src(e), p) for e, p in fg.facts_at(n)]
            kind = "slice" if (f"isinstance({key}, slice)", True) in g else ("int" if (f"isinstance({key}, int)", True) in g else "other")
            branches[kind] = n
    chk.check(set(branches) == {"slice", "int", "other"}, "R1", f"{V}:Bits._get_bits | three key spellings", gb.loc(), f"{sorted(branches)}")
    if "int" in branches:
        chk.check(src(branches["int"].value) == f"[{key}]", "R1", f"{V}:Bits._get_bits | bit number", gb.loc(branches["int"]), src(branches["int"].value))
    if "other" in branches:
        chk.check(src(branches["other"].value) == key, "R1", f"{V}:Bits._get_bits | list / defined name passed through", gb.loc(branches["other"]), src(branches["other"].value))
    if "slice" in branches:
        v = branches["slice"].value
        ok = False
        det = src(v)
        if isinstance(v, ast.Call) and dotted(v.func) == "range":
            if len(v.args) == 1 and isinstance(v.args[0], ast.Starred) and isinstance(v.args[0].value, ast.Call) and src(v.args[0].value.func) == f"{key}.indices":
                arg = v.args[0].value.args[0] if v.args[0].value.args else None
                if isinstance(arg, ast.Name) and fg.one_def(arg.id) is not None:
                    arg = fg.one_def(arg.id)
                ok = arg is not None and src(arg) == "len(self.variable.od)"
                if not ok:
                    chk.bad("R1", f"{V}:Bits._get_bits | slice", gb.loc(branches["slice"]),
                            f"slice bounds are resolved against `{src(arg) if arg is not None else '?'}` instead of the variable's bit length len(self.variable.od): "
                            f"slices that reach the most significant bit come out short (or run past the type)")
                    ok = None
            else:
                raw = [a for a in v.args if isinstance(a, ast.Attribute) and src(a) in (f"{key}.start", f"{key}.stop", f"{key}.step")]
                if raw:
                    chk.bad("R1", f"{V}:Bits._get_bits | slice", gb.loc(branches["slice"]),
                            f"`{det}` hands {', '.join(src(a) for a in raw)} to range(): an omitted slice field is None and bits[0:3] raises TypeError")
                    ok = None
        if ok is not None:
            chk.check(ok, "R1", f"{V}:Bits._get_bits | slice", gb.loc(branches["slice"]), f"slice normalised by `{det}`; expected range(*key.indices(<bit length>))")
    rets = [n for n in own_nodes(gb.node) if isinstance(n, ast.Return)]
    chk.check(len(rets) == 1 and src(rets[0].value) == "bits", "R1", f"{V}:Bits._get_bits | returns the normalised key", gb.loc(), "")
    gi = repo.func(V, "Bits.__getitem__", "C20.R1")
    chk.saw(gi)
    r = [n for n in own_nodes(gi.node) if isinstance(n, ast.Return)]
    fgi = ff_for(chk, gi, "C20.R1")
    rv = src(r[0].value) if len(r) == 1 else ""
    if len(r) == 1 and isinstance(r[0].value, ast.Call) and len(r[0].value.args) == 2 and isinstance(r[0].value.args[1], ast.Name):
        # a local for the normalised key: it must be the normalisation of this call's key
        d_ = fgi.raw_def_at(r[0].value.args[1].id, r[0])
        if d_ is not None and src(d_) == "self._get_bits(key)":
            rv = rv.replace(f", {r[0].value.args[1].id})", ", self._get_bits(key))")
    chk.check(len(r) == 1 and rv == "self.variable.od.decode_bits(self.raw, self._get_bits(key))", "R1", f"{V}:Bits.__getitem__ | field of the cached raw value", gi.loc(), f"{[src(x) for x in r]}")
    si = repo.func(V, "Bits.__setitem__", "C20.R1")
    chk.saw(si)
    body = [src(s_) for s_ in si.node.body if not (isinstance(s_, ast.Expr) and isinstance(s_.value, ast.Constant))]
    ok = body == ["self.raw = self.variable.od.encode_bits(self.raw, self._get_bits(key), value)", "self.write()"]
    if not ok:
        # tolerate a local for the normalised key, nothing may touch `value`
        fsi = ff_for(chk, si, "C20.R1")
        enc = find_calls(si.node, ".encode_bits")
        val_mod = [n for n in own_nodes(si.node) if isinstance(n, (ast.Assign, ast.AugAssign)) and "value" in {src(t) for t in (n.targets if isinstance(n, ast.Assign) else [n.target])}]
        if val_mod:
            chk.bad("R1", f"{V}:Bits.__setitem__ | caller's value unchanged", si.loc(val_mod[0]),
                    f"`{src(val_mod[0])}` alters the value before it is encoded; for a defined name the normalised key is the name itself, so its length is not the field width")
        elif len(enc) == 1 and src(enc[0].args[0]) == "self.raw" and src(enc[0].args[2]) == "value" and any(src(s_) == "self.write()" for s_ in si.node.body):
            a1 = enc[0].args[1]
            if isinstance(a1, ast.Name) and fsi.one_def(a1.id) is not None:
                a1 = fsi.one_def(a1.id)
            chk.check(src(a1) == "self._get_bits(key)", "R1", f"{V}:Bits.__setitem__ | encodes into the cached raw value and writes back", si.loc(), f"{body}")
        else:
            chk.bad("R1", f"{V}:Bits.__setitem__ | encodes into the cached raw value and writes back", si.loc(), f"{body}")
    else:
        chk.ok("R1", f"{V}:Bits.__setitem__ | encodes into the cached raw value and writes back", si.loc())
    for name, want in (("read", ["self.raw = self.variable.raw"]), ("write", ["self.variable.raw = self.raw"]), ("__init__", ["self.variable = variable", "self.read()"])):
        m = repo.func(V, f"Bits.{name}", "C20.R1")
        chk.saw(m)
        b = [src(s_) for s_ in m.node.body if not (isinstance(s_, ast.Expr) and isinstance(s_.value, ast.Constant))]
        chk.check(b == want, "R1", f"{V}:Bits.{name}", m.loc(), f"{b}")

    # ------------------------------------------------------------------ R2 encode/decode bits
    enc = repo.func(OD, "ODVariable.encode_bits", "C20.R2")
    dec = repo.func(OD, "ODVariable.decode_bits", "C20.R2")
    shapes = {}
    for f in (enc, dec):
        chk.saw(f)
        tries = [n for n in own_nodes(f.node) if isinstance(n, ast.Try)]
        ok = len(tries) == 1 and [src(s_) for s_ in tries[0].body] == ["bits = self.bit_definitions[bits]"] and len(tries[0].handlers) == 1 \
            and {dotted(e) for e in (tries[0].handlers[0].type.elts if isinstance(tries[0].handlers[0].type, ast.Tuple) else [tries[0].handlers[0].type])} >= {"TypeError", "KeyError"} \
            and only_rejects(tries[0].handlers[0].body, f.cls)
        chk.check(ok, "R2", f"{OD}:{f.qualname} | defined names resolved through bit_definitions", f.loc(), "")
        loops = [n for n in own_nodes(f.node) if isinstance(n, ast.For)]
        ok = len(loops) == 1 and src(loops[0].iter) == "bits" and [src(s_) for s_ in loops[0].body] == [f"mask |= 1 << {src(loops[0].target)}"]
        pre = [n for n in own_nodes(f.node) if isinstance(n, ast.Assign) and src(n.targets[0]) == "mask" and folder.try_fold(n.value, Scope(f.mod), None) == 0]
        chk.check(ok and len(pre) == 1, "R2", f"{OD}:{f.qualname} | mask = OR of 1 << bit", f.loc(), "")
        shapes[f.name] = [src(x) for x in ast.walk(f.node) if isinstance(x, ast.Call) and dotted(x.func) == "min"]
    chk.check(shapes.get("encode_bits") == shapes.get("decode_bits") == ["min(bits)"], "R2", f"{OD}:ODVariable | both shift by min(bits)", enc.loc(), f"{shapes}")
    r = [n for n in own_nodes(dec.node) if isinstance(n, ast.Return)]
    fd = ff_for(chk, dec, "C20.R2")
    chk.check(len(r) == 1 and fd.is_form(r[0].value, "(value & mask) >> min(bits)"), "R2", f"{OD}:ODVariable.decode_bits | (value & mask) >> min(bits)", dec.loc(), f"{[src(x) for x in r]}")
    fe = ff_for(chk, enc, "C20.R2")
    st = [src(s_) for s_ in enc.node.body if isinstance(s_, (ast.AugAssign, ast.Return)) or (isinstance(s_, ast.Assign) and src(s_.targets[0]) == "temp")]
    ok = st == ["temp = original_value", "temp &= ~mask", "temp |= bit_value << min(bits)", "return temp"]
    chk.check(ok, "R2", f"{OD}:ODVariable.encode_bits | clear the field, OR the shifted value", enc.loc(), f"{st}")

    # the result is a value of the variable's type: for a signed type the sign bit can be set and cleared through a bit field (the raw
    # value written back must lie in the type's range, or the write is refused as "does not fit").  Decided by specialising encode_bits
    # (name lookup dropped, len(self) bound to the type's width) for boundary probes.
    import copy as _copy
    from .common import partial_eval as _pe
    from ..fold import RecordVal as _RV
    from .. import oracles as _O
    fn2 = _copy.deepcopy(enc.node)
    fn2.body = [s_ for s_ in fn2.body if not isinstance(s_, ast.Try)]
    dt_mod = repo.mod("canopen/objectdictionary/datatypes.py", "C20.R2")
    probes = [("INTEGER16", 16, 0, [15], 1, -32768), ("INTEGER16", 16, -32768, [15], 0, 0), ("INTEGER16", 16, -1, [0, 1], 0, -4), ("INTEGER16", 16, 0x1234, [4, 5, 6, 7], 0xA, 0x12A4),
              ("INTEGER8", 8, 0, [7], 1, -128), ("INTEGER32", 32, 0, [31], 1, -2 ** 31), ("INTEGER32", 32, -2 ** 31, [31], 0, 0),
              ("UNSIGNED16", 16, 0, [15], 1, 32768), ("UNSIGNED8", 8, 0xFF, [7], 0, 0x7F)]
    for tname, width, orig, bits_, val, want in probes:
        code = folder.try_fold(ast.Name(id=tname, ctx=ast.Load()), Scope(dt_mod), None)
        fn3 = ast.parse(src(fn2).replace("len(self)", str(width))).body[0]
        r_ = _pe(folder, fn3, enc.mod, None, {"self": _RV({"data_type": code, "bit_definitions": {}}), "original_value": orig, "bits": bits_, "bit_value": val})
        site = f"{OD}:ODVariable.encode_bits | {tname}: bits {bits_} := {val} on {orig}"
        if r_[0] != "return":
            chk.unk("R2", site, enc.loc(), f"encode_bits does not specialise: {r_}")
            break
        chk.check(r_[1] == want, "R2", site, enc.loc(),
                  f"gives {r_[1]}, a value outside the range of {tname} (expected {want}): writing it back raises 'Value does not fit in specified type', so the sign bit of a signed "
                  f"variable cannot be set or cleared through .bits" if not (-(1 << (width - 1)) <= r_[1] < (1 << width)) or r_[1] != want else "")

    # ------------------------------------------------------------------ R3 phys
    ep = repo.func(OD, "ODVariable.encode_phys", "C20.R3")
    dp = repo.func(OD, "ODVariable.decode_phys", "C20.R3")
    fep, fdp = ff_for(chk, ep, "C20.R3"), ff_for(chk, dp, "C20.R3")
    guards = {}
    for f, ff in ((ep, fep), (dp, fdp)):
        ifs = [n for n in own_nodes(f.node) if isinstance(n, ast.If)]
        guards[f.name] = [src(i.test) for i in ifs]
        r = [n for n in own_nodes(f.node) if isinstance(n, ast.Return)]
        chk.check(len(r) == 1 and src(r[0].value) == "value", "R3", f"{OD}:{f.qualname} | returns the converted value", f.loc(), "")
    chk.check(guards["encode_phys"] == guards["decode_phys"] == ["self.data_type in INTEGER_TYPES"], "R3", f"{OD}:ODVariable | same integer-type predicate both ways", ep.loc(), f"{guards}")
    ops = [n for n in own_nodes(dp.node) if isinstance(n, (ast.AugAssign, ast.Assign)) and src(n.targets[0] if isinstance(n, ast.Assign) else n.target) == "value"]
    ok = len(ops) == 1 and ((isinstance(ops[0], ast.AugAssign) and isinstance(ops[0].op, ast.Mult) and src(ops[0].value) == "self.factor") or
                            (isinstance(ops[0], ast.Assign) and fdp.is_form(ops[0].value, "value * self.factor")))
    chk.check(ok, "R3", f"{OD}:ODVariable.decode_phys | raw * factor", dp.loc(), f"{[src(o) for o in ops]}")
    # encode: forward-substitute the straight-line branch
    body = [n for i in own_nodes(ep.node) if isinstance(i, ast.If) for n in i.body]
    env = {}
    from .common import substitute
    for s_ in body:
        if isinstance(s_, ast.AugAssign) and isinstance(s_.target, ast.Name):
            cur = env.get(s_.target.id, ast.Name(id=s_.target.id, ctx=ast.Load()))
            env[s_.target.id] = ast.BinOp(left=cur, op=s_.op, right=substitute(s_.value, env))
        elif isinstance(s_, ast.Assign) and isinstance(s_.targets[0], ast.Name):
            env[s_.targets[0].id] = substitute(s_.value, env)
    final = env.get("value")
    txt = src(final) if final is not None else "?"
    good = {"int(round(value / self.factor))", "round(value / self.factor)", "int(round(value / self.factor, 0))"}
    # decided by evaluation where the expression folds: the stored raw value is the nearest integer of value / factor (ties as
    # round() breaks them) for quotients with fractions below, at and above one half, of both signs
    decided_ = None
    if final is not None and txt not in good:
        from .common import substitute_src as _sub3
        wrong_ = None
        for v_, f_ in ((2.6, 1), (2.4, 1), (0.3, 0.1), (-127.8, 1), (7, 2), (-7, 2), (11, -10), (5, 0.5), (1e6 + 0.75, 1), (-0.6, 1)):
            got_ = folder.try_fold(_sub3(final, {"value": v_, "self.factor": f_}), Scope(ep.mod), "?")
            if got_ == "?":
                wrong_ = "?"
                break
            want_ = int(round(v_ / f_))
            if got_ != want_:
                wrong_ = wrong_ or f"physical value {v_} with factor {f_}: raw value {got_!r}, the nearest integer of {v_ / f_} is {want_}"
        if wrong_ != "?":
            decided_ = wrong_ or True
    if decided_ is True:
        chk.ok("R3", f"{OD}:ODVariable.encode_phys | nearest integer of value / factor", ep.loc(), f"`{txt}` evaluated for 10 quotients")
    elif decided_:
        chk.bad("R3", f"{OD}:ODVariable.encode_phys | nearest integer of value / factor", ep.loc(), f"`{txt}`: {decided_}")
    elif txt in good:
        chk.ok("R3", f"{OD}:ODVariable.encode_phys | nearest integer of value / factor", ep.loc(), txt)
    elif "copysign" in txt or "+ 0.5" in txt or "- 0.5" in txt:
        # half-step offset: its sign must be that of the scaled quotient, not of the physical value or the factor
        calls = [c for c in ast.walk(final) if isinstance(c, ast.Call) and (dotted(c.func) or "").endswith("copysign")]
        ok = bool(calls) and all(src(c.args[1]) in ("value / self.factor",) for c in calls)
        chk.check(ok, "R3", f"{OD}:ODVariable.encode_phys | nearest integer of value / factor", ep.loc(),
                  f"`{txt}` rounds with a half-step whose sign is not that of value / factor: with a negative factor the result is one count too close to zero")
    else:
        chk.unk("R3", f"{OD}:ODVariable.encode_phys | nearest integer of value / factor", ep.loc(), f"`{txt}` not recognised")

    # ------------------------------------------------------------------ R4 desc
    ed = repo.func(OD, "ODVariable.encode_desc", "C20.R4")
    dd = repo.func(OD, "ODVariable.decode_desc", "C20.R4")
    fed, fdd = ff_for(chk, ed, "C20.R4"), ff_for(chk, dd, "C20.R4")
    r = [n for n in own_nodes(dd.node) if isinstance(n, ast.Return)]
    ok = len(r) == 1 and src(r[0].value) == "self.value_descriptions[value]"
    chk.check(ok, "R4", f"{OD}:ODVariable.decode_desc | description of the value", dd.loc(), f"{[src(x) for x in r]}")
    raises = [n for n in own_nodes(dd.node) if isinstance(n, ast.Raise)]
    g = [[(src(e), p) for e, p in fdd.facts_at(x)] for x in raises]
    chk.check(any(("value not in self.value_descriptions", True) in gg for gg in g), "R4", f"{OD}:ODVariable.decode_desc | unknown value raises", dd.loc(), f"{g}")
    loops = [n for n in own_nodes(ed.node) if isinstance(n, ast.For)]
    ok = len(loops) == 1 and src(loops[0].iter) == "self.value_descriptions.items()" and isinstance(loops[0].target, ast.Tuple) and len(loops[0].body) == 1 and isinstance(loops[0].body[0], ast.If)
    if ok:
        vn, dn = [src(e) for e in loops[0].target.elts]
        iff = loops[0].body[0]
        ok = src(iff.test) in (f"{dn} == desc", f"desc == {dn}") and len(iff.body) == 1 and isinstance(iff.body[0], ast.Return) and src(iff.body[0].value) == vn
    if not ok:
        # the other shape: the match is put into a local (for/else with break, or next(generator, None)) and returned afterwards;
        # "nothing found" must then be told from the raw value 0 by identity, not by truth value
        found = None
        for n in own_nodes(ed.node):
            if isinstance(n, ast.Assign) and isinstance(n.targets[0], ast.Name) and isinstance(n.value, ast.Call) and dotted(n.value.func) == "next" and len(n.value.args) == 2 \
                    and isinstance(n.value.args[0], ast.GeneratorExp) and len(n.value.args[0].generators) == 1:
                g_ = n.value.args[0].generators[0]
                if src(g_.iter) == "self.value_descriptions.items()" and isinstance(g_.target, ast.Tuple) and len(g_.target.elts) == 2 and len(g_.ifs) == 1:
                    vn, dn = [src(e) for e in g_.target.elts]
                    if src(g_.ifs[0]) in (f"{dn} == desc", f"desc == {dn}") and src(n.value.args[0].elt) == vn and src(n.value.args[1]) == "None":
                        found = n.targets[0].id
        for lp in loops:
            if src(lp.iter) == "self.value_descriptions.items()" and isinstance(lp.target, ast.Tuple) and len(lp.body) == 1 and isinstance(lp.body[0], ast.If) and lp.orelse:
                vn, dn = [src(e) for e in lp.target.elts]
                iff = lp.body[0]
                if src(iff.test) in (f"{dn} == desc", f"desc == {dn}") and len(iff.body) == 2 and isinstance(iff.body[0], ast.Assign) and isinstance(iff.body[1], ast.Break) \
                        and src(iff.body[0].value) == vn and isinstance(iff.body[0].targets[0], ast.Name) \
                        and [src(x) for x in lp.orelse] == [f"{iff.body[0].targets[0].id} = None"]:
                    found = iff.body[0].targets[0].id
        if found is not None:
            rets = [n for n in own_nodes(ed.node) if isinstance(n, ast.Return) and n.value is not None and src(n.value) == found]
            rz = [n for n in own_nodes(ed.node) if isinstance(n, ast.Raise) and "ValueError" in src(n)]
            by_truth = []
            for n in rets + rz:
                for e, p in fed.facts_at(n):
                    if src(e) in (found, f"not {found}"):
                        by_truth.append(src(e))
            by_ident = all(any((src(e) == f"{found} is None" and p) or (src(e) == f"{found} is not None" and not p) for e, p in fed.facts_at(n)) for n in rz) and bool(rz)
            if by_truth:
                chk.bad("R4", f"{OD}:ODVariable.encode_desc | value whose description matches", ed.loc(),
                        f"the match `{found}` is tested by truth value (`{by_truth[0]}`): a description of the raw value 0 is reported as unknown")
                ok = None
            else:
                ok = bool(rets) and by_ident
    if ok is not None:
        chk.check(ok, "R4", f"{OD}:ODVariable.encode_desc | value whose description matches", ed.loc(), "")
    chk.check(any(isinstance(n, ast.Raise) and "ValueError" in src(n) for n in own_nodes(ed.node)), "R4", f"{OD}:ODVariable.encode_desc | unknown description raises", ed.loc(), "")
    avd = repo.func(OD, "ODVariable.add_value_description", "C20.R4")
    chk.check(any(src(n) == "self.value_descriptions[value] = descr" for n in own_nodes(avd.node) if isinstance(n, ast.Assign)), "R4", f"{OD}:ODVariable.add_value_description", avd.loc(), "")
    abd = repo.func(OD, "ODVariable.add_bit_definition", "C20.R4")
    chk.check(any(src(n) == "self.bit_definitions[name] = bits" for n in own_nodes(abd.node) if isinstance(n, ast.Assign)), "R4", f"{OD}:ODVariable.add_bit_definition", abd.loc(), "")

    # ------------------------------------------------------------------ R5 views defined once, not overridden
    var = repo.cls(V, "Variable", "C20.R5")
    want = {
        "raw": ("return", "self.od.decode_raw(self.data)"), "raw.setter": ("store", "self.data = self.od.encode_raw(value)"),
        "phys": ("return", "self.od.decode_phys(self.raw)"), "phys.setter": ("store", "self.raw = self.od.encode_phys(value)"),
        "desc": ("return", "self.od.decode_desc(self.raw)"), "desc.setter": ("store", "self.raw = self.od.encode_desc(desc)"),
        "bits": ("return", "Bits(self)"), "data": ("return", "self.get_data()"), "data.setter": ("call", "self.set_data(data)"),
    }
    for name, (kind, text) in want.items():
        m = var.methods.get(name)
        if m is None:
            chk.bad("R5", f"{V}:Variable.{name}", f"{V}:{var.node.lineno}", "view missing")
            continue
        chk.saw(m)
        fm = ff_for(chk, m, "C20.R5")
        if kind == "return":
            rets = [n for n in own_nodes(m.node) if isinstance(n, ast.Return) and n.value is not None]
            v = rets[0].value if len(rets) == 1 else None
            if isinstance(v, ast.Name) and fm.one_def(v.id) is not None:
                v = fm.one_def(v.id)
            chk.check(v is not None and src(v) == text, "R5", f"{V}:Variable.{name} | {text}", m.loc(), f"returns {src(v) if v is not None else '?'}")
        elif kind == "store":
            chk.check(any(src(n) == text for n in own_nodes(m.node) if isinstance(n, ast.Assign)), "R5", f"{V}:Variable.{name} | {text}", m.loc(), "")
        else:
            chk.check(any(src(n) == text for n in own_nodes(m.node) if isinstance(n, ast.Expr)), "R5", f"{V}:Variable.{name} | {text}", m.loc(), "")
    for name, fmtmap in (("read", {"raw": "self.raw", "phys": "self.phys", "desc": "self.desc"}), ("write", {"raw": "self.raw = value", "phys": "self.phys = value", "desc": "self.desc = value"})):
        m = var.methods[name]
        fm = ff_for(chk, m, "C20.R5")
        seen_fmt = set()
        for n in [x for x in own_nodes(m.node) if isinstance(x, (ast.Return, ast.Assign))]:
            g = [(src(e), p) for e, p in fm.facts_at(n)]
            which = next((k for k in fmtmap if (f"fmt == '{k}'", True) in g), None)
            seen_fmt.add(which)
            txt = src(n.value) if isinstance(n, ast.Return) else src(n)
            chk.check(which is not None and txt == fmtmap[which], "R5", f"{V}:Variable.{name} | fmt {which}", m.loc(n), f"{txt} under {g}")
        chk.check(set(fmtmap) <= seen_fmt, "R5", f"{V}:Variable.{name} | raw, phys and desc formats all served", m.loc(), f"no branch for {sorted(set(fmtmap) - seen_fmt)}: the call silently does nothing")
    allowed = {"SdoVariable": {"__init__", "get_data", "set_data", "writable", "readable", "open"}, "PdoVariable": {"__init__", "get_data", "set_data"}}
    for rel, cname in ((SB, "SdoVariable"), (PB, "PdoVariable")):
        c = repo.cls(rel, cname, "C20.R5")
        chk.check("Variable" in [b for b in c.base_names], "R5", f"{rel}:{cname} | derives from Variable", f"{rel}:{c.node.lineno}", f"{c.base_names}")
        extra = set(c.methods) - allowed[cname]
        chk.check(not extra, "R5", f"{rel}:{cname} | overrides only the transport", f"{rel}:{c.node.lineno}",
                  f"{cname} defines {sorted(extra)}: the views would behave differently over this transport")
        chk.check({"get_data", "set_data"} <= set(c.methods), "R5", f"{rel}:{cname} | implements get_data/set_data", f"{rel}:{c.node.lineno}", "")

    # ------------------------------------------------------------------ R6 instances are independent (shared clause)
    from . import shared as _shared
    _shared.isolation(chk, "R6", rels=['canopen/variable.py', 'canopen/objectdictionary/__init__.py', 'canopen/sdo/base.py', 'canopen/pdo/base.py'])
