"""C12 -- SDO block download delivers exactly the payload or fails visibly."""
from __future__ import annotations

import ast

from ..cfg import typestate
from ..fold import Scope, dotted, src
from ..frames import Unrecognised, frame_at, terms_at
from .common import (attr_stores, ctx, ff_for, find_calls, guarded_raise_envs, must_pass, node_calls, own_nodes, path_text)
from .sdoframes import CLIENT, check_layout, check_length, check_stores, command_expr, sinks

CL = "canopen/sdo/client.py"
SB = "canopen/sdo/base.py"
C = "BlockDownloadStream"

EXPLANATION = (
    "Three block-download emission sites: R1 length 8 and stores inside fields; R2 command layout (initiate: ccs=6 with "
    "optional CRC/size flags, size flag and '<L' field together; sub-block segment: sequence number with 0x80 only "
    "under `end`; end frame: cs=1, n at bits 4..2, CRC '<H' at bytes 1..2 only when negotiated); R3 the end frame's n "
    "operand is the recorded byte count of the last segment and every store of it lies in [0, 7]; R4 sequence typestate: "
    "one increment per segment before use, block end at seqno >= blksize, `end` shrinks the block to the segments sent; "
    "R5 acknowledge handling: success clears the retransmission buffer, resets seqno and adopts the new block size; "
    "mismatch resends _current_block[ackseq:] with seqno reset and the NEW block size in force before the first resent "
    "segment, pos rolled back by the resent bytes; R6 CRC fed exactly once per chunk (not while retransmitting), "
    "algorithm crc_hqx seeded 0, support taken from bit 2 of the server's answer; R7 segments retained for "
    "retransmission are immutable copies; R8 every response (initiate, block acknowledge, end) is validated before its "
    "bytes are used and a wrong one aborts and raises (the validate-before-use clause shared with C07.R3); R9 structural assumptions shared by all properties: no class-level mutable object is mutated in place by instances, no method re-runs the constructor, logging statements cannot raise (typed eager formatting, divisions), no mutable default argument is kept or mutated, no new truth-value test of a None-able number, a look-up memory the pinned tree does not have is keyed by all its inputs (arithmetic keys folded over a grid of addresses) and, on the serving side, emptied somewhere."
    ' R4 also: the block acknowledge is awaited at the end of every block, resent ones included; R5 also: every legal acknowledge (ackseq 0..sent, next size 1..127) passes the validations; R6 takes the initial CRC from the constructor defaults.'
    ' R6 also: CrcXmodem.final() is a pure read when a stream class asks for it more than once per transfer (shared with C13.R5).'
)
ASSUMPTIONS = [
    "not decided: retransmission outcomes under arbitrary loss patterns; the server is assumed standard-conformant",
]


def run(chk):
    repo, folder = ctx(chk)
    n_sites = 0
    for fq, step, suffixes in ((f"{C}.__init__", "block_download_initiate", ("request_response",)),
                               (f"{C}.send", "block_download_segment", ("send_request",)),
                               (f"{C}.close", "block_download_end", ("request_response",))):
        f = repo.func(CL, fq, "C12")
        ff = ff_for(chk, f, "C12")
        for call, stmt in sinks(ff, suffixes):
            lay = CLIENT[step]
            site = f"{CL}:{fq} | {lay.name}"
            n_sites += 1
            try:
                fr = frame_at(ff, call.args[0], stmt)
            except Unrecognised as e:
                chk.unk("R1", site, f.loc(stmt), str(e))
                continue
            check_length(chk, "R1", site, f.loc(stmt), fr)
            ce = command_expr(fr)
            if ce is None:
                chk.unk("R2", site, f.loc(stmt), "no store to byte 0")
                continue
            try:
                must, may = terms_at(ff, ce[0], ce[1])
            except Unrecognised as e:
                chk.unk("R2", site, f.loc(ce[1]), str(e))
                continue
            check_layout(chk, "R2", site, f.loc(ce[1]), lay, set(must), set(may))
            check_stores(chk, "R1", site, ff, fr, lay)
            if step == "block_download_end":
                _end_frame(chk, repo, folder, ff, fr, must)
            if step == "block_download_initiate":
                _initiate(chk, repo, folder, ff, fr)
            if step == "block_download_segment":
                _segment(chk, repo, folder, ff, fr)
    chk.floor("R1", n_sites, 3, "block download emission sites")
    _sequence(chk, repo, folder)
    _ack(chk, repo, folder)
    _crc(chk, repo, folder)
    _writers(chk, repo, folder)
    _copies(chk, repo, folder)

    # ------------------------------------------------------------------ R8 fails visibly: responses validated before use (shared with C07.R3)
    from . import c07
    from .common import RuleProxy
    c07.validate_sites(RuleProxy(chk, "R8"), classes=("BlockDownloadStream",))

    # ------------------------------------------------------------------ R9 instances are independent (shared clause)
    from . import shared as _shared
    _shared.isolation(chk, "R9", rels=['canopen/sdo/client.py', 'canopen/sdo/base.py'])


def _initiate(chk, repo, folder, ff, fr):
    f = ff.func
    flags = [n for n in own_nodes(f.node) if isinstance(n, ast.AugAssign) and isinstance(n.op, ast.BitOr) and isinstance(n.target, ast.Name)]
    for a in flags:
        v = folder.try_fold(a.value, ff.scope, None)
        g = [(src(e), p) for e, p in ff.facts_at(a)]
        if v == 0x02:
            chk.check(("size is not None", True) in g, "R2", f"{CL}:{f.qualname} | size flag only when declared", f.loc(a), f"under {g}")
        elif v == 0x04:
            chk.check(("request_crc_support", True) in g, "R2", f"{CL}:{f.qualname} | CRC flag only when requested", f.loc(a), f"under {g}")
    sizes = [s_ for s_ in fr.stores if s_.fmt == "<L"]
    chk.check(len(sizes) == 1 and sizes[0].lo == 4 and [src(x) for x in sizes[0].fields] == ["size"], "R2", f"{CL}:{f.qualname} | declared size field", f.loc(),
              "declared size is not stored as '<L' at offset 4")
    for s_ in sizes:
        g = [(src(e), p) for e, p in ff.facts_at(s_.stmt)]
        chk.check(("size is not None", True) in g, "R2", f"{CL}:{f.qualname} | size field only when declared", f.loc(s_.stmt), f"under {g}")
    hdr = [s_ for s_ in fr.stores if s_.lo == 0 and s_.fmt is not None]
    chk.check(len(hdr) == 1 and hdr[0].fmt == "<BHB" and [src(x) for x in hdr[0].fields[1:]] == ["index", "subindex"], "R2", f"{CL}:{f.qualname} | multiplexer", f.loc(),
              "initiate frame does not carry (index, subindex) of the caller")
    st = attr_stores(f.node, "size")
    chk.check(len(st) == 1 and src(st[0].value) == "size", "R2", f"{CL}:{f.qualname} | self.size is the declared size", f.loc(), "")


def _segment(chk, repo, folder, ff, fr):
    f = ff.func
    # every place where bit 7 (no more blocks) enters the command byte: `command |= 0x80`, `x = seqno | 0x80` in a branch, or a
    # conditional expression; each must be selected by `end`
    from .common import or_terms as _ort

    def has80(e):
        return any(folder.try_fold(t_, ff.scope, None) == 0x80 for t_ in _ort(e))
    flags = []
    for n in own_nodes(f.node):
        if isinstance(n, ast.AugAssign) and isinstance(n.op, ast.BitOr) and has80(n.value):
            flags.append(("stmt", n))
        elif isinstance(n, ast.Assign) and isinstance(n.value, ast.BinOp) and isinstance(n.value.op, ast.BitOr) and has80(n.value):
            flags.append(("stmt", n))
        elif isinstance(n, ast.IfExp) and (any(has80(x) for x in _ort(n.body)) or has80(n.body)) != (any(has80(x) for x in _ort(n.orelse)) or has80(n.orelse)):
            flags.append(("ifexp", n))
    chk.floor("R2", len(flags), 1, "NO_MORE_BLOCKS flag in send")
    for kind, a in flags:
        if kind == "stmt":
            g = [(src(e), p) for e, p in ff.facts_at(a)]
            chk.check(("end", True) in g, "R2", f"{CL}:{f.qualname} | last-segment flag only for the last data", f.loc(a), f"0x80 set under {g}")
        else:
            in_body = has80(a.body)
            ok_ = (src(a.test) == "end" and in_body) or (src(a.test) == "not end" and not in_body)
            chk.check(ok_, "R2", f"{CL}:{f.qualname} | last-segment flag only for the last data", f.loc(), f"0x80 selected by `{src(a.test)}` in `{src(a)}`")
    data = [s_ for s_ in fr.stores if s_.lo == 1]
    chk.check(len(data) == 1 and src(data[0].value) == "b", "R2", f"{CL}:{f.qualname} | segment data", f.loc(), "segment does not carry the chunk at bytes 1..")
    w = repo.func(CL, f"{C}.write", "C12.R2")
    fw = ff_for(chk, w, "C12.R2")
    d = fw.one_def("data")
    chk.check(d is not None and src(d) in ("b[:7]", "bytes(b[:7])"), "R2", f"{CL}:{C}.write | chunk is the head of the buffer", w.loc(),
              f"data = {src(d) if d is not None else '?'}")
    rets = [n for n in own_nodes(w.node) if isinstance(n, ast.Return) and n.value is not None and not isinstance(n.value, ast.Constant)]
    for r in rets:
        chk.check(src(r.value) == "len(data)", "R2", f"{CL}:{C}.write | reports what was sent", w.loc(r), f"returns {src(r.value)}")
        wit = must_pass(fw.cfg, lambda n: node_calls(n, "self.send"), to_nodes=[fw.cfg.node_of(r)])
        chk.check(wit is None, "R2", f"{CL}:{C}.write | count reported only after sending", w.loc(r), f"{path_text(wit) if wit else ''}")
    for c in find_calls(w.node, "self.send"):
        g = [(fw.norm(e), p) for e, p in fw.facts_at(fw.stmt_of(c))]
        end_kw = any(k.arg == "end" and folder.try_fold(k.value, fw.scope, None) is True for k in c.keywords)
        end_name = next((k.value.id for k in c.keywords if k.arg == "end" and isinstance(k.value, ast.Name)), None)
        if end_name is not None:
            # one call for both cases, `end` being a local that holds the "declared size reached" predicate: the end case holds by
            # construction; for the other case the facts at the call, with that local false, must force a full segment
            d_end = fw.one_def(end_name)
            reached = d_end is not None and fw.canon(src(d_end)) in (fw.canon("self.size is not None and self.pos + len(b[:7]) >= self.size"),
                                                                      fw.canon("self.size is not None and self.pos + len(data) >= self.size"))
            chk.check(reached, "R2", f"{CL}:{C}.write | end when the declared size is reached", w.loc(c), f"send(end={end_name}) with {end_name} = {src(d_end) if d_end is not None else '?'}")
            short = {"len(b[:7]) < 7", "len(data) < 7"}
            facts_raw = fw.facts_at(fw.stmt_of(c))

            def val(e, env):
                if isinstance(e, ast.BoolOp):
                    vs = [val(v, env) for v in e.values]
                    return all(vs) if isinstance(e.op, ast.And) else any(vs)
                if isinstance(e, ast.UnaryOp) and isinstance(e.op, ast.Not):
                    return not val(e.operand, env)
                t_ = src(e)
                if t_ == end_name:
                    return env["end"]
                if t_ in short:
                    return env["short"]
                if t_ in ("len(b[:7]) >= 7", "len(data) >= 7", "len(data) == 7", "len(b[:7]) == 7"):
                    return not env["short"]
                return env.setdefault(t_, True)        # unrelated atoms: true for the path considered (see below)
            # a short middle segment (end false, short true) must contradict the facts whatever the unrelated atoms are
            feasible = False
            import itertools
            leafs = set()

            def leaves_of(e):
                if isinstance(e, ast.BoolOp):
                    for v in e.values:
                        leaves_of(v)
                elif isinstance(e, ast.UnaryOp) and isinstance(e.op, ast.Not):
                    leaves_of(e.operand)
                else:
                    leafs.add(src(e))
            for e, _p in facts_raw:
                leaves_of(e)
            free = sorted(leafs - short - {end_name, "len(b[:7]) >= 7", "len(data) >= 7", "len(data) == 7", "len(b[:7]) == 7"})
            if len(free) <= 8:
                for combo in itertools.product([False, True], repeat=len(free)):
                    env = dict(zip(free, combo), end=False, short=True)
                    if all(val(e, env) == p_ for e, p_ in facts_raw):
                        feasible = True
                        break
                chk.check(not feasible, "R2", f"{CL}:{C}.write | only full segments mid-transfer", w.loc(c), f"send(end={end_name}) of a short middle segment is possible under {g}")
            else:
                chk.unk("R2", f"{CL}:{C}.write | only full segments mid-transfer", w.loc(c), f"too many conditions at the call: {g}")
            continue
        if end_kw:
            ok = ("self.size is not None", True) in g and any(p and t in (fw.canon("self.pos + len(b[:7]) >= self.size"), fw.canon("self.pos + len(data) >= self.size")) for t, p in g)
            chk.check(ok, "R2", f"{CL}:{C}.write | end when the declared size is reached", w.loc(c), f"send(end=True) under {g}")
        else:
            ok = any(not p and t in (fw.canon("len(b[:7]) < 7"), fw.canon("len(data) < 7")) for t, p in g) or any(p and t in (fw.canon("len(b[:7]) >= 7"), fw.canon("len(data) >= 7")) for t, p in g)
            chk.check(ok, "R2", f"{CL}:{C}.write | only full segments mid-transfer", w.loc(c), f"send() of a middle segment under {g}")


def _end_frame(chk, repo, folder, ff, fr, must):
    f = ff.func
    nf = [t for t in must if t.kind == "nfield"]
    for t in nf:
        if not (t.text.startswith("self.") and t.text[5:].isidentifier()):
            chk.bad("R3", f"{CL}:{f.qualname} | n operand", f.loc(), f"n is computed from `{t.text}`, not from the recorded size of the last segment sent "
                    "(a full last segment must announce 0 unused bytes)")
            continue
        attr = t.text[5:]
        cls = f.cls
        stores = []
        for m in cls.methods.values():
            for s_ in attr_stores(m.node, attr):
                stores.append((m, s_))
        chk.floor("R3", len(stores), 2, f"stores of {attr}")
        in_send = False
        for m, s_ in stores:
            fm = ff_for(chk, m, "C12.R3")
            lo, hi = fm.interval(s_.value, s_)
            chk.check(lo is not None and hi is not None and 0 <= lo and hi <= 7, "R3", f"{CL}:{m.qualname} | {attr} in [0, 7]", m.loc(s_),
                      f"`{src(s_)}` stores a value in [{lo}, {hi}]; (7 - {attr}) must fit the 3-bit n field")
            if m.name == "send":
                g = [(src(e), p) for e, p in fm.facts_at(s_)]
                ok = src(s_.value) == f"len({m.params[1]})" and ("end", True) in g
                chk.check(ok, "R3", f"{CL}:{m.qualname} | {attr} = size of the last segment", m.loc(s_), f"`{src(s_)}` under {g}")
                in_send = in_send or ok
        chk.check(in_send, "R3", f"{CL}:{f.qualname} | n operand recorded by send()", f.loc(), f"{attr} is never set to the last segment's byte count")
    crc = [s_ for s_ in fr.stores if s_.fmt is not None and s_.lo != 0]
    chk.check(len(crc) == 1 and crc[0].fmt == "<H" and crc[0].lo == 1 and [src(x) for x in crc[0].fields] == ["self._crc.final()"], "R2",
              f"{CL}:{f.qualname} | CRC field", f.loc(), "CRC is not stored as '<H' at bytes 1..2 from self._crc.final()")
    for s_ in crc:
        g = [(src(e), p) for e, p in ff.facts_at(s_.stmt)]
        chk.check(("self.crc_supported", True) in g, "R2", f"{CL}:{f.qualname} | CRC only when negotiated", f.loc(s_.stmt), f"under {g}")
    # close is idempotent and always ends the transfer
    first = [s_ for s_ in f.node.body if not (isinstance(s_, ast.Expr) and isinstance(s_.value, ast.Constant))][0]
    chk.check(isinstance(first, ast.If) and src(first.test) == "self.closed" and isinstance(first.body[0], ast.Return), "R2", f"{CL}:{f.qualname} | closes once", f.loc(first),
              "close() can send the end frame twice")


def _sequence(chk, repo, folder):
    f = repo.func(CL, f"{C}.send", "C12.R4")
    ff = ff_for(chk, f, "C12.R4")
    incs = [n for n in ff.cfg.nodes if n.kind == "stmt" and isinstance(n.ast, ast.AugAssign) and dotted(n.ast.target) == "self._seqno"]
    chk.check(len(incs) == 1 and isinstance(incs[0].ast.op, ast.Add) and folder.try_fold(incs[0].ast.value, ff.scope, None) == 1, "R4",
              f"{CL}:{C}.send | one increment per segment", f.loc(), "sequence number is not incremented exactly once per segment")
    sends = [n for n in ff.cfg.nodes if node_calls(n, "send_request")]
    for i in incs:
        for s_ in sends:
            chk.check(ff.cfg.dominates(i, s_), "R4", f"{CL}:{C}.send | increment before the segment is sent", f.loc(i.ast), "first segment would carry sequence number 0")
        reads = [n for n in ff.cfg.nodes if n.kind == "stmt" and isinstance(n.ast, ast.Assign) and src(n.ast.value) == "self._seqno" and isinstance(n.ast.targets[0], ast.Name)]
        for r in reads:
            chk.check(ff.cfg.dominates(i, r), "R4", f"{CL}:{C}.send | command takes the incremented number", f.loc(r.ast), "")
    init = repo.func(CL, f"{C}.__init__", "C12.R4")
    st = attr_stores(init.node, "_seqno")
    chk.check(len(st) == 1 and folder.try_fold(st[0].value, Scope(init.mod), None) == 0, "R4", f"{CL}:{C}.__init__ | seqno starts at 0", init.loc(), "")
    st = attr_stores(init.node, "pos")
    chk.check(len(st) == 1 and folder.try_fold(st[0].value, Scope(init.mod), None) == 0, "R4", f"{CL}:{C}.__init__ | position starts at 0", init.loc(),
              "the end of the payload is recognised by pos + len(chunk) >= size: a start value other than 0 flags the wrong segment as the last one")
    posup = [n for n in own_nodes(f.node) if isinstance(n, ast.AugAssign) and src(n.target) == "self.pos"]
    chk.check(len(posup) == 1 and isinstance(posup[0].op, ast.Add) and src(posup[0].value) == "len(b)" and not [x for x in attr_stores(f.node, "pos") if isinstance(x, ast.Assign)], "R4",
              f"{CL}:{C}.send | position advances by the bytes sent", f.loc(), f"{[src(x) for x in posup]}")
    wr = repo.func(CL, f"{C}.write", "C12.R4")
    fwr = ff_for(chk, wr, "C12.R4")
    for c in find_calls(wr.node, "self.send"):
        g = [(fwr.norm(e, subst=False), p) for e, p in fwr.facts_at(fwr.stmt_of(c))]
        chk.check(("self._done", False) in g, "R4", f"{CL}:{C}.write | nothing is sent after the last segment", wr.loc(c),
                  f"send() reachable under {g}: data written after the segment flagged as last would be sent into a finished transfer")
    acks = [n for n in ff.cfg.nodes if node_calls(n, "self._block_ack")]
    chk.floor("R4", len(acks), 1, "_block_ack call in send")
    for a in acks:
        g = [ff.norm(e, subst=False) for e, p in ff.facts_at(a.ast) if p]
        chk.check(ff.canon("self._seqno >= self._blksize") in g or ff.canon("self._seqno == self._blksize") in g, "R4", f"{CL}:{C}.send | acknowledge at block end", f.loc(a.ast),
                  f"_block_ack() called under {g}; expected seqno >= blksize")
        allf = [(ff.norm(e, subst=False), p) for e, p in ff.facts_at(a.ast)]
        extra = [(t, p) for t, p in allf if "_retransmitting" in t or "crc" in t]
        chk.check(not extra, "R4", f"{CL}:{C}.send | acknowledge at the end of every block, resent ones included", f.loc(a.ast),
                  f"_block_ack() is only reached under {extra}: a block that fills up while segments are being resent is not acknowledged, the sequence number runs past the block "
                  f"size and the server drops what follows")
        for s_ in sends:
            chk.check(ff.cfg.dominates(s_, a), "R4", f"{CL}:{C}.send | segment sent before waiting for the acknowledge", f.loc(a.ast), "")
    shr = [s_ for s_ in attr_stores(f.node, "_blksize")]
    ok = any(src(s_.value) == "self._seqno" and ("end", True) in [(src(e), p) for e, p in ff.facts_at(s_)] for s_ in shr)
    chk.check(ok, "R4", f"{CL}:{C}.send | last block shrinks to the segments sent", f.loc(), "on the last data the expected acknowledge is not set to the current sequence number")
    done = [s_ for s_ in attr_stores(f.node, "_done") if folder.try_fold(s_.value, ff.scope, None) is True]
    chk.check(bool(done) and all(("end", True) in [(src(e), p) for e, p in ff.facts_at(s_)] for s_ in done), "R4", f"{CL}:{C}.send | done with the last data", f.loc(), "")
    inc_pos = [n for n in own_nodes(f.node) if isinstance(n, ast.AugAssign) and dotted(n.target) == "self.pos"]
    chk.check(len(inc_pos) == 1 and src(inc_pos[0].value) == f"len({f.params[1]})", "R4", f"{CL}:{C}.send | pos advances by the chunk", f.loc(), "")


def _ack(chk, repo, folder):
    f = repo.func(CL, f"{C}._block_ack", "C12.R5")
    ff = ff_for(chk, f, "C12.R5")
    unp = [n for n in own_nodes(f.node) if isinstance(n, ast.Assign) and isinstance(n.value, ast.Call) and (dotted(n.value.func) or "").endswith("unpack_from")]
    ok = False
    for u in unp:
        fmt = folder.try_fold(u.value.args[0], ff.scope, None)
        names = [src(e) for e in u.targets[0].elts] if isinstance(u.targets[0], ast.Tuple) else []
        ok = ok or (fmt == "BBB" and names == ["res_command", "ackseq", "blksize"] and src(u.value.args[1]) == "response")
    chk.check(ok, "R5", f"{CL}:{C}._block_ack | acknowledge decoded", f.loc(), "expected (command, ackseq, blksize) from bytes 0..2")
    # every acknowledge a conformant server may send is taken: 0..(segments sent) acknowledged, any next block size 1..127 --
    # in particular a next block size below the count just acknowledged
    guarded_raise_envs(chk, "R5", f, ff, [{"self._blksize": 10, "ackseq": 10, "blksize": 4}, {"self._blksize": 127, "ackseq": 127, "blksize": 1},
                                          {"self._blksize": 127, "ackseq": 64, "blksize": 127}, {"self._blksize": 1, "ackseq": 0, "blksize": 127},
                                          {"self._blksize": 1, "ackseq": 1, "blksize": 1}, {"self._blksize": 64, "ackseq": 64, "blksize": 16}],
                       "every legal acknowledge (ackseq 0..sent, next block size 1..127)")
    # mismatch -> retransmit(ackseq, blksize) and return
    rt = find_calls(f.node, "self._retransmit")
    chk.floor("R5", len(rt), 1, "_retransmit call in _block_ack")
    for c in rt:
        g = [ff.norm(e, subst=False) for e, p in ff.facts_at(ff.stmt_of(c)) if p]
        chk.check(ff.canon("ackseq != self._blksize") in g and [src(a) for a in c.args] == ["ackseq", "blksize"], "R5", f"{CL}:{C}._block_ack | retransmit on sequence error", f.loc(c),
                  f"{src(c)} under {g}")
    for attr, want in (("_current_block", "[]"), ("_seqno", "0"), ("_blksize", "blksize")):
        sts = attr_stores(f.node, attr)
        good = [s_ for s_ in sts if src(s_.value) == want and _after_mismatch_exit(ff, s_)]
        chk.check(len(good) == 1, "R5", f"{CL}:{C}._block_ack | success sets {attr} = {want}", f.loc(), f"stores: {[src(s_) for s_ in sts]}")
    r = repo.func(CL, f"{C}._retransmit", "C12.R5")
    fr_ = ff_for(chk, r, "C12.R5")
    blk = fr_.one_def("block")
    chk.check(blk is not None and src(blk) == "self._current_block[ackseq:]", "R5", f"{CL}:{C}._retransmit | resend from the acknowledged count", r.loc(),
              f"block = {src(blk) if blk is not None else '?'}; expected self._current_block[ackseq:]")
    loops = [n for n in fr_.cfg.nodes if n.kind == "for" and src(n.ast.iter) == "block"]
    if not loops:
        # another shape of the resend: any loop that sends; the per-acknowledge state must still be set once, before it
        any_loops = [n for n in own_nodes(r.node) if isinstance(n, ast.For) and any(isinstance(c, ast.Call) and dotted(c.func) in ("self.write", "self.send") for c in ast.walk(n))]
        for attr in ("_blksize", "_seqno", "_current_block"):
            inner = [s_ for s_ in attr_stores(r.node, attr) if any(any(x is s_ for x in ast.walk(lp_)) for lp_ in any_loops)]
            for s_ in inner:
                chk.bad("R5", f"{CL}:{C}._retransmit | {attr} not overwritten after resending", r.loc(s_),
                        f"`{src(s_)}` runs inside the loop that resends: after the first resent sub-block its acknowledge has installed the server's new block size / "
                        f"sequence state, which this statement replaces by the stale value of the first acknowledge")
        if any_loops and any(any(any(x is s_ for x in ast.walk(lp_)) for lp_ in any_loops) for attr in ("_blksize", "_seqno", "_current_block") for s_ in attr_stores(r.node, attr)):
            return
    chk.floor("R5", len(loops), 1, "resend loop")
    for lp in loops:
        body_ok = len(lp.ast.body) == 1 and src(lp.ast.body[0]) == f"self.write({src(lp.ast.target)})"
        chk.check(body_ok, "R5", f"{CL}:{C}._retransmit | resends every retained segment", r.loc(lp.ast), f"{[src(s_) for s_ in lp.ast.body]}")
        for attr, want in (("_seqno", "0"), ("_blksize", "blksize"), ("_current_block", "[]"), ("_retransmitting", "True")):
            sts = [fr_.cfg.node_of(s_) for s_ in attr_stores(r.node, attr) if src(s_.value) == want]
            chk.check(bool(sts) and any(fr_.cfg.dominates(s_, lp) for s_ in sts), "R5", f"{CL}:{C}._retransmit | {attr} = {want} before the first resent segment", r.loc(lp.ast),
                      f"the resent segments are sent with a stale {attr}" + (" (counted against the old block size: the server acknowledges early and the rest is dropped)" if attr == "_blksize" else ""))
            late = [s_ for s_ in attr_stores(r.node, attr) if fr_.cfg.node_of(s_) in fr_.cfg.reach_from(lp) and attr in ("_blksize", "_seqno", "_current_block")]
            chk.check(not late, "R5", f"{CL}:{C}._retransmit | {attr} not overwritten after resending", r.loc(lp.ast),
                      f"{attr} is assigned again after the resend loop: what the nested acknowledge negotiated is lost")
        fin = [fr_.cfg.node_of(s_) for s_ in attr_stores(r.node, "_retransmitting") if src(s_.value) == "False"]
        chk.check(bool(fin) and all(f_ in fr_.cfg.reach_from(lp) for f_ in fin), "R5", f"{CL}:{C}._retransmit | retransmission flag cleared afterwards", r.loc(), "")
    pos = [s_ for s_ in attr_stores(r.node, "pos")]
    chk.check(len(pos) == 1 and ((isinstance(pos[0], ast.Assign) and fr_.is_form(pos[0].value, "self.pos - len(block) * 7", subst=False)) or
                                 (isinstance(pos[0], ast.AugAssign) and isinstance(pos[0].op, ast.Sub) and fr_.is_form(pos[0].value, "len(block) * 7", subst=False))), "R5", f"{CL}:{C}._retransmit | position rolled back by the resent bytes", r.loc(),
              f"{[src(p) for p in pos]}")


def _after_mismatch_exit(ff, st) -> bool:
    """`st` runs only when the acknowledged count equals the block size (past `if ackseq != self._blksize: ...; return`, or in
    the else branch of that test): decided from the conditions in force at the statement."""
    ne, eq = ff.canon("ackseq != self._blksize"), ff.canon("ackseq == self._blksize")
    for e, p in ff.facts_at(st):
        t = ff.norm(e, subst=False)
        if (t == ne and not p) or (t == eq and p):
            return True
    # the fact is gone once self._blksize itself has been stored: the guard clause form is recognised by dominance
    from .common import always_exits
    node = ff.cfg.node_of(st)
    for t in ff.cfg.nodes:
        if t.kind == "test" and ff.is_form(t.ast, "ackseq != self._blksize"):
            owner = getattr(t, "owner", None)
            if owner is not None and always_exits(owner.body) and ff.cfg.dominates(t, node) and not any(st is x for b in owner.body for x in ast.walk(b)):
                return True
    return False


def _crc(chk, repo, folder):
    f = repo.func(CL, f"{C}.send", "C12.R6")
    ff = ff_for(chk, f, "C12.R6")
    procs = [n for n in ff.cfg.nodes if node_calls(n, "self._crc.process")]
    chk.check(len(procs) == 1, "R6", f"{CL}:{C}.send | one CRC update per segment", f.loc(), f"{len(procs)} calls of _crc.process")
    for p in procs:
        g = [(src(e), pol) for e, pol in ff.facts_at(p.ast)]
        chk.check(("self.crc_supported", True) in g and ("self._retransmitting", False) in g, "R6", f"{CL}:{C}.send | CRC skipped while retransmitting", f.loc(p.ast),
                  f"_crc.process under {g}: resent bytes would be summed twice")
        c = find_calls(p.ast, "self._crc.process")[0]
        chk.check([src(a) for a in c.args] == [f.params[1]], "R6", f"{CL}:{C}.send | CRC over the chunk", f.loc(p.ast), src(c))

        def count(n):
            return 1 if n is p else 0
        # exactly once on every normal path where CRC applies: typestate counting
        ex, rz, errs, IN = typestate(ff.cfg, [0], lambda n, s: [min(s + count(n), 2)])
        chk.check(set(ex) <= {0, 1}, "R6", f"{CL}:{C}.send | at most once per call", f.loc(p.ast), f"counts {sorted(ex)}")
    init = repo.func(CL, f"{C}.__init__", "C12.R6")
    fi = ff_for(chk, init, "C12.R6")
    st = attr_stores(init.node, "crc_supported")
    chk.check(len(st) == 1 and fi.is_form(st[0].value, "bool(res_command & CRC_SUPPORTED)", "bool(res_command & 4)"), "R6", f"{CL}:{C}.__init__ | CRC support from the server's answer", init.loc(),
              f"{[src(s_) for s_ in st]}")
    wit = must_pass(fi.cfg, lambda n: n.kind == "stmt" and isinstance(n.ast, ast.Assign) and dotted(n.ast.targets[0]) == "self.crc_supported")
    chk.check(wit is None, "R6", f"{CL}:{C}.__init__ | negotiated on every path", init.loc(), f"{path_text(wit) if wit else ''}")
    st = attr_stores(init.node, "_crc")
    chk.check(len(st) == 1 and src(st[0].value) == "sdo_client.crc_cls()", "R6", f"{CL}:{C}.__init__ | fresh CRC per transfer", init.loc(), "")
    bl = attr_stores(init.node, "_blksize")
    ok = False
    for s_ in bl:
        v = s_.value
        ok = ok or (isinstance(v, ast.Call) and folder.try_fold(v.args[0], fi.scope, None) == "B" and src(v.args[1]) == "response" and folder.try_fold(v.args[2], fi.scope, None) == 4)
    chk.check(ok, "R6", f"{CL}:{C}.__init__ | block size from byte 4", init.loc(), "")
    crc_identity(chk, "R6")


def _writers(chk, repo, folder):
    cls = repo.cls(CL, C, "C12.R6")
    allowed = {"_retransmitting": {"__init__", "_retransmit"}, "crc_supported": {"__init__"}, "_crc": {"__init__"}}
    for attr, ok_in in allowed.items():
        for mname, m in cls.methods.items():
            for s_ in attr_stores(m.node, attr):
                chk.check(mname in ok_in, "R6", f"{CL}:{C}.{mname} | writer of {attr}", m.loc(s_),
                          f"`{src(s_)}` outside {sorted(ok_in)}: " + ("a clean acknowledge in the middle of a retransmission drops the flag and the remaining resent segments are "
                          "summed into the CRC a second time" if attr == "_retransmitting" else "the negotiated CRC setting is changed during the transfer"))
    chk.ok("R6", f"{CL}:{C} | writers of CRC state", f"{CL}:{cls.node.lineno}", "scanned")


def _copies(chk, repo, folder):
    f = repo.func(CL, f"{C}.send", "C12.R7")
    ff = ff_for(chk, f, "C12.R7")
    apps = find_calls(f.node, "self._current_block.append")
    chk.floor("R7", len(apps), 1, "retention of sent segments")
    for c in apps:
        a = c.args[0]
        if isinstance(a, ast.Name):
            d = ff.def_at(a.id, ff.stmt_of(c)) or ff.raw_def_at(a.id, ff.stmt_of(c))
            if d is not None:
                a = d
        copy = isinstance(a, ast.Call) and (dotted(a.func) in ("bytes", "bytearray") or (isinstance(a.func, ast.Attribute) and a.func.attr == "tobytes"))
        if not copy:
            # or every caller hands in a copy
            w = repo.func(CL, f"{C}.write", "C12.R7")
            fw = ff_for(chk, w, "C12.R7")
            d = fw.one_def("data")
            copy = d is not None and isinstance(d, ast.Call) and dotted(d.func) in ("bytes", "bytearray") and all(
                [src(x) for x in k.args[:1]] == ["data"] for k in find_calls(w.node, "self.send"))
        chk.check(copy, "R7", f"{CL}:{C}.send | retained segment is a copy", f.loc(c),
                  f"`{src(c)}` keeps a reference to the caller's buffer (a memoryview of io.BufferedWriter's internal buffer, reused after a flush): "
                  "a retransmitted sub-block is resent with other bytes and the download still returns normally")


def crc_identity(chk, rule: str):
    """CrcXmodem is binascii.crc_hqx chained from 0, final() is a pure read, SdoBase.crc_cls names it (shared C12.R6 / C13.R5)."""
    repo, folder = ctx(chk)
    crc = repo.cls(SB, "CrcXmodem", f"{chk.prop}.{rule}")
    pr = crc.methods.get("process")
    ini = crc.methods.get("__init__")
    fin = crc.methods.get("final")
    ok = pr is not None and ini is not None and fin is not None
    if ok:
        chk.saw(pr)
        st = attr_stores(pr.node, "_value")
        ok = len(st) == 1 and src(st[0].value) == "binascii.crc_hqx(data, self._value)"
        st0 = attr_stores(ini.node, "_value")
        # the transfer constructs it without arguments (checked above: `sdo_client.crc_cls()`): parameters hold their defaults
        a_ = ini.node.args
        dflt = {p_.arg: folder.try_fold(d_, Scope(crc.mod), None) for p_, d_ in zip((a_.posonlyargs + a_.args)[len(a_.posonlyargs + a_.args) - len(a_.defaults):], a_.defaults)}
        dflt.update({p_.arg: folder.try_fold(d_, Scope(crc.mod), None) for p_, d_ in zip(a_.kwonlyargs, a_.kw_defaults) if d_ is not None})
        ok = ok and len(st0) == 1 and folder.try_fold(st0[0].value, Scope(crc.mod, None, dflt), None) == 0 and type(folder.try_fold(st0[0].value, Scope(crc.mod, None, dflt), None)) is int
        rets = [n for n in own_nodes(fin.node) if isinstance(n, ast.Return)]
        ok = ok and len(rets) == 1 and (src(rets[0].value) == "self._value" or isinstance(rets[0].value, ast.Name))
        # reading the checksum does not change it: final() is also what a log line or a comparison may call in the middle of a transfer
        wr = [n for n in ast.walk(fin.node) if isinstance(n, (ast.Assign, ast.AugAssign)) and any(isinstance(t, ast.Attribute) and dotted(t.value) == "self"
              for t in ast.walk(n) if isinstance(t, ast.Attribute) and isinstance(t.ctx, ast.Store))]
        cl_mod = next((m_ for m_ in repo.modules.values() if m_.rel == CL), None)
        n_final = len([c_ for c_ in ast.walk(ast.parse(cl_mod.src)) if isinstance(c_, ast.Call) and isinstance(c_.func, ast.Attribute) and c_.func.attr == "final"
                       and "_crc" in src(c_.func.value)]) if cl_mod is not None else 0
        # (a final() that resets is harmless as long as each transfer asks once, at its end: one call per stream class)
        if wr and n_final > 2:
            chk.bad(rule, f"{SB}:CrcXmodem.final | reading the checksum leaves it unchanged", fin.loc(wr[0]),
                    f"`{src(wr[0])[:50]}`: final() changes the running checksum, so any call before the end of the transfer (a debug line, a retransmission record) restarts "
                    f"the CRC and the end-of-transfer comparison fails for an undisturbed transfer")
    chk.check(ok, rule, f"{SB}:CrcXmodem | CRC-16/XMODEM", f"{SB}:{crc.node.lineno}", "the block CRC is not binascii.crc_hqx chained from 0")
    base = repo.cls(SB, "SdoBase", f"{chk.prop}.{rule}")
    chk.check("crc_cls" in base.consts and src(base.consts["crc_cls"]) == "CrcXmodem", rule, f"{SB}:SdoBase.crc_cls", f"{SB}:{base.node.lineno}", "crc_cls is not CrcXmodem")
