"""C16 -- the EMCY consumer's log and active list mirror the received history."""
from __future__ import annotations

import ast

from .. import oracles as O
from ..cfg import typestate
from ..fold import Scope, StructVal, dotted, src
from ..loader import AnalysisError
from .common import (attr_stores, ctx, ff_for, find_calls, inside_with, must_pass, node_calls, own_nodes, path_text, reject_probes)

EM = "canopen/emcy.py"

EXPLANATION = (
    "R1 one frame struct '<HB5s' shared by consumer and producer, field order code/register/data on both sides and in "
    "EmcyError; R2 typestate over every path of on_emcy: exactly one log.append(entry), exactly one of "
    "active-reset / active.append selected by the reset predicate, all inside the condition and before notify_all, "
    "exactly one callback loop calling each callback once with the entry; R3 the reset predicate is "
    "`code & 0xFF00 == 0`; R4 the DESCRIPTIONS literal, evaluated as a first-match function over all 65536 codes, "
    "equals the CiA 301 error class table; get_desc has the loop shape the evaluation assumes; R5 wait(): snapshot "
    "and wait inside the condition, None on unchanged size or passed deadline, filter is `emcy_code is None or "
    "emcy.code == emcy_code`; R6 log and active are never aliased and only on_emcy/reset rebind them; R9 the bus listener hands every data frame, with the frame's own id/data/timestamp, to the subscribers (shared with C10.R5); R8 structural assumptions shared by all properties: no class-level mutable object is mutated in place by instances, no method re-runs the constructor, logging statements cannot raise (typed eager formatting, divisions), no mutable default argument is kept or mutated, no new truth-value test of a None-able number, a look-up memory the pinned tree does not have is keyed by all its inputs (arithmetic keys folded over a grid of addresses) and, on the serving side, emptied somewhere."
    ' R1 also: send/reset accept every 16-bit code, register 0..0xFF and 0..5 data bytes (specialised for boundary probes); R5 also: the code filter is decided by evaluation for filters None / 0 / two codes, a deadline test may be guarded by `end_time is not None` when that arises from timeout=None only.'
    ' R2 also: the order of bookkeeping and notify inside one with-block is free, user callbacks run only after the waiters were woken.'
)
ASSUMPTIONS = [
    "not decided: which of several concurrently arriving entries a waiting caller is handed (schedule dependent)",
    "callbacks are opaque and assumed not to raise",
]


def run(chk):
    repo, folder = ctx(chk)
    mod = repo.mod(EM, "C16")
    sc = Scope(mod)
    # ------------------------------------------------------------------ R1
    if "EMCY_STRUCT" not in mod.consts:
        raise AnalysisError("C16.R1", "EMCY_STRUCT not found")
    sv = folder.try_fold(mod.consts["EMCY_STRUCT"], sc, None)
    chk.check(isinstance(sv, StructVal) and sv.fmt == "<HB5s", "R1", f"{EM}:EMCY_STRUCT", f"{EM}:{mod.consts['EMCY_STRUCT'].lineno}",
              f"EMCY frame layout is {getattr(sv, 'fmt', sv)!r}; CiA 301: '<HB5s' (code, register, 5 manufacturer bytes)")
    f = repo.func(EM, "EmcyConsumer.on_emcy", "C16.R1")
    ff = ff_for(chk, f, "C16.R1")
    unp = [c for c in find_calls(f.node, ".unpack") + find_calls(f.node, ".unpack_from")]
    chk.floor("R1", len(unp), 1, "unpack in on_emcy")
    entry_var = None
    for c in unp:
        st = ff.stmt_of(c)
        ok = dotted(c.func) in ("EMCY_STRUCT.unpack", "EMCY_STRUCT.unpack_from") and c.args and src(c.args[0]) == "data" \
            and isinstance(st, ast.Assign) and isinstance(st.targets[0], ast.Tuple) and len(st.targets[0].elts) == 3
        chk.check(ok, "R1", f"{EM}:EmcyConsumer.on_emcy | unpack", f.loc(c), f"frame decoded by {src(st)}; expected three fields from EMCY_STRUCT")
        if ok:
            fields = [src(e) for e in st.targets[0].elts]
            # EmcyError(code, register, data, timestamp)
            ctor = [n for n in own_nodes(f.node) if isinstance(n, ast.Call) and dotted(n.func) == "EmcyError"]
            chk.floor("R1", len(ctor), 1, "EmcyError construction in on_emcy")
            for k in ctor:
                args = [src(a) for a in k.args]
                chk.check(args == fields + ["timestamp"] and not k.keywords, "R1", f"{EM}:EmcyConsumer.on_emcy | entry fields", f.loc(k),
                          f"entry built as EmcyError({', '.join(args)}); expected ({', '.join(fields)}, timestamp)")
                st2 = ff.stmt_of(k)
                if isinstance(st2, ast.Assign) and isinstance(st2.targets[0], ast.Name):
                    entry_var = st2.targets[0].id
    ee = repo.func(EM, "EmcyError.__init__", "C16.R1")
    chk.saw(ee)
    for attr in ("code", "register", "data", "timestamp"):
        st = attr_stores(ee.node, attr)
        chk.check(len(st) == 1 and src(st[0].value) == attr, "R1", f"{EM}:EmcyError.__init__ | {attr}", ee.loc(),
                  f"self.{attr} is not the constructor argument {attr}")
    for name, first in (("send", "code"), ("reset", "0")):
        p = repo.func(EM, f"EmcyProducer.{name}", "C16.R1")
        pf = ff_for(chk, p, "C16.R1")
        # every code 0..0xFFFF, register 0..0xFF and 0..5 data bytes is sent: validation refuses none of them
        prm = [a_ for a_ in p.params if a_ != "self"]
        doms = {"code": (0, 0x1000, 0xFFFF), "register": (0, 1, 0xFF), "data": (b"", b"\x01", b"\x01\x02\x03\x04\x05")}
        if all(a_ in doms for a_ in prm):
            import itertools
            reject_probes(chk, "R1", p, [dict(zip(prm, combo)) for combo in itertools.product(*[doms[a_] for a_ in prm])],
                          "every 16-bit code, 8-bit register and 0..5 data bytes")
        packs = find_calls(p.node, ".pack")
        if not packs:
            # delegated to a helper of the class: follow it one level
            prod = repo.cls(EM, "EmcyProducer", "C16.R1")
            deleg = [c for c in ast.walk(p.node) if isinstance(c, ast.Call) and isinstance(c.func, ast.Attribute) and dotted(c.func.value) == "self" and c.func.attr in prod.methods]
            handled = False
            for dc in deleg:
                h = prod.methods[dc.func.attr]
                hf = ff_for(chk, h, "C16.R1")
                for c in find_calls(h.node, ".send_message"):
                    pl = c.args[1] if len(c.args) > 1 else None
                    if isinstance(pl, ast.Name) and hf.one_def(pl.id) is not None:
                        pl = hf.one_def(pl.id)
                    if isinstance(pl, ast.Attribute) and dotted(pl.value) == "self":
                        handled = True
                        chk.bad("R1", f"{EM}:EmcyProducer.{name} | payload is a fresh EMCY_STRUCT.pack(code, register, data)", h.loc(c),
                                f"`{src(c)[:70]}` sends the instance buffer self.{pl.attr} that {h.name}() fills in place: bytes of an earlier, longer message survive "
                                f"unless all eight bytes are rewritten, so the data is not zero-padded to five bytes")
                    elif isinstance(pl, ast.Call) and dotted(pl.func) == "EMCY_STRUCT.pack":
                        handled = True
                        amap = dict(zip(h.params[1:], [pf.norm(a) for a in dc.args]))
                        got = [amap.get(src(a), src(a)) for a in pl.args]
                        chk.check(got == [first, "register", "data"], "R1", f"{EM}:EmcyProducer.{name} | pack", h.loc(pl), f"payload is EMCY_STRUCT.pack({', '.join(got)}) via {h.name}()")
            if handled:
                continue
        chk.floor("R1", len(packs), 1, f"pack in EmcyProducer.{name}")
        for c in packs:
            args = [pf.norm(a) for a in c.args]
            chk.check(dotted(c.func) == "EMCY_STRUCT.pack" and args == [first, "register", "data"], "R1",
                      f"{EM}:EmcyProducer.{name} | pack", p.loc(c), f"payload is {src(c)}; expected EMCY_STRUCT.pack({first}, register, data)")
        for c in find_calls(p.node, ".send_message"):
            args = [pf.norm(a) for a in c.args]
            pl = c.args[1] if len(c.args) > 1 else None
            if isinstance(pl, ast.Name) and pf.one_def(pl.id) is not None:
                pl = pf.one_def(pl.id)
            payload = src(pl) if pl is not None else "?"
            chk.check(args[0] == "self.cob_id" and payload.startswith("EMCY_STRUCT.pack("), "R1",
                      f"{EM}:EmcyProducer.{name} | send", p.loc(c), f"sends {args}")

    # ------------------------------------------------------------------ R2 typestate on on_emcy
    if entry_var is None:
        chk.unk("R2", f"{EM}:EmcyConsumer.on_emcy | entry", f.loc(), "entry variable not identified")
        return
    cond = "self.emcy_received"

    def events(n):
        a = n.ast
        ev = []
        if a is None:
            return ev
        if n.kind == "stmt":
            for c in [x for x in ast.walk(a) if isinstance(x, ast.Call)]:
                d = dotted(c.func) or ""
                if d == "self.log.append":
                    ev.append(("log", [src(x) for x in c.args] == [entry_var]))
                elif d == "self.active.append":
                    ev.append(("act_app", [src(x) for x in c.args] == [entry_var]))
                elif d in (cond + ".notify_all", cond + ".notify"):
                    ev.append(("notify", True))
                elif d == "callback":
                    ev.append(("cb", [src(x) for x in c.args] == [entry_var]))
                elif d in ("self.log.clear", "self.log.pop", "self.log.remove", "self.log.insert", "self.log.extend"):
                    ev.append(("log_other", False))
            if isinstance(a, (ast.Assign, ast.AugAssign)):
                tg = [dotted(t) for t in (a.targets if isinstance(a, ast.Assign) else [a.target])]
                if "self.active" in tg:
                    ev.append(("act_reset", isinstance(a, ast.Assign) and isinstance(a.value, ast.List) and not a.value.elts))
                if "self.log" in tg:
                    ev.append(("log_other", False))
        if n.kind == "for" and src(a.iter) == "self.callbacks":
            ev.append(("cbloop", True))
        return ev

    # the order of bookkeeping and notify_all inside ONE `with cond:` block cannot be observed: a woken waiter needs the lock, which is
    # released only at the end of the block.  `notified` is therefore the id of the with-block the notify sits in (-1: none).
    from .common import enclosing as _enclosing

    def with_of(n):
        ws = [w for w in _enclosing(f.node, n.ast, (ast.With,)) if any(src(it.context_expr) == cond for it in w.items)]
        return id(ws[-1]) if ws else -1

    def same_with(n, wid):
        return wid != -1 and with_of(n) == wid

    # state: (log, act, notified, cbloops, cbcalls_in_iteration)
    def step(n, s):
        log, act, notified, loops = s
        for kind, good in events(n):
            if kind == "log":
                if not good:
                    return ["ERR:log.append called with something other than the entry"]
                if notified and not same_with(n, notified):
                    return ["ERR:log.append after notify_all (a woken waiter may not see the entry)"]
                log = min(log + 1, 2)
            elif kind in ("act_app", "act_reset"):
                if not good:
                    return [f"ERR:active list updated with the wrong value ({kind})"]
                if notified and not same_with(n, notified):
                    return ["ERR:active list updated after notify_all"]
                act = min(act + 1, 2)
            elif kind == "log_other":
                return ["ERR:the log is rebound or mutated other than by append(entry)"]
            elif kind == "notify":
                notified = with_of(n)
            elif kind == "cbloop":
                if not notified:
                    return ["ERR:callbacks run before the waiters are woken (a callback that raises leaves wait() asleep although the frame was logged)"]
        return [(log, act, notified, loops)]

    ex, rz, errs, IN = typestate(ff.cfg, [(0, 0, False, 0)], step)
    chk.product_states += sum(len(v) for v in IN.values() if v)
    for n, s, why in errs:
        chk.bad("R2", f"{EM}:EmcyConsumer.on_emcy | {why}", f.loc(n.ast), why)
    bad_exit = [s for s in ex if s[0] != 1 or s[1] != 1 or not s[2]]
    chk.check(not bad_exit and bool(ex), "R2", f"{EM}:EmcyConsumer.on_emcy | per-frame bookkeeping", f.loc(),
              f"some path leaves on_emcy with (log appends, active updates, notified) = {sorted((s[0], s[1], s[2]) for s in bad_exit)}; "
              f"expected exactly (1, 1, True)")
    # inside the condition
    for n in ff.cfg.nodes:
        for kind, good in events(n):
            if kind in ("log", "act_app", "act_reset", "notify"):
                chk.check(inside_with(f.node, n.ast, cond), "R2", f"{EM}:EmcyConsumer.on_emcy | {kind} under condition", f.loc(n.ast),
                          f"{kind} happens outside `with {cond}`")
    # callbacks: exactly one loop over self.callbacks on every path, each iteration calls callback(entry) exactly once
    loops = [n for n in own_nodes(f.node) if isinstance(n, ast.For) and src(n.iter) == "self.callbacks"]
    chk.check(len(loops) == 1, "R2", f"{EM}:EmcyConsumer.on_emcy | callback loop", f.loc(), f"{len(loops)} loops over self.callbacks (expected 1)")
    for lp in loops:
        wit = must_pass(ff.cfg, lambda n: n.kind == "for" and n.ast is lp)
        chk.check(wit is None, "R2", f"{EM}:EmcyConsumer.on_emcy | callbacks on every path", f.loc(lp),
                  f"a path skips the callbacks: {path_text(wit) if wit else ''}")
        body_calls = [c for c in ast.walk(lp) if isinstance(c, ast.Call) and dotted(c.func) == src(lp.target)]
        ok = len(body_calls) == 1 and [src(a) for a in body_calls[0].args] == [entry_var] and len(lp.body) == 1 \
            and isinstance(lp.body[0], ast.Expr) and lp.body[0].value is body_calls[0] and not lp.orelse
        chk.check(ok, "R2", f"{EM}:EmcyConsumer.on_emcy | each callback once with the entry", f.loc(lp),
                  f"loop body is {[src(s) for s in lp.body]}")
        inner = [n for n in ast.walk(lp) if isinstance(n, (ast.Break, ast.Continue, ast.Return))]
        chk.check(not inner, "R2", f"{EM}:EmcyConsumer.on_emcy | loop not cut short", f.loc(lp), "break/continue/return inside the callback loop")

    # ------------------------------------------------------------------ R3 reset predicate
    resets = [n for n in ff.cfg.nodes if any(k == "act_reset" for k, _ in events(n))]
    apps = [n for n in ff.cfg.nodes if any(k == "act_app" for k, _ in events(n))]
    chk.floor("R3", len(resets) + len(apps), 2, "active reset + append sites")
    code_var = None
    for c in unp:
        st = ff.stmt_of(c)
        if isinstance(st, ast.Assign) and isinstance(st.targets[0], ast.Tuple):
            code_var = src(st.targets[0].elts[0])
    for n, want in [(x, True) for x in resets] + [(x, False) for x in apps]:
        facts = ff.facts_at(n.ast)
        pol = None
        for e, p in facts:
            r = _is_reset_pred(ff, e, code_var)
            if r is not None:
                pol = (r == p)
        if pol is None:
            chk.bad("R3", f"{EM}:EmcyConsumer.on_emcy | {'reset' if want else 'append'} predicate", f.loc(n.ast),
                    f"the {'reset' if want else 'append'} of the active list is not selected by `code & 0xFF00 == 0`; facts: {[(src(e), p) for e, p in facts]}")
        else:
            chk.check(pol == want, "R3", f"{EM}:EmcyConsumer.on_emcy | {'reset' if want else 'append'} predicate", f.loc(n.ast),
                      "polarity inverted: the active list is " + ("reset on errors" if want else "appended on error-reset frames"))

    # ------------------------------------------------------------------ R4 description table
    _descriptions(chk, repo, folder)
    # ------------------------------------------------------------------ R5 wait
    _wait(chk, repo, folder)
    # ------------------------------------------------------------------ R6 aliasing / writers
    cls = repo.cls(EM, "EmcyConsumer", "C16.R6")
    for mname, m in cls.methods.items():
        for n in own_nodes(m.node):
            if isinstance(n, ast.Assign):
                tg = [dotted(t) for t in n.targets]
                both = {"self.log", "self.active"} <= set(tg)
                if both:
                    chk.bad("R6", f"{EM}:EmcyConsumer.{mname} | log/active aliased", m.loc(n),
                            f"`{src(n)}` binds log and active to the same list object: every later entry appears twice")
                for t in tg:
                    if t in ("self.log", "self.active"):
                        v = src(n.value)
                        other = "self.active" if t == "self.log" else "self.log"
                        fresh = isinstance(n.value, (ast.List, ast.ListComp)) or v in ("list()",)
                        if other in v and not (isinstance(n.value, ast.Call) and dotted(n.value.func) == "list"):
                            chk.bad("R6", f"{EM}:EmcyConsumer.{mname} | {t} aliases {other}", m.loc(n), f"`{src(n)}`")
                        elif not both:
                            chk.check(fresh or mname == "__init__", "R6", f"{EM}:EmcyConsumer.{mname} | {t} rebound", m.loc(n),
                                      f"`{src(n)}` rebinds {t} to something that is not a fresh list")
                        if mname not in ("__init__", "on_emcy", "reset"):
                            chk.bad("R6", f"{EM}:EmcyConsumer.{mname} | writer of {t}", m.loc(n), "only __init__, on_emcy and reset may rebind the lists")
    chk.ok("R6", f"{EM}:EmcyConsumer | writers of log/active", f"{EM}:{cls.node.lineno}", "scanned all methods")

    # ------------------------------------------------------------------ R9 every emergency frame on the bus reaches the consumer (listener clause shared with C10.R5)
    from . import shared as _sh16
    _sh16.listener_filter(chk, "R9")
    # ------------------------------------------------------------------ R8 instances are independent (shared clause)
    from . import shared as _shared
    _shared.isolation(chk, "R8", rels=['canopen/emcy.py'])


def _is_reset_pred(ff, e, code_var):
    """True if e <=> (code & 0xFF00 == 0), False if e <=> its negation, None otherwise."""
    if code_var is None:
        return None
    t = ff.norm(e)
    c = code_var
    pos = {f"{c} & 65280 == 0", f"65280 & {c} == 0", f"{c} >> 8 == 0", f"{c} < 256", f"{c} <= 255"}
    neg = {f"{c} & 65280 != 0", f"65280 & {c} != 0", f"{c} >> 8 != 0", f"{c} >= 256", f"{c} > 255",
           f"{c} & 65280", f"65280 & {c}", f"{c} >> 8"}
    if t in pos:
        return True
    if t in neg:
        return False
    return None


def _descriptions(chk, repo, folder):
    cls = repo.cls(EM, "EmcyError", "C16.R4")
    if "DESCRIPTIONS" not in cls.consts:
        raise AnalysisError("C16.R4", "EmcyError.DESCRIPTIONS not found")
    sc = Scope(cls.mod, cls)
    sc.in_class_body = True
    tab = folder.try_fold(cls.consts["DESCRIPTIONS"], sc, None)
    where = f"{EM}:{cls.consts['DESCRIPTIONS'].lineno}"
    if not isinstance(tab, (list, tuple)) or not all(isinstance(r, tuple) and len(r) == 3 for r in tab):
        raise AnalysisError("C16.R4", "DESCRIPTIONS does not fold to a list of (code, mask, text)")
    chk.analysed_tables.append("EmcyError.DESCRIPTIONS")
    chk.floor("R4", len(tab), 12, "DESCRIPTIONS rows")
    for i, (code, mask, text) in enumerate(tab):
        chk.check(code & ~mask == 0 and 0 <= code <= 0xFFFF and 0 < mask <= 0xFFFF, "R4", f"DESCRIPTIONS row {text!r} well-formed", where,
                  f"row (0x{code:04X}, 0x{mask:04X}) can never match: code has bits outside the mask")
        shadow = [j for j in range(i) if (tab[j][1] & mask) == tab[j][1] and (code & tab[j][1]) == tab[j][0]]
        chk.check(not shadow, "R4", f"DESCRIPTIONS row {text!r} reachable", where,
                  f"row is fully shadowed by earlier row {tab[shadow[0]][2]!r}" if shadow else "")

    # get_desc loop shape
    g = repo.func(EM, "EmcyError.get_desc", "C16.R4")
    chk.saw(g)
    loops = [n for n in own_nodes(g.node) if isinstance(n, ast.For)]
    shape_ok = False
    if len(loops) == 1 and src(loops[0].iter) == "self.DESCRIPTIONS" and isinstance(loops[0].target, ast.Tuple) \
            and len(loops[0].target.elts) == 3 and len(loops[0].body) == 1 and isinstance(loops[0].body[0], ast.If):
        cv, mv, dv = [src(e) for e in loops[0].target.elts]
        iff = loops[0].body[0]
        test = src(iff.test)
        ret = iff.body[0] if len(iff.body) == 1 and isinstance(iff.body[0], ast.Return) else None
        if test in (f"self.code & {mv} == {cv}", f"{cv} == self.code & {mv}", f"{mv} & self.code == {cv}") and ret is not None \
                and src(ret.value) == dv and not iff.orelse:
            shape_ok = True
    if not shape_ok:
        chk.unk("R4", f"{EM}:EmcyError.get_desc | first-match loop", g.loc(), "get_desc is not the first-match loop over DESCRIPTIONS "
                "`for code, mask, text in self.DESCRIPTIONS: if self.code & mask == code: return text`")
        return
    chk.ok("R4", f"{EM}:EmcyError.get_desc | first-match loop", g.loc())

    def first_match(c):
        for code, mask, text in tab:
            if c & mask == code:
                return text
        return ""

    def oracle(c):
        for code, mask, cls_ in O.EMCY_CLASSES:
            if c & mask == code:
                return cls_
        return None
    mism = {}
    n_defined = 0
    for c in range(0x10000):
        want = oracle(c)
        if want is None:
            continue
        n_defined += 1
        got = first_match(c).lower()
        if not any(k in got for k in O.EMCY_KEYWORDS[want]):
            mism.setdefault(want, (c, got))
    chk.notes.append(f"R4 evaluated first-match over {n_defined} codes whose class CiA 301 defines")
    for cls_, _ in [(x[2], None) for x in O.EMCY_CLASSES]:
        if cls_ in mism:
            c, got = mism[cls_]
            chk.bad("R4", f"DESCRIPTIONS class {cls_!r}", where, f"code 0x{c:04X} is described as {got!r}; CiA 301 class: {cls_}")
        else:
            chk.ok("R4", f"DESCRIPTIONS class {cls_!r}", where, "all codes of the class map to its description")


def _wait(chk, repo, folder):
    f = repo.func(EM, "EmcyConsumer.wait", "C16.R5")
    ff = ff_for(chk, f, "C16.R5")
    cond = "self.emcy_received"
    waits = [c for c in find_calls(f.node, ".wait") if dotted(c.func) == cond + ".wait"]
    chk.floor("R5", len(waits), 1, "condition wait in wait()")
    snap = [n for n in own_nodes(f.node) if isinstance(n, ast.Assign) and src(n.value) == "len(self.log)"]
    chk.floor("R5", len(snap), 1, "log size snapshot")
    for c in waits:
        chk.check(inside_with(f.node, c, cond), "R5", f"{EM}:EmcyConsumer.wait | wait under condition", f.loc(c), "wait outside condition")
        for s in snap:
            chk.check(inside_with(f.node, s, cond) and ff.cfg.dominates(ff.cfg.node_of(s), ff.cfg.node_of(ff.stmt_of(c))), "R5",
                      f"{EM}:EmcyConsumer.wait | snapshot before wait", f.loc(s), "log size not snapshotted inside the condition before waiting")
    rets = [n for n in own_nodes(f.node) if isinstance(n, ast.Return)]
    entry_rets = [r for r in rets if r.value is not None and folder.try_fold(r.value, Scope(f.mod, f.cls), 1) is not None]
    none_rets = [r for r in rets if r not in entry_rets]
    chk.floor("R5", len(entry_rets), 1, "return of an entry")
    svar = src(snap[0].targets[0]) if snap else "?"
    unchanged = False
    deadline = False
    # "no deadline" (end_time None) is accepted when it is chosen only by the caller passing timeout=None: the deadline test may then
    # be guarded by `end_time is not None`
    none_ends = [n for n in own_nodes(f.node) if isinstance(n, ast.Assign) and src(n.targets[0]) == "end_time" and isinstance(n.value, ast.Constant) and n.value.value is None]
    guard_ok = bool(none_ends) and all(any(p and ff.norm(e, subst=False) == "timeout is None" or (not p and ff.norm(e, subst=False) == "timeout is not None") for e, p in ff.facts_at(n)) for n in none_ends)

    def _unguard(e):
        if guard_ok and isinstance(e, ast.BoolOp) and isinstance(e.op, ast.And) and len(e.values) == 2 and ff.norm(e.values[0], subst=False) == "end_time is not None":
            return e.values[1]
        return e
    for r in none_rets:
        g = [ff.norm(_unguard(e), subst=False) for e, p in ff.facts_at(r) if p]
        if any(x in (f"len(self.log) == {svar}", f"{svar} == len(self.log)") for x in g):
            unchanged = True
        if any(x in ("time.time() > end_time", "end_time < time.time()", "time.time() >= end_time") for x in g):
            deadline = True
    chk.check(unchanged, "R5", f"{EM}:EmcyConsumer.wait | None when nothing arrived", f.loc(), "no `return None` under unchanged log size")
    chk.check(deadline, "R5", f"{EM}:EmcyConsumer.wait | None after deadline", f.loc(), "no `return None` once the deadline has passed")
    for r in entry_rets:
        v = src(r.value)
        # the entry is the last logged one
        d = ff.single_defs().get(v)
        all_defs = sorted({src(n.value) for n in own_nodes(f.node) if isinstance(n, ast.Assign) and src(n.targets[0]) == v})
        newest = (d is not None and src(d) == "self.log[-1]") or (all_defs == ["None", "self.log[-1]"] and any(p and src(e) == f"{v} is not None" or (not p and src(e) == f"{v} is None")
                                                                                                                for e, p in ff.facts_at(r)))
        chk.check(newest, "R5", f"{EM}:EmcyConsumer.wait | returns newest entry", f.loc(r),
                  f"returned value {v} is {src(d) if d is not None else all_defs}; expected self.log[-1]")
        facts = ff.facts_at(r)
        # an entry that arrived after the deadline is not handed out: the deadline test comes before the match
        late_ok = any((not p and ff.norm(_unguard(e), subst=False) in ("time.time() > end_time", "end_time < time.time()", "time.time() >= end_time"))
                      or (p and ff.norm(e, subst=False) in ("time.time() <= end_time", "end_time >= time.time()", "time.time() < end_time")) for e, p in facts)
        chk.check(late_ok, "R5", f"{EM}:EmcyConsumer.wait | no entry after the deadline", f.loc(r),
                  f"`{src(r)}` is reached without the deadline test (conditions {[(src(e), p) for e, p in facts]}): a matching entry that arrives after the time-out is returned instead of None")
        # accepted: a positive fact `emcy_code is None or emcy.code == emcy_code`
        ok = False
        badform = None
        for e, p in facts:
            if p and isinstance(e, ast.BoolOp) and isinstance(e.op, ast.Or):
                parts = {ff.norm(x, subst=False) for x in e.values}
                if parts == {"emcy_code is None", f"emcy_code == {v}.code"} or parts == {"emcy_code is None", f"{v}.code == emcy_code"}:
                    ok = True
                elif any(x in ("not emcy_code",) for x in parts):
                    badform = src(e)
            if p and isinstance(e, ast.Compare) and len(e.ops) == 1 and isinstance(e.ops[0], ast.In) and src(e.left) == "emcy_code" and isinstance(e.comparators[0], (ast.Tuple, ast.List)) \
                    and sorted(src(x) for x in e.comparators[0].elts) == sorted(["None", f"{v}.code"]):
                ok = True               # `emcy_code in (None, emcy.code)`: membership compares by identity or equality
            if not p and isinstance(e, ast.BoolOp) and isinstance(e.op, ast.And):
                parts = {ff.norm(x, subst=False) for x in e.values}
                if parts == {"emcy_code is not None", f"emcy_code != {v}.code"}:
                    ok = True
        # decided by evaluation where possible: what precedes the loop is specialised for a filter (None, 0 = error reset, two other
        # codes), then the conditions that mention the entry's code are evaluated for entries with those codes
        decided = None
        if not ok:
            from .common import conj_of_facts, partial_eval as _pe
            from ..fold import RecordVal
            head = []
            for st_ in f.node.body:
                if isinstance(st_, (ast.While, ast.For)):
                    break
                if isinstance(st_, ast.Assign) and "time.time" in src(st_.value):
                    continue
                head.append(st_)
            mine = [(e, p) for e, p in facts if f"{v}.code" in src(e)]
            # the entry is handed out at ANY of the return sites: with several of them (one for "no filter", one for "code matches")
            # the filter is the disjunction of what holds at each site (conditions on the filter and on the entry's code)
            sites = [[(e, p) for e, p in ff.facts_at(r2) if f"{v}.code" in src(e) or "emcy_code" in src(e)] for r2 in entry_rets if src(r2.value) == v]
            if len(sites) > 1 and all(sites):
                if r is not [r2 for r2 in entry_rets if src(r2.value) == v][0]:
                    continue                         # judged once, at the first site
                mine = [(ast.BoolOp(op=ast.Or(), values=[conj_of_facts(fs_) for fs_ in sites]), True)]
            if mine:
                import copy as _cp
                fn_ = ast.FunctionDef(name="_filter", args=ast.arguments(posonlyargs=[], args=[ast.arg(arg="emcy_code"), ast.arg(arg=v)], kwonlyargs=[], kw_defaults=[], defaults=[]),
                                      body=[_cp.deepcopy(x) for x in head] + [ast.Return(value=conj_of_facts(mine))], decorator_list=[])
                ast.fix_missing_locations(fn_)
                wrong = None
                for flt in (None, 0, 0x1000, 0x8130):
                    for code_ in (0, 0x1000, 0x8130, 0x2000):
                        r_ = _pe(folder, fn_, f.mod, f.cls, {"emcy_code": flt, v: RecordVal({"code": code_}, isa=("EmcyError",)), "timeout": 10})
                        if r_[0] != "return":
                            wrong = "?"
                            break
                        want_ = flt is None or code_ == flt
                        if bool(r_[1]) != want_:
                            wrong = wrong or f"waiting for {'any code' if flt is None else hex(flt)}, an entry with code {code_:#06x} is {'handed out' if r_[1] else 'passed over'}" \
                                + (" -- the legal code 0 (error reset) is treated as 'no filter'" if flt == 0 else "")
                    if wrong == "?":
                        break
                if wrong != "?":
                    decided = wrong or True
        if decided is True:
            chk.ok("R5", f"{EM}:EmcyConsumer.wait | code filter", f.loc(r), "specialised for 4 filters x 4 entry codes")
        elif decided:
            chk.bad("R5", f"{EM}:EmcyConsumer.wait | code filter", f.loc(r), decided)
        elif ok:
            chk.ok("R5", f"{EM}:EmcyConsumer.wait | code filter", f.loc(r))
        elif badform:
            chk.bad("R5", f"{EM}:EmcyConsumer.wait | code filter", f.loc(r),
                    f"filter `{badform}` treats the legal code 0 (error reset) as 'no filter'")
        else:
            chk.unk("R5", f"{EM}:EmcyConsumer.wait | code filter", f.loc(r),
                    f"filter not recognised: {[(src(e), p) for e, p in facts]}")
