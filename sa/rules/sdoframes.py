"""Shared checks for SDO emission sites (C01, C02, C12, C13): frame length, command-byte layout, n-field range,
store positions.  The step layouts are the CiA 301 tables of DESIGN section 3."""
from __future__ import annotations

import ast
from dataclasses import dataclass, field
from typing import Dict, List, Optional, Set, Tuple

from ..facts import FuncFacts
from ..fold import dotted, src
from ..frames import Frame, Store, Term, Unrecognised, const_bits, frame_at, terms_at


@dataclass
class Layout:
    name: str
    fixed: int                                   # constant bits that must be present
    optional: int = 0                            # constant bits that may be present
    toggle: bool = False                         # `self._toggle` OR-ed in
    nfield: Optional[Tuple[int, int, int]] = None    # (capacity, shift, width)
    seqno: bool = False                          # block download segment: command is the sequence number
    allowed_stores: Tuple[Tuple[int, int], ...] = ()   # byte ranges [lo, hi) that may be written besides byte 0


# client requests
CLIENT = {
    "abort": Layout("abort", 0x80, allowed_stores=((1, 4), (4, 8))),
    "upload_initiate": Layout("initiate upload", 0x40, allowed_stores=((1, 4),)),
    "upload_segment": Layout("upload segment", 0x60, toggle=True),
    "download_initiate_seg": Layout("initiate download (segmented)", 0x20, optional=0x01, allowed_stores=((1, 4), (4, 8))),
    "download_initiate_exp": Layout("initiate download (expedited)", 0x23, nfield=(4, 2, 2), allowed_stores=((1, 4), (4, 8))),
    "download_segment": Layout("download segment", 0x00, optional=0x01, toggle=True, nfield=(7, 1, 3), allowed_stores=((1, 8),)),
    "download_segment_last": Layout("download segment (closing, empty)", 0x0F, toggle=True),
    "block_upload_initiate": Layout("block upload initiate", 0xA0, optional=0x04, allowed_stores=((1, 4), (4, 5), (5, 6))),
    "block_upload_start": Layout("block upload start", 0xA3),
    "block_upload_ack": Layout("block upload acknowledge", 0xA2, allowed_stores=((1, 2), (2, 3))),
    "block_upload_end": Layout("block upload end", 0xA1),
    "block_download_initiate": Layout("block download initiate", 0xC0, optional=0x06, allowed_stores=((1, 4), (4, 8))),
    "block_download_segment": Layout("block download sub-block segment", 0x00, optional=0x80, seqno=True, allowed_stores=((1, 8),)),
    "block_download_end": Layout("block download end", 0xC1, nfield=(7, 2, 3), allowed_stores=((1, 3),)),
}
# server responses
SERVER = {
    "upload_initiate_exp": Layout("initiate upload response (expedited)", 0x43, nfield=(4, 2, 2), allowed_stores=((1, 4), (4, 8))),
    "upload_initiate_seg": Layout("initiate upload response (segmented)", 0x41, allowed_stores=((1, 4), (4, 8))),
    "upload_segment": Layout("upload segment response", 0x00, optional=0x01, toggle=True, nfield=(7, 1, 3), allowed_stores=((1, 8),)),
    "download_initiate": Layout("initiate download response", 0x60, allowed_stores=((1, 4),)),
    "download_segment": Layout("download segment response", 0x20, toggle=True),
    "abort": Layout("abort", 0x80, allowed_stores=((1, 4), (4, 8))),
}


def command_expr(fr: Frame) -> Optional[Tuple[ast.expr, ast.AST]]:
    """Expression stored in byte 0 and the statement that stores it."""
    hit = None
    for st in fr.stores:
        if st.lo == 0:
            hit = (st.fields[0], st.stmt)
    if hit is None and fr.parts and fr.origin.endswith("pack") or (hit is None and fr.origin.startswith("attr")):
        if fr.parts:
            return fr.parts[0][1], fr.create
    if hit is None and fr.origin == "concat" and fr.parts:
        return fr.parts[0][1], fr.create
    return hit


def check_layout(chk, rule: str, site: str, where: str, lay: Layout, must: Set[Term], may: Set[Term]) -> bool:
    ok = True
    cm, cy = const_bits(must), const_bits(may)
    if cm & ~lay.optional != lay.fixed & ~lay.optional or (lay.fixed & ~cm):
        chk.bad(rule, f"{site} | fixed bits", where,
                f"command byte always carries constant bits 0x{cm:02X}; the {lay.name} frame requires 0x{lay.fixed:02X}"
                + (f" (optional 0x{lay.optional:02X})" if lay.optional else ""))
        ok = False
    if cy & ~(lay.fixed | lay.optional):
        chk.bad(rule, f"{site} | foreign bits", where,
                f"command byte may carry bits 0x{cy & ~(lay.fixed | lay.optional):02X} that the {lay.name} frame does not define")
        ok = False
    non_const_must = {t for t in must if t.kind != "const"}
    non_const_may = {t for t in may if t.kind != "const"}
    want: List[str] = []
    tog = [t for t in non_const_may if t.kind == "attr" and t.text == "self._toggle"]
    if lay.toggle:
        if not [t for t in non_const_must if t.kind == "attr" and t.text == "self._toggle"]:
            chk.bad(rule, f"{site} | toggle bit", where, f"the {lay.name} frame must carry the toggle bit (self._toggle) on every path")
            ok = False
    elif tog:
        chk.bad(rule, f"{site} | toggle bit", where, f"the {lay.name} frame has no toggle bit but self._toggle is OR-ed in")
        ok = False
    nf_must = [t for t in non_const_must if t.kind == "nfield"]
    nf_may = [t for t in non_const_may if t.kind == "nfield"]
    if lay.nfield is not None:
        cap, shift, width = lay.nfield
        if len(nf_must) != 1 or len(nf_may) != 1:
            chk.bad(rule, f"{site} | unused-byte count", where, f"the {lay.name} frame needs exactly one n field ({cap} - used) << {shift}; found {[t.show() for t in nf_may]}")
            ok = False
        else:
            t = nf_must[0]
            if (t.cap, t.shift) != (cap, shift):
                chk.bad(rule, f"{site} | unused-byte count", where,
                        f"n field is {t.show()}; CiA 301: ({cap} - used bytes) << {shift}")
                ok = False
    elif nf_may:
        chk.bad(rule, f"{site} | unused-byte count", where, f"the {lay.name} frame has no n field but {[t.show() for t in nf_may]} is OR-ed in")
        ok = False
    others = [t for t in non_const_may if not (t.kind == "attr" and t.text == "self._toggle") and t.kind != "nfield"]
    if lay.seqno:
        seq = [t for t in non_const_must if t.kind == "attr" and t.text == "self._seqno"]
        if len(seq) != 1:
            chk.bad(rule, f"{site} | sequence number", where, "sub-block segment does not carry self._seqno")
            ok = False
        others = [t for t in others if not (t.kind == "attr" and t.text == "self._seqno")]
    if others:
        chk.bad(rule, f"{site} | foreign terms", where, f"terms {[t.show() for t in others]} are not part of the {lay.name} command byte")
        ok = False
    if ok:
        chk.ok(rule, f"{site} | command byte layout", where,
               f"{lay.name}: must {{{', '.join(sorted(t.show() for t in must))}}} may {{{', '.join(sorted(t.show() for t in may - must))}}}")
    return ok


def check_nfield_range(chk, rule: str, site: str, ff: FuncFacts, at: ast.AST, lay: Layout, must: Set[Term]):
    if lay.nfield is None:
        return
    cap, shift, width = lay.nfield
    for t in [x for x in must if x.kind == "nfield"]:
        operand = ast.parse(t.text, mode="eval").body
        lo, hi = ff.interval(operand, at)
        need_lo, need_hi = cap - ((1 << width) - 1), cap
        ok = lo is not None and hi is not None and lo >= need_lo and hi <= need_hi
        chk.check(ok, rule, f"{site} | n operand range", ff.func.loc(at),
                  f"`{t.text}` lies in [{lo}, {hi}] here; ({cap} - {t.text}) must fit the {width}-bit field, i.e. {t.text} in [{max(need_lo, 0)}, {need_hi}]",
                  f"{t.text} in [{lo}, {hi}]")


def check_length(chk, rule: str, site: str, where: str, fr: Frame, want: int = 8):
    chk.check(fr.length == want, rule, f"{site} | frame length", where,
              f"frame has {fr.length} bytes ({fr.origin}); CiA 301 SDO frames are {want} bytes")


def check_stores(chk, rule: str, site: str, ff: FuncFacts, fr: Frame, lay: Layout):
    """Stores stay inside the frame, inside fields the step defines, and slice stores are length-preserving."""
    for st in fr.stores:
        where = ff.func.loc(st.stmt)
        if st.lo == 0 and (st.hi == 1 or st.fmt is not None):
            if st.fmt is not None:
                # pack_into at 0: command + the fields that follow it
                if st.hi is not None and fr.length is not None and st.hi > fr.length:
                    chk.bad(rule, f"{site} | store {src(st.stmt)[:40]}", where, f"pack_into writes bytes [{st.lo}, {st.hi}) of a {fr.length}-byte frame")
                    continue
                covered = {0}
                for a, b in lay.allowed_stores:
                    covered |= set(range(a, b))
                stray = [i for i in range(0, st.hi or 0) if i not in covered]
                chk.check(not stray and st.hi is not None, rule, f"{site} | header store", where,
                          f"`{src(st.stmt)[:60]}` writes bytes [0, {st.hi}); the {lay.name} frame defines fields at {list(lay.allowed_stores)}: bytes {stray} are reserved")
            continue
        if st.lo is not None and st.hi is not None:
            inside = any(a <= st.lo and st.hi <= b for a, b in lay.allowed_stores)
            chk.check(inside and (fr.length is None or st.hi <= fr.length), rule, f"{site} | store at [{st.lo}, {st.hi})", where,
                      f"`{src(st.stmt)[:60]}` writes bytes [{st.lo}, {st.hi}); the {lay.name} frame defines fields at {list(lay.allowed_stores)} (other bytes are reserved and must stay 0)")
            continue
        # symbolic slice: request[1:x + 1] = b[0:x]  -- width preserving and bounded by the data capacity
        if st.lo is not None and st.hi_expr is not None and st.value is not None:
            ok, det = _symbolic_slice(ff, st, fr, lay)
            chk.check(ok, rule, f"{site} | data store", where, det)
            continue
        chk.unk(rule, f"{site} | store {src(st.stmt)[:40]}", where, "store position cannot be determined")


def _symbolic_slice(ff: FuncFacts, st: Store, fr: Frame, lay: Layout):
    """`buf[lo:hi] = value` keeps the frame length iff hi - lo == len(value) and hi <= len(frame)."""
    hi = st.hi_expr
    val = st.value
    # width of the target slice, as an expression text
    width_t = None
    hn = ff.norm(hi, subst=False)
    for cand in _names(hi):
        if hn in (ff.canon(f"{cand} + {st.lo}"),):
            width_t = cand
    if width_t is None:
        return False, f"upper slice bound `{src(hi)}` is not <count> + {st.lo}: the store may change the frame length"
    # len(value): value is b[0:x] / b[:x] (len = x when x <= len(b)) or a name with len(name) == x
    wv = None
    if isinstance(val, ast.Subscript) and isinstance(val.slice, ast.Slice) and (val.slice.lower is None or ff.folder.try_fold(val.slice.lower, ff.scope, None) == 0) \
            and val.slice.upper is not None and src(val.slice.upper) == width_t:
        # need x <= len(base)
        base = src(val.value)
        d = ff.single_defs().get(width_t) or ff.def_at(width_t, st.stmt)
        if d is not None and src(d) in (f"min(len({base}), 7)", f"min(7, len({base}))", f"len({base})"):
            wv = width_t
        else:
            return False, f"`{src(val)}` has {width_t} bytes only if {width_t} <= len({base}); {width_t} is defined as {src(d) if d is not None else '?'}"
    elif isinstance(val, ast.Name):
        d = ff.single_defs().get(width_t) or ff.def_at(width_t, st.stmt)
        if d is not None and src(d) == f"len({val.id})":
            wv = width_t
        elif ff.norm(hi, subst=False) == ff.canon(f"len({val.id}) + {st.lo}"):
            wv = width_t
    if wv is None and hn == ff.canon(f"len({src(val)}) + {st.lo}"):
        wv = f"len({src(val)})"
        width_t = wv
    if wv is None:
        return False, f"cannot show that `{src(val)}` has exactly {width_t} bytes (slice store would resize the frame)"
    # bound: lo + width <= frame length and inside an allowed field
    operand = ast.parse(width_t, mode="eval").body
    lo_i, hi_i = ff.interval(operand, st.stmt)
    cap = max((b for a, b in lay.allowed_stores if a <= st.lo), default=None)
    if hi_i is None or cap is None or st.lo + hi_i > cap or (fr.length is not None and st.lo + hi_i > fr.length):
        return False, f"{width_t} lies in [{lo_i}, {hi_i}]: bytes [{st.lo}, {st.lo}+{hi_i}) exceed the data field {list(lay.allowed_stores)} of the {lay.name} frame"
    return True, f"width-preserving store of {width_t} in [{lo_i}, {hi_i}] bytes at offset {st.lo}"


def _names(e):
    out = []
    for n in ast.walk(e):
        if isinstance(n, ast.Name):
            out.append(n.id)
        elif isinstance(n, ast.Call) and dotted(n.func) == "len":
            out.append(src(n))
    return out


def sinks(ff: FuncFacts, suffixes=("request_response", "send_request", "send_response")) -> List[Tuple[ast.Call, ast.AST]]:
    """Calls that hand a frame to a protocol funnel, with their statements."""
    out = []
    for n in ff.cfg.nodes:
        if n.kind not in ("stmt", "test") or n.ast is None:
            continue
        for c in [x for x in ast.walk(n.ast) if isinstance(x, ast.Call)]:
            d = src(c.func)
            if any(d.endswith("." + s) for s in suffixes) and c.args:
                out.append((c, n.ast))
    return out
