"""C19 -- CiA 402 state decoding and commanded transitions follow the drive state machine."""
from __future__ import annotations

import ast

from .. import oracles as O
from ..fold import Scope, dotted, src
from ..loader import AnalysisError
from .common import _resolve, ctx, ff_for, find_calls, must_pass, node_calls, own_nodes, path_text

P = "canopen/profiles/p402.py"

EXPLANATION = (
    "R1 the statusword decoder extracted from the source (first-match loop over SW_MASK, or a dictionary lookup on a "
    "masked word) evaluated for all 65536 words equals the CiA 402 pattern table, default 'UNKNOWN'; R2 the walk "
    "induced by TRANSITIONTABLE + NEXTSTATE2ANY (Python semantics of ('X') = str kept) from each of 8 states to each "
    "of 5 commandable targets reaches the target, repeats no state, uses the controlword of the CiA 402 command for "
    "every step and never the enable-operation pattern unless the target is OPERATION ENABLED / QUICK STOP ACTIVE; "
    "the shapes of state.setter/_next_state/_change_state/next_state_indirect the model assumes are checked; R3 the "
    "three uncommandable targets raise before any controlword store; R4 mode tables mutually consistent and equal to "
    "CiA 402, support check dominates both 0x6060 stores and its TypeError is not swallowed; R5 the controlword "
    "setter hands every assigned value to the drive (PDO store + transmit when not periodic, else SDO) on every path; R7 the pointer tables (rpdo_pointers, tpdo_pointers/tpdo_values) are filled from enabled PDO maps only -- a disabled RPDO that maps 0x6040 must not capture the controlword (the drive ignores its COB-ID and the SDO fallback is lost); the filter may sit at the registration, in the iterated comprehension, or in a generator helper; R6 structural assumptions shared by all properties: no class-level mutable object is mutated in place by instances, no method re-runs the constructor, logging statements cannot raise (typed eager formatting, divisions), no mutable default argument is kept or mutated, no new truth-value test of a None-able number, a look-up memory the pinned tree does not have is keyed by all its inputs (arithmetic keys folded over a grid of addresses) and, on the serving side, emptied somewhere."
    ' R4 decides the supported-mode test by evaluation over all modes and six masks.'
)
ASSUMPTIONS = [
    "not decided: drive timing, automatic transitions racing the library's status reads, timeouts",
    "the drive is assumed standard-conformant: after the controlword of a transition it is in that transition's target state",
]

STATES = list(O.CIA402_SW)


def run(chk):
    repo, folder = ctx(chk)
    mod = repo.mod(P, "C19")
    s402 = repo.cls(P, "State402", "C19")
    sc = Scope(mod, s402)
    sc.in_class_body = True

    def table(name, cls=s402):
        if name not in cls.consts:
            raise AnalysisError("C19", f"{cls.name}.{name} not found")
        s = Scope(mod, cls)
        s.in_class_body = True
        v = folder.try_fold(cls.consts[name], s, None)
        if not isinstance(v, dict):
            raise AnalysisError("C19", f"{cls.name}.{name} does not fold to a dict")
        chk.analysed_tables.append(f"{cls.name}.{name}")
        return v, f"{P}:{cls.consts[name].lineno}"

    # ------------------------------------------------------------------ R1 decoder
    sw, w_sw = table("SW_MASK")
    g = repo.func(P, "BaseNode402.state", "C19.R1")
    chk.saw(g)
    decoder = _extract_decoder(chk, repo, folder, g, sw, mod)
    if decoder is not None:
        mism = {}
        for word in range(0x10000):
            want = "UNKNOWN"
            for st, (m, v) in O.CIA402_SW.items():
                if word & m == v:
                    want = st
                    break
            got = decoder(word)
            if got != want:
                mism.setdefault((want, got), word)
        chk.notes.append("R1 evaluated the extracted decoder for all 65536 statuswords")
        if mism:
            for (want, got), word in sorted(mism.items())[:6]:
                chk.bad("R1", f"{P}:BaseNode402.state | decode {want!r}", g.loc(),
                        f"statusword 0x{word:04X} decodes to {got!r}; CiA 402 says {want!r}")
        else:
            chk.ok("R1", f"{P}:BaseNode402.state | all 65536 statuswords", g.loc(), "decoder equals CiA 402 table")
    for st, (m, v) in sw.items():
        if isinstance(m, int) and isinstance(v, int):
            chk.check(v & ~m == 0, "R1", f"SW_MASK[{st!r}] well-formed", w_sw, f"value 0x{v:X} has bits outside mask 0x{m:X}: never matches")
    names = list(sw)
    for i, a in enumerate(names):
        for b in names[i + 1:]:
            (m1, v1), (m2, v2) = sw[a], sw[b]
            chk.check((v1 ^ v2) & m1 & m2 != 0, "R1", f"SW_MASK {a!r} vs {b!r} exclusive", w_sw,
                      "patterns overlap: decoding depends on dictionary order")
    chk.floor("R1", len(sw), 8, "SW_MASK rows")
    # statusword source
    swp = repo.func(P, "BaseNode402.statusword", "C19.R1")
    chk.saw(swp)
    idx = {folder.try_fold(n.slice, Scope(mod), None) for n in own_nodes(swp.node) if isinstance(n, ast.Subscript)}
    chk.check(idx == {0x6041}, "R1", f"{P}:BaseNode402.statusword | object", swp.loc(), f"statusword read from objects {sorted(hex(i) for i in idx if i)}; CiA 402: 0x6041")
    bn_init = repo.func(P, "BaseNode402.__init__", "C19.R1")
    chk.saw(bn_init)
    tv = [n for n in own_nodes(bn_init.node) if isinstance(n, ast.Assign) and src(n.targets[0]) == "self.tpdo_values"]
    chk.check(len(tv) == 1 and src(tv[0].value) in ("{}", "dict()"), "R1", f"{P}:BaseNode402.__init__ | tpdo_values is a plain dict (a missing object raises KeyError)", bn_init.loc(),
              f"{[src(t) for t in tv]}: the SDO fallback of statusword/op_mode is taken on KeyError; a mapping that invents missing entries never raises it, the statusword then reads as "
              f"its default instead of being fetched by SDO")
    sw_rets = [n for n in own_nodes(swp.node) if isinstance(n, ast.Return) and n.value is not None]
    in_handler = {id(r) for h in own_nodes(swp.node) if isinstance(h, ast.ExceptHandler) and "KeyError" in src(h.type or ast.Constant(None)) for r in ast.walk(h) if isinstance(r, ast.Return)}
    pdo_r = [r for r in sw_rets if src(r.value).startswith("self.tpdo_values[") and id(r) not in in_handler]
    sdo_r = [r for r in sw_rets if src(r.value).startswith("self.sdo[") and src(r.value).endswith(".raw") and id(r) in in_handler]
    chk.check(len(pdo_r) == 1 and len(sdo_r) == 1 and len(sw_rets) == 2, "R1", f"{P}:BaseNode402.statusword | cached TPDO value, SDO read as fallback", swp.loc(),
              f"returns {[src(r.value) for r in sw_rets]}; expected tpdo_values[0x6041] and, under KeyError, sdo[0x6041].raw")

    # ------------------------------------------------------------------ R2 machine
    tt, w_tt = table("TRANSITIONTABLE")
    n2a, w_n2a = table("NEXTSTATE2ANY")
    shapes_ok = _machine_shapes(chk, repo, folder)

    def indirect(frm):
        for cond, nxt in n2a.items():
            if frm in cond:          # Python semantics: substring test when cond is a str
                return nxt
        return None

    strkeys = [c for c in n2a if isinstance(c, str)]
    if strkeys:
        chk.notes.append(f"NEXTSTATE2ANY keys {strkeys} are plain strings: `in` is a substring test; the walks below use that semantics")
    if shapes_ok:
        for frm in STATES:
            for tgt in O.CIA402_COMMANDABLE:
                cur, seen, steps, why = frm, [frm], [], None
                while cur != tgt:
                    nxt = tgt if (cur, tgt) in tt else indirect(cur)
                    if nxt is None:
                        why = f"no next state from {cur!r}"
                        break
                    if (cur, nxt) not in tt:
                        why = f"({cur!r}, {nxt!r}) is not in TRANSITIONTABLE: _change_state raises ValueError"
                        break
                    cw = tt[(cur, nxt)]
                    cmd = O.CIA402_TRANSITIONS.get((cur, nxt), "missing")
                    if cmd == "missing":
                        why = f"{cur!r} -> {nxt!r} is not a CiA 402 transition"
                        break
                    if cmd is None:
                        if cw != 0:
                            why = f"automatic transition {cur!r} -> {nxt!r} carries controlword 0x{cw:X}"
                            break
                    else:
                        m, v = O.CIA402_CMD[cmd]
                        if not isinstance(cw, int) or cw & m != v:
                            why = f"{cur!r} -> {nxt!r} needs command {cmd} (cw & 0x{m:X} == 0x{v:X}) but the table sends 0x{cw:X}"
                            break
                    em, evv = O.CIA402_CMD["enable_operation"]
                    if isinstance(cw, int) and cw & em == evv and tgt not in ("OPERATION ENABLED", "QUICK STOP ACTIVE"):
                        why = f"step {cur!r} -> {nxt!r} enables operation although the target is {tgt!r}"
                        break
                    steps.append((cur, nxt, cw))
                    cur = nxt
                    if cur in seen:
                        why = f"walk revisits {cur!r}: {seen}"
                        break
                    seen.append(cur)
                    if len(seen) > 12:
                        why = "walk does not terminate"
                        break
                chk.check(why is None, "R2", f"walk {frm!r} -> {tgt!r}", w_tt, why or "", f"{len(steps)} steps")
    for (a, b), cw in tt.items():
        chk.check(a in STATES + ["START"] and b in STATES, "R2", f"TRANSITIONTABLE[({a!r}, {b!r})] states", w_tt, "unknown state name")
    chk.floor("R2", len(tt), 16, "TRANSITIONTABLE rows")

    # ------------------------------------------------------------------ R3 uncommandable targets
    ns = repo.func(P, "BaseNode402._next_state", "C19.R3")
    ff = ff_for(chk, ns, "C19.R3")
    raises = [n for n in own_nodes(ns.node) if isinstance(n, ast.Raise)]
    refused = set()
    for r in raises:
        for e, p in ff.facts_at(r):
            if p and isinstance(e, ast.Compare) and isinstance(e.ops[0], ast.In) and src(e.left) == "target_state":
                v = folder.try_fold(e.comparators[0], Scope(mod), None)
                if v is not None:
                    refused |= set(v)
    chk.check(refused == set(O.CIA402_UNCOMMANDABLE), "R3", f"{P}:BaseNode402._next_state | refused targets", ns.loc(),
              f"targets refused: {sorted(refused)}; CiA 402 states that cannot be commanded: {sorted(O.CIA402_UNCOMMANDABLE)}")
    rets = [n for n in own_nodes(ns.node) if isinstance(n, ast.Return)]
    for r in rets:
        ok = any(p and isinstance(e, ast.Compare) and isinstance(e.ops[0], ast.NotIn) and src(e.left) == "target_state" for e, p in ff.facts_at(r))
        chk.check(ok, "R3", f"{P}:BaseNode402._next_state | refusal dominates", ns.loc(r), "a next state is returned without passing the refusal test")
    st = repo.func(P, "BaseNode402.state.setter", "C19.R3")
    fs = ff_for(chk, st, "C19.R3")
    nexts = find_calls(st.node, "._next_state")
    changes = find_calls(st.node, "._change_state")
    chk.floor("R3", len(nexts) + len(changes), 2, "_next_state/_change_state calls in state setter")
    for c in changes:
        ok = any(fs.cfg.dominates(fs.cfg.node_of(fs.stmt_of(n)), fs.cfg.node_of(fs.stmt_of(c))) for n in nexts)
        chk.check(ok, "R3", f"{P}:BaseNode402.state.setter | _next_state before _change_state", st.loc(c),
                  "a controlword can be written before the target was validated")
    direct = [n for n in own_nodes(st.node) if isinstance(n, (ast.Assign, ast.AugAssign)) and "controlword" in src(n).split("=")[0]]
    chk.check(not direct, "R3", f"{P}:BaseNode402.state.setter | no direct controlword", st.loc(), "state setter writes the controlword itself")

    # ------------------------------------------------------------------ R4 modes
    om = repo.cls(P, "OperationMode", "C19.R4")
    c2n, w_c = table("CODE2NAME", om)
    n2c, w_n = table("NAME2CODE", om)
    sup, w_s = table("SUPPORTED", om)
    for name, code in O.CIA402_MODES.items():
        chk.check(n2c.get(name) == code, "R4", f"NAME2CODE[{name!r}]", w_n, f"mode code {n2c.get(name)!r}; CiA 402: {code}")
        chk.check(c2n.get(code) == name, "R4", f"CODE2NAME[{code}]", w_c, f"code {code} is named {c2n.get(code)!r}; expected {name!r}")
        want = 0 if code == 0 else 1 << (code - 1)
        chk.check(sup.get(name) == want and type(sup.get(name)) is int, "R4", f"SUPPORTED[{name!r}]", w_s,
                  f"support bit {sup.get(name)!r}; object 0x6502 uses bit {code - 1} (0x{want:X}) for mode {code}" + (" -- a float here makes the support test raise TypeError, "
                  "which the setter reports as 'mode not supported'" if isinstance(sup.get(name), float) else ""))
    for name, code in n2c.items():
        chk.check(c2n.get(code) == name, "R4", f"NAME2CODE/CODE2NAME inverse {name!r}", w_n, f"CODE2NAME[{code}] = {c2n.get(code)!r}")
    sp = repo.func(P, "BaseNode402.is_op_mode_supported", "C19.R4")
    fsp = ff_for(chk, sp, "C19.R4")
    rets = [n for n in own_nodes(sp.node) if isinstance(n, ast.Return) and n.value is not None]
    okr = [r for r in rets if fsp.norm(r.value) in ("self._op_mode_support & OperationMode.SUPPORTED[mode] == OperationMode.SUPPORTED[mode]",
                                                    "OperationMode.SUPPORTED[mode] == self._op_mode_support & OperationMode.SUPPORTED[mode]","OperationMode.SUPPORTED[mode] & self._op_mode_support == OperationMode.SUPPORTED[mode]",
                                                    "OperationMode.SUPPORTED[mode] == OperationMode.SUPPORTED[mode] & self._op_mode_support")]
    # decided by evaluation where possible: the returned expression with the drive's mask and the mode's bits bound, for every mode of
    # the table (NO MODE has bits 0: always supported) against masks with that bit set / cleared / all / none
    from .common import substitute_src as _subst
    decided = None
    if len(rets) == 1 and sup:
        wrong = None
        for name_, bits_ in sorted(sup.items(), key=lambda kv: str(kv[0])):
            if type(bits_) is not int:
                continue
            for mask_ in (0, bits_, 0xFFFFFFFF, 0xFFFFFFFF & ~bits_, bits_ | 0x5, 0x3FF):
                e_ = _subst(fsp.norm_ast(rets[0].value), {"self._op_mode_support": mask_, "OperationMode.SUPPORTED[mode]": bits_})
                v_ = folder.try_fold(e_, Scope(mod), "?")
                if v_ == "?":
                    wrong = "?"
                    break
                if bool(v_) != (mask_ & bits_ == bits_):
                    wrong = wrong or f"mode {name_!r} (bits {bits_:#x}) with the drive advertising {mask_:#x}: the test gives {bool(v_)}, object 0x6502 says {mask_ & bits_ == bits_}"
            if wrong == "?":
                break
        if wrong != "?":
            decided = wrong or True
    if decided is True:
        chk.ok("R4", f"{P}:BaseNode402.is_op_mode_supported | test", sp.loc(), f"evaluated for {len(sup)} modes x 6 masks")
    elif decided:
        chk.bad("R4", f"{P}:BaseNode402.is_op_mode_supported | test", sp.loc(), decided)
    else:
        chk.check(len(rets) == 1 and len(okr) == 1, "R4", f"{P}:BaseNode402.is_op_mode_supported | test", sp.loc(),
                  f"support test is {[fsp.norm(r.value) for r in rets]}; expected `support & bits == bits`")
    src_idx = {folder.try_fold(n.slice, Scope(mod), None) for n in own_nodes(sp.node) if isinstance(n, ast.Subscript)} - {None}
    chk.check(0x6502 in src_idx, "R4", f"{P}:BaseNode402.is_op_mode_supported | object 0x6502", sp.loc(), f"supported modes read from {sorted(src_idx)}")

    oms = repo.func(P, "BaseNode402.op_mode.setter", "C19.R4")
    fo = ff_for(chk, oms, "C19.R4")
    stores = [n for n in own_nodes(oms.node) if isinstance(n, ast.Assign) and src(n.targets[0]).endswith(".raw")]
    chk.floor("R4", len(stores), 2, "mode stores in op_mode setter")
    for s in stores:
        tgt_idx = {folder.try_fold(x.slice, Scope(mod), None) for x in ast.walk(s.targets[0]) if isinstance(x, ast.Subscript)}
        chk.check(tgt_idx == {0x6060}, "R4", f"{P}:BaseNode402.op_mode.setter | object of {src(s.targets[0])}", oms.loc(s), f"mode written to {tgt_idx}")
        chk.check(src(s.value) == "OperationMode.NAME2CODE[mode]", "R4", f"{P}:BaseNode402.op_mode.setter | value of {src(s.targets[0])}", oms.loc(s),
                  f"writes {src(s.value)}; expected the CiA 402 code OperationMode.NAME2CODE[mode]")
        guard = [src(e) for e, p in fo.facts_at(s) if p]
        chk.check("self.is_op_mode_supported(mode)" in guard, "R4", f"{P}:BaseNode402.op_mode.setter | support check before {src(s.targets[0])}",
                  oms.loc(s), f"mode is written without the support check (facts: {guard})")
    # TypeError not caught by own handlers
    for h in [n for n in own_nodes(oms.node) if isinstance(n, ast.ExceptHandler)]:
        names = {dotted(e) for e in (h.type.elts if isinstance(h.type, ast.Tuple) else [h.type])} if h.type is not None else {"<bare>"}
        chk.check(not names & {"TypeError", "Exception", "BaseException", "<bare>"}, "R4", f"{P}:BaseNode402.op_mode.setter | handler {sorted(names)}",
                  oms.loc(h), "the refusal (TypeError) is swallowed by the setter's own handler")
    tr = [n for n in own_nodes(oms.node) if isinstance(n, ast.Raise) and "TypeError" in src(n)]
    chk.check(bool(tr), "R4", f"{P}:BaseNode402.op_mode.setter | refusal raises", oms.loc(), "no TypeError for unsupported modes")

    for s in stores:
        g = [(fo.norm(e, subst=False), p) for e, p in fo.facts_at(s) if "rpdo_pointers" in src(e)]
        via_pdo = "rpdo_pointers" in src(s.targets[0])
        chk.check(g in ([("24672 in self.rpdo_pointers", via_pdo)], [("24672 not in self.rpdo_pointers", not via_pdo)]), "R4", f"{P}:BaseNode402.op_mode.setter | {'PDO' if via_pdo else 'SDO'} path chosen by the RPDO mapping of 0x6060",
                  oms.loc(s), f"`{src(s)[:50]}` under {g}")
    for c in find_calls(oms.node, ".transmit"):
        stc = fo.stmt_of(c)
        g = [(fo.norm(e, subst=False), p) for e, p in fo.facts_at(stc)]
        pd = fo.raw_def_at("pdo", stc)
        chk.check((("pdo.is_periodic", False) in g or ("not pdo.is_periodic", True) in g) and pd is not None and fo.norm(pd, subst=False) == "self.rpdo_pointers[24672].pdo_parent" and src(c.func) == "pdo.transmit",
                  "R4", f"{P}:BaseNode402.op_mode.setter | event-driven RPDO with the mode is transmitted", oms.loc(c), f"{src(c)} under {g}; pdo = {src(pd) if pd is not None else '?'}")
    cache = [n for n in own_nodes(sp.node) if isinstance(n, ast.Assign) and src(n.targets[0]) == "self._op_mode_support"]
    chk.check(len(cache) == 1 and fsp.norm(cache[0].value, subst=False) == "self.sdo[25858].raw", "R4", f"{P}:BaseNode402.is_op_mode_supported | supported modes read from 0x6502", sp.loc(), f"{[src(c) for c in cache]}")
    for c in cache:
        g = [(fsp.norm(e, subst=False), p) for e, p in fsp.facts_at(c)]
        chk.check(g in ([("hasattr(self, '_op_mode_support')", False)], []), "R4", f"{P}:BaseNode402.is_op_mode_supported | read when not cached yet", sp.loc(c), f"cache filled under {g}")
        for r in rets:
            wit = must_pass(fsp.cfg, lambda n: n.ast is c, to_nodes=[fsp.cfg.node_of(r)],
                            skip_edge=lambda n, lab: n.kind == "test" and ((src(n.ast) == "not hasattr(self, '_op_mode_support')" and lab == "F") or (src(n.ast) == "hasattr(self, '_op_mode_support')" and lab == "T")))
            chk.check(wit is None, "R4", f"{P}:BaseNode402.is_op_mode_supported | answer uses the drive's mask", sp.loc(r), f"{path_text(wit) if wit else ''}")

    # ------------------------------------------------------------------ R5 controlword delivery
    cw = repo.func(P, "BaseNode402.controlword.setter", "C19.R5")
    fc = ff_for(chk, cw, "C19.R5")

    def is_store(n):
        a = n.ast
        return n.kind == "stmt" and isinstance(a, ast.Assign) and src(a.targets[0]).endswith(".raw") and src(a.value) == "value"
    wit = must_pass(fc.cfg, is_store)
    chk.check(wit is None, "R5", f"{P}:BaseNode402.controlword.setter | every value reaches the drive", cw.loc(),
              f"a path returns without writing the controlword: {path_text(wit) if wit else ''}")
    stores = [n.ast for n in fc.cfg.nodes if is_store(n)]
    chk.floor("R5", len(stores), 2, "controlword stores (PDO and SDO)")
    for s in stores:
        idx = {folder.try_fold(x.slice, Scope(mod), None) for x in ast.walk(_resolve(fc, s.targets[0])) if isinstance(x, ast.Subscript)}
        chk.check(idx == {0x6040}, "R5", f"{P}:BaseNode402.controlword.setter | object of {src(s.targets[0])}", cw.loc(s), f"controlword written to {idx}")
        via_pdo = "rpdo_pointers" in src(_resolve(fc, s.targets[0]))
        g = [(fc.norm(e, subst=False), p) for e, p in fc.facts_at(s) if "rpdo_pointers" in src(e)]
        chk.check(g in ([("24640 in self.rpdo_pointers", via_pdo)], [("24640 not in self.rpdo_pointers", not via_pdo)]), "R5", f"{P}:BaseNode402.controlword.setter | {'PDO' if via_pdo else 'SDO'} path chosen by the RPDO mapping of 0x6040", cw.loc(s),
                  f"`{src(s)[:50]}` under {g}")
        if "rpdo_pointers" in src(_resolve(fc, s.targets[0])):
            # after the PDO store: transmit unless periodic, on every path
            node = fc.cfg.node_of(s)

            def sends(n):
                return node_calls(n, ".transmit")
            def periodic_side(n, lab):
                if n.kind != "test":
                    return False
                t = src(n.ast)
                return (t in ("not pdo.is_periodic",) and lab == "F") or (t in ("pdo.is_periodic",) and lab == "T")
            w2 = must_pass(fc.cfg, sends, from_node=node, skip_edge=periodic_side)
            chk.check(w2 is None, "R5", f"{P}:BaseNode402.controlword.setter | event-driven PDO is transmitted for every assignment", cw.loc(s),
                      f"after the PDO store a path of a non-periodic map returns without transmit() (e.g. when the value equals the cached one): the drive never receives "
                      f"the command: {path_text(w2) if w2 else ''}")
            for t in [n for n in fc.cfg.nodes if sends(n)]:
                pd = fc.raw_def_at("pdo", t.ast)
                chk.check(pd is not None and fc.norm(pd, subst=False) == "self.rpdo_pointers[24640].pdo_parent", "R5", f"{P}:BaseNode402.controlword.setter | the transmitted map is the controlword's",
                          cw.loc(t.ast), f"pdo = {src(pd) if pd is not None else '?'}")
                g = [(src(e), p) for e, p in fc.facts_at(t.ast)]
                chk.check(("pdo.is_periodic", False) in g or ("not pdo.is_periodic", True) in g, "R5",
                          f"{P}:BaseNode402.controlword.setter | transmit when not periodic", cw.loc(t.ast), f"transmit under {g}")

    # ------------------------------------------------------------------ R7 only enabled PDO maps carry the controlword / statusword
    _enabled_maps_only(chk, repo)
    # ------------------------------------------------------------------ R6 instances are independent (shared clause)
    from . import shared as _shared
    _shared.isolation(chk, "R6", rels=['canopen/profiles/p402.py', 'canopen/pdo/base.py'])


def _extract_decoder(chk, repo, folder, g, sw, mod):
    """Return a python function word -> state name modelling the `state` getter, or None (reported)."""
    fn = g.node
    loops = [n for n in own_nodes(fn) if isinstance(n, ast.For)]
    rets = [n for n in own_nodes(fn) if isinstance(n, ast.Return) and n.value is not None]
    sc = Scope(mod, g.cls)
    # shape 1: first-match loop over State402.SW_MASK.items()
    if len(loops) == 1 and src(loops[0].iter) in ("State402.SW_MASK.items()",) and isinstance(loops[0].target, ast.Tuple):
        lp = loops[0]
        kname, vname = [src(e) for e in lp.target.elts]
        body = lp.body
        mask_n = bits_n = None
        iff = None
        for st in body:
            if isinstance(st, ast.Assign) and isinstance(st.targets[0], ast.Tuple) and src(st.value) == vname:
                mask_n, bits_n = [src(e) for e in st.targets[0].elts]
            elif isinstance(st, ast.If):
                iff = st
        if isinstance(lp.target.elts[1], ast.Tuple):
            mask_n, bits_n = [src(e) for e in lp.target.elts[1].elts]
        if iff is not None and mask_n and src(iff.test) in (f"self.statusword & {mask_n} == {bits_n}", f"{bits_n} == self.statusword & {mask_n}",
                                                            f"{mask_n} & self.statusword == {bits_n}") \
                and len(iff.body) == 1 and isinstance(iff.body[0], ast.Return) and src(iff.body[0].value) == kname and not iff.orelse:
            tail = [r for r in rets if r is not iff.body[0]]
            default = folder.try_fold(tail[0].value, sc, None) if len(tail) == 1 else None
            if default is None:
                chk.unk("R1", f"{P}:BaseNode402.state | default", g.loc(), "no constant default after the loop")
                return None
            chk.ok("R1", f"{P}:BaseNode402.state | first-match loop over SW_MASK", g.loc())
            rows = list(sw.items())

            def dec(word):
                for name, (m, v) in rows:
                    if word & m == v:
                        return name
                return default
            return dec
    # shape 2: return TABLE.get(self.statusword & MASK, DEFAULT)
    if len(rets) == 1 and isinstance(rets[0].value, ast.Call) and isinstance(rets[0].value.func, ast.Attribute) \
            and rets[0].value.func.attr == "get" and len(rets[0].value.args) == 2 and not loops:
        call = rets[0].value
        tab = folder.try_fold(call.func.value, sc, None)
        default = folder.try_fold(call.args[1], sc, None)
        key = call.args[0]
        mask = None
        if isinstance(key, ast.BinOp) and isinstance(key.op, ast.BitAnd):
            for a, b in ((key.left, key.right), (key.right, key.left)):
                if src(a) == "self.statusword":
                    mask = folder.try_fold(b, sc, None)
        if isinstance(tab, dict) and isinstance(mask, int) and default is not None:
            chk.ok("R1", f"{P}:BaseNode402.state | dictionary lookup on masked word", g.loc())
            return lambda word: tab.get(word & mask, default)
    chk.unk("R1", f"{P}:BaseNode402.state | decoder shape", g.loc(),
            "the state getter is neither the first-match loop over SW_MASK nor a dictionary lookup on a masked statusword")
    return None


def _machine_shapes(chk, repo, folder) -> bool:
    ok = True
    f = repo.func(P, "State402.next_state_indirect", "C19.R2")
    chk.saw(f)
    loops = [n for n in own_nodes(f.node) if isinstance(n, ast.For)]
    good = (len(loops) == 1 and src(loops[0].iter) == "State402.NEXTSTATE2ANY.items()" and len(loops[0].body) == 1
            and isinstance(loops[0].body[0], ast.If) and src(loops[0].body[0].test) == f"_from in {src(loops[0].target.elts[0])}"
            and isinstance(loops[0].body[0].body[0], ast.Return) and src(loops[0].body[0].body[0].value) == src(loops[0].target.elts[1]))
    if not good:
        chk.unk("R2", f"{P}:State402.next_state_indirect | shape", f.loc(), "not the first-match loop over NEXTSTATE2ANY the model assumes")
        ok = False
    else:
        chk.ok("R2", f"{P}:State402.next_state_indirect | shape", f.loc())
    ns = repo.func(P, "BaseNode402._next_state", "C19.R2")
    ff = ff_for(chk, ns, "C19.R2")
    rets = [n for n in own_nodes(ns.node) if isinstance(n, ast.Return) and n.value is not None]
    direct = [r for r in rets if src(r.value) == "target_state"]
    indir = [r for r in rets if ff.norm(r.value) == "State402.next_state_indirect(self.state)" or src(r.value) == "State402.next_state_indirect(from_state)"]
    good = len(rets) == 2 and len(direct) == 1 and len(indir) == 1
    if good:
        g = [ff.norm(e) for e, p in ff.facts_at(direct[0]) if p]
        good = "(self.state, target_state) in State402.TRANSITIONTABLE" in g or "(from_state, target_state) in State402.TRANSITIONTABLE" in g
        g2 = [ff.norm(e) for e, p in ff.facts_at(indir[0]) if p]
        good = good and any(x.endswith("not in State402.TRANSITIONTABLE") for x in g2)
    if not good:
        chk.unk("R2", f"{P}:BaseNode402._next_state | shape", ns.loc(), "not `target if (state, target) in TRANSITIONTABLE else next_state_indirect(state)`")
        ok = False
    else:
        chk.ok("R2", f"{P}:BaseNode402._next_state | shape", ns.loc())
    cs = repo.func(P, "BaseNode402._change_state", "C19.R2")
    chk.saw(cs)
    st = [n for n in own_nodes(cs.node) if isinstance(n, ast.Assign) and src(n.targets[0]) == "self.controlword"]
    good = len(st) == 1 and src(st[0].value) in ("State402.TRANSITIONTABLE[self.state, target_state]", "State402.TRANSITIONTABLE[(self.state, target_state)]")
    if not good:
        if st:
            chk.bad("R2", f"{P}:BaseNode402._change_state | controlword", cs.loc(st[0]),
                    f"controlword is {src(st[0].value)}; expected TRANSITIONTABLE[(self.state, target_state)]")
        else:
            chk.unk("R2", f"{P}:BaseNode402._change_state | controlword", cs.loc(), "no controlword store")
        ok = False
    else:
        chk.ok("R2", f"{P}:BaseNode402._change_state | controlword", cs.loc(st[0]))
    # a commanded transition is confirmed (or times out) before _change_state reports on it
    fcs = ff_for(chk, cs, "C19.R2")
    wl = [n for n in cs.node.body if isinstance(n, ast.While) and src(n.test) in ("self.state != target_state", "target_state != self.state")]
    rt_true = [n for n in own_nodes(cs.node) if isinstance(n, ast.Return) and folder.try_fold(n.value, Scope(cs.mod), None) is True]
    rt_false = [n for n in own_nodes(cs.node) if isinstance(n, ast.Return) and folder.try_fold(n.value, Scope(cs.mod), None) is False]
    good = len(wl) == 1 and len(rt_true) == 1 and rt_true[0] in cs.node.body and cs.node.body.index(rt_true[0]) > cs.node.body.index(wl[0]) and not wl[0].orelse \
        and not any(isinstance(x, ast.Break) for x in ast.walk(wl[0])) and bool(st) and st[0].lineno < wl[0].lineno
    if good:
        chk.ok("R2", f"{P}:BaseNode402._change_state | success reported only once the state is reached", cs.loc(wl[0]))
        for r in rt_false:
            g = [(fcs.norm(e, subst=False), p) for e, p in fcs.facts_at(r)]
            chk.check(any(r is x for x in ast.walk(wl[0])) and any(p and "timeout" in t and "time.monotonic()" in t for t, p in g), "R2", f"{P}:BaseNode402._change_state | failure only on time-out", cs.loc(r), f"return False under {g}")
        polls = [c for c in find_calls(wl[0], "self.check_statusword")]
        chk.check(bool(polls), "R2", f"{P}:BaseNode402._change_state | statusword refreshed while waiting", cs.loc(wl[0]), "the loop never refreshes the statusword of a periodic TPDO")
    else:
        chk.bad("R2", f"{P}:BaseNode402._change_state | success reported only once the state is reached", cs.loc(),
                "`return True` is not preceded by `while self.state != target_state` (without break): the next transition is computed from a state the drive has not reached yet")
        ok = False
    se = repo.func(P, "BaseNode402.state.setter", "C19.R2")
    fs = ff_for(chk, se, "C19.R2")
    whiles = [n for n in own_nodes(se.node) if isinstance(n, ast.While)]
    good = len(whiles) == 1 and src(whiles[0].test) in ("self.state != target_state", "target_state != self.state")
    nexts = find_calls(se.node, "._next_state")
    changes = find_calls(se.node, "._change_state")
    good = good and len(nexts) == 1 and [src(a) for a in nexts[0].args] == ["target_state"] and len(changes) == 1
    if good:
        arg = changes[0].args[0]
        d = fs.one_def(arg.id) if isinstance(arg, ast.Name) else None
        good = d is not None and d is nexts[0]
    if not good:
        chk.unk("R2", f"{P}:BaseNode402.state.setter | shape", se.loc(), "not `while state != target: _change_state(_next_state(target))`")
        ok = False
    else:
        chk.ok("R2", f"{P}:BaseNode402.state.setter | shape", se.loc())
    return ok


def _enabled_maps_only(chk, repo):
    """R7: every registration in rpdo_pointers / tpdo_pointers / tpdo_values happens for objects of an enabled map."""
    from .common import ff_for as _ff
    cls = repo.cls(P, "BaseNode402", "C19.R7")
    n_sites = 0

    def filtered_iter(ff, e, depth=0) -> bool:
        """Does the iterable expression only produce (objects of) enabled maps?"""
        if depth > 3 or e is None:
            return False
        if isinstance(e, ast.Name):
            d = ff.one_def(e.id)
            return d is not None and filtered_iter(ff, d, depth + 1)
        if isinstance(e, (ast.ListComp, ast.GeneratorExp, ast.SetComp)):
            if any(src(c).endswith(".enabled") for g in e.generators for c in g.ifs):
                return True
            return any(filtered_iter(ff, g.iter, depth + 1) for g in e.generators)
        if isinstance(e, ast.Call) and dotted(e.func) in ("list", "tuple", "iter", "sorted") and e.args:
            return filtered_iter(ff, e.args[0], depth + 1)
        if isinstance(e, ast.Call) and (dotted(e.func) or "").split(".")[0] in ("self", "BaseNode402") and (dotted(e.func) or "").count(".") == 1:
            hname = dotted(e.func).split(".")[1]
            h = cls.methods.get(hname)
            if h is None:
                return False
            hf = _ff(chk, h, "C19.R7")
            ys = [n for n in own_nodes(h.node) if isinstance(n, (ast.Yield, ast.Return)) and getattr(n, "value", None) is not None]
            guarded = bool(ys) and all(any(p and src(t).endswith(".enabled") for t, p in hf.facts_at(hf.stmt_of(y))) for y in ys)
            if guarded:
                return True
            return any(filtered_iter(ff, a, depth + 1) for a in e.args)
        return False
    for mname in ("_init_rpdo_pointers", "_init_tpdo_values"):
        m = cls.methods.get(mname)
        if m is None:
            chk.unk("R7", f"{P}:BaseNode402.{mname}", f"{P}:{cls.node.lineno}", "method not found")
            continue
        ff = _ff(chk, m, "C19.R7")
        sites = []
        for n in own_nodes(m.node):
            if isinstance(n, ast.Assign) and isinstance(n.targets[0], ast.Subscript) and dotted(n.targets[0].value) in ("self.rpdo_pointers", "self.tpdo_pointers", "self.tpdo_values"):
                sites.append(n)
            elif isinstance(n, ast.Call) and dotted(n.func) in ("self.rpdo_pointers.setdefault", "self.tpdo_pointers.setdefault", "self.tpdo_values.setdefault",
                                                                   "self.rpdo_pointers.update", "self.tpdo_pointers.update", "self.tpdo_values.update"):
                sites.append(ff.stmt_of(n))
        for st in sites:
            n_sites += 1
            by_fact = any(p and src(t).endswith(".enabled") for t, p in ff.facts_at(st))
            loops = [lp for lp in own_nodes(m.node) if isinstance(lp, ast.For) and any(x is st for x in ast.walk(lp))]
            by_iter = any(filtered_iter(ff, lp.iter) for lp in loops)
            chk.check(by_fact or by_iter, "R7", f"{P}:BaseNode402.{mname} | `{src(st)[:50]}` only for enabled maps", m.loc(st),
                      "objects of disabled PDO maps are registered as well: a disabled RPDO mapping 0x6040 captures the controlword (sent on a COB-ID the drive ignores)")
    chk.floor("R7", n_sites, 2, "registrations in rpdo_pointers / tpdo_pointers / tpdo_values")
