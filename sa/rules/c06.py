"""C06 -- refused SDO accesses report the standard abort code and change nothing."""
from __future__ import annotations

import ast

from .. import oracles as O
from ..fold import Scope, Unfoldable, dotted, src
from .common import (conj_of_facts, ctx, ff_for, find_calls, inline_property, must_pass, node_calls, own_nodes,
                     path_text, reject_probes, substitute_src)

LN = "canopen/node/local.py"
SV = "canopen/sdo/server.py"
CL = "canopen/sdo/client.py"
EX = "canopen/sdo/exceptions.py"
OD = "canopen/objectdictionary/__init__.py"

ACCESS = ["rw", "ro", "wo", "const", "rwr", "rww"]          # CiA 306 access types
WRITABLE = {"rw", "wo", "rwr", "rww"}
READABLE = {"rw", "ro", "const", "rwr", "rww"}

EXPLANATION = (
    "R1 refusal table: every raise/abort site is classified by its guard and its folded code compared with the CiA 301 "
    "code of that condition (11 roles, each required); the access guards are evaluated over all six CiA 306 access "
    "types (ODVariable.readable/writable inlined) and the length guard over all data types x payload lengths 0..9; R2 in "
    "set_data no refusal is reachable after a write callback or the data_store store, in get_data the access refusal "
    "precedes the read callbacks; R3 the abort frame is '<BHBL' (0x80, index, subindex, code) and every handler of a "
    "request that carries a multiplexer stores it from that request before anything that can abort; R4 exception to "
    "abort translation in on_request (specific before general, code passed unchanged, KeyError -> 0x06020000, default "
    "0x08000000); R5 the client decodes an abort as '<L' at offset 4 and raises SdoAbortedError(code) before returning; "
    "R6 data_store has a single writer. R9 implicit array members inherit the access type of sub-index 1 (shared with C08.R11); R10 every set_data call in a handler reachable from on_request passes check_writable=True and no handler goes through the unchecked local download()/upload() helpers; R9 implicit array members inherit the access type of sub-index 1 and membership agrees with __getitem__ (shared with C08.R11); R10 every set_data call in a handler reachable from on_request passes check_writable=True and no handler goes through the unchecked local download()/upload() helpers; R11 ODVariable.__len__ per data type (the download length check uses it; shared with C04.R5); R8 structural assumptions shared by all properties: no class-level mutable object is mutated in place by instances, no method re-runs the constructor, logging statements cannot raise (typed eager formatting, divisions), no mutable default argument is kept or mutated, no new truth-value test of a None-able number, a look-up memory the pinned tree does not have is keyed by all its inputs (arithmetic keys folded over a grid of addresses) and, on the serving side, emptied somewhere."
    ' R5 also: SdoAbortedError accepts every 32-bit code (constructor specialised for boundary codes).'
    ' R2 also: every segmented transfer starts from a fresh buffer and toggle (shared server clause).'
    " R2 also: nothing that can refuse the write runs after the store; R10 also: positional arguments of set_data are bound by LocalNode.set_data's own parameter list."
    " R5 also: the client marks a download stream done before the segment flagged last is exchanged, so the server's abort code of a refused last segment reaches the caller (clause of C01.R6)."
)
ASSUMPTIONS = [
    "not decided: random object dictionaries and request histories; write callbacks are opaque",
    "ODVariable.__len__ is the codec width (decided by C04.R5)",
]


def run(chk):
    repo, folder = ctx(chk)
    lmod = repo.mod(LN, "C06")
    roles = {}

    def record(role, code, f, node, extra_ok=True, detail=""):
        want = O.ABORT.get({"unknown_command": "command"}.get(role, role))
        ok = (code in O.ABORT_NO_VALUE) if role == "no_value" else (code == want)
        roles.setdefault(role, []).append(ok)
        wtxt = "0x060A0023 or 0x08000024" if role == "no_value" else f"0x{want:08X}"
        chk.check(ok and extra_ok, "R1", f"{f.key} | refusal {role}", f.loc(node),
                  (f"abort code 0x{code:08X}; CiA 301 code for this condition is {wtxt}. " if not ok else "") + detail)

    # ------------------------------------------------------------------ LocalNode raises
    writable_body = inline_property(repo, OD, "ODVariable", "writable", "obj")
    readable_body = inline_property(repo, OD, "ODVariable", "readable", "obj")
    for fname in ("get_data", "set_data", "_find_object"):
        f = repo.func(LN, f"LocalNode.{fname}", "C06.R1")
        ff = ff_for(chk, f, "C06.R1")
        for r in [n for n in own_nodes(f.node) if isinstance(n, ast.Raise)]:
            code = _abort_code(folder, f, r)
            if code is None:
                continue
            allfacts = [(src(e), p) for e, p in ff.facts_at(r)]
            ig = _immediate_guard(f.node, r)
            facts = [ig] if ig is not None else []
            ftxt = [src(e) for e, p in facts]
            if any("readable" in t or ("access_type" in t and fname == "get_data") for t in ftxt):
                ok, det = _eval_access(folder, f, facts, "check_readable", readable_body, writable_body, lambda at: at not in READABLE)
                if ok is None:
                    chk.unk("R1", f"{f.key} | refusal read_wo", f.loc(r), det)
                else:
                    record("read_wo", code, f, r, ok, det)
            elif any("writable" in t or ("access_type" in t and fname == "set_data") for t in ftxt):
                ok, det = _eval_access(folder, f, facts, "check_writable", readable_body, writable_body, lambda at: at not in WRITABLE)
                if ok is None:
                    chk.unk("R1", f"{f.key} | refusal write_ro", f.loc(r), det)
                else:
                    record("write_ro", code, f, r, ok, det)
            elif any("len(data)" in t for t in ftxt):
                ok, det = _eval_length(folder, f, facts)
                if ok is None:
                    chk.unk("R1", f"{f.key} | refusal length", f.loc(r), det)
                else:
                    record("length", code, f, r, ok, det)
            elif ig is not None and (src(ig[0]), ig[1]) == ("index not in self.object_dictionary", True):
                record("no_object", code, f, r)
            elif ig is not None and (src(ig[0]), ig[1]) == ("subindex not in obj", True):
                record("no_subindex", code, f, r, ("isinstance(obj, objectdictionary.ODVariable)", False) in allfacts or
                       ("not isinstance(obj, objectdictionary.ODVariable)", True) in allfacts, f"guards {allfacts}")
            elif fname == "get_data" and ig is None:
                # falls off every value source
                record("no_value", code, f, r)
            else:
                chk.unk("R1", f"{f.key} | raise SdoAbortedError(0x{code:08X})", f.loc(r), f"refusal not classified; immediate guard {ftxt}")

    # ------------------------------------------------------------------ server sites
    for fname in ("segmented_upload", "segmented_download"):
        f = repo.func(SV, f"SdoServer.{fname}", "C06.R1")
        ff = ff_for(chk, f, "C06.R1")
        hit = False
        for r in [n for n in own_nodes(f.node) if isinstance(n, ast.Raise)]:
            code = _abort_code(folder, f, r)
            if code is None:
                continue
            g = [ff.norm(e, subst=False) for e, p in ff.facts_at(r) if p]
            if ff.canon("command & TOGGLE_BIT != self._toggle") in g:
                hit = True
                # the refusal comes before any effect
                node = ff.cfg.node_of(r)
                early = all(n.kind in ("entry", "test") for n in ff.cfg.dominators()[node] if n is not node)
                record("toggle", code, f, r, early, "toggle check is not the first thing the handler does" if not early else "")
            else:
                chk.unk("R1", f"{f.key} | raise 0x{code:08X}", f.loc(r), f"refusal not classified; guards {g}")
        if not hit:
            chk.bad("R1", f"{f.key} | refusal toggle", f.loc(), "no toggle-bit check raising 0x05030000 in this segment handler")
            roles.setdefault("toggle", []).append(False)
    onr = repo.func(SV, "SdoServer.on_request", "C06.R1")
    fo = ff_for(chk, onr, "C06.R1")
    for c in find_calls(onr.node, "self.abort"):
        st = fo.stmt_of(c)
        node = fo.cfg.node_of(st)
        code = folder.try_fold(c.args[0], Scope(onr.mod, onr.cls), None) if c.args else "default"
        # which handler / branch?
        handler = None
        for h in [n for n in ast.walk(onr.node) if isinstance(n, ast.ExceptHandler)]:
            if any(x is c for x in ast.walk(h)):
                handler = h
        if handler is None:
            # else branch of the dispatch: all specifier tests false
            g = [(src(e), p) for e, p in fo.facts_at(st)]
            neg = [t for t, p in g if p and "!=" in t and "ccs" in t]
            record("unknown_command", code if isinstance(code, int) else -1, onr, c, len(neg) >= 7, f"reached under {len(neg)} negated specifier tests")
        else:
            hn = {dotted(e) for e in (handler.type.elts if isinstance(handler.type, ast.Tuple) else [handler.type])} if handler.type is not None else {"<bare>"}
            if hn == {"SdoAbortedError"}:
                chk.check(c.args and src(c.args[0]) == f"{handler.name}.code", "R4", f"{SV}:SdoServer.on_request | abort(exc.code)", onr.loc(c),
                          f"the raised code is not passed on unchanged: {src(c)}")
            elif hn == {"KeyError"}:
                record("no_object", code if isinstance(code, int) else -1, onr, c)
            elif hn & {"Exception", "BaseException", "<bare>"}:
                chk.check(code == "default", "R4", f"{SV}:SdoServer.on_request | general handler", onr.loc(c), f"unexpected errors are answered with {code!r}")
            else:
                chk.unk("R4", f"{SV}:SdoServer.on_request | handler {sorted(hn)}", onr.loc(c), "handler not classified")
    bd = repo.func(SV, "SdoServer.block_download", "C06.R1")
    fb = ff_for(chk, bd, "C06.R1")
    cs = find_calls(bd.node, "self.abort")
    if not cs:
        chk.bad("R1", f"{SV}:SdoServer.block_download | refusal command", bd.loc(), "unsupported block download is not refused with an abort")
    for c in cs:
        code = folder.try_fold(c.args[0], Scope(bd.mod, bd.cls), None) if c.args else O.ABORT["general"]
        wit = must_pass(fb.cfg, lambda n: node_calls(n, "self.abort"))
        record("command", code, bd, c, wit is None, "a path does not answer at all" if wit else "")
    # client timeout
    rr = repo.func(CL, "SdoClient.request_response", "C06.R1")
    frr = ff_for(chk, rr, "C06.R1")
    cs = find_calls(rr.node, "self.abort")
    chk.floor("R1", len(cs), 1, "abort on retry exhaustion in request_response")
    for c in cs:
        code = folder.try_fold(c.args[0], Scope(rr.mod, rr.cls), None) if c.args else O.ABORT["general"]
        record("timeout", code, rr, c)
    # every handler of on_request answers with an abort
    for h in [n for n in own_nodes(onr.node) if isinstance(n, ast.ExceptHandler)]:
        chk.check(any(isinstance(x, ast.Call) and dotted(x.func) == "self.abort" for x in ast.walk(h)), "R4", f"{SV}:SdoServer.on_request | handler {src(h.type) if h.type else ''} answers",
                  onr.loc(h), "an exception raised while serving a request is not answered by an abort frame: the client runs into a time-out")
    for role in ("read_wo", "write_ro", "no_object", "length", "no_subindex", "no_value", "toggle", "command", "unknown_command", "timeout"):
        if role not in roles:
            chk.bad("R1", f"required refusal role {role}", "-", f"no refusal site found for condition {role!r} (deleted check?)")
    ab = repo.func(SV, "SdoServer.abort", "C06.R4")
    chk.saw(ab)
    dflt = ab.node.args.defaults
    chk.check(len(dflt) == 1 and folder.try_fold(dflt[0], Scope(ab.mod), None) == O.ABORT["general"], "R4", f"{SV}:SdoServer.abort | default code", ab.loc(),
              "default abort code is not 0x08000000 (general error)")
    # handler order
    tries = [n for n in own_nodes(onr.node) if isinstance(n, ast.Try)]
    for t in tries:
        names = [src(h.type) if h.type is not None else "<bare>" for h in t.handlers]
        gen = [i for i, n in enumerate(names) if n in ("Exception", "BaseException", "<bare>")]
        ok = "SdoAbortedError" in names and (not gen or names.index("SdoAbortedError") < gen[0]) and ("KeyError" not in names or not gen or names.index("KeyError") < gen[0])
        chk.check(ok, "R4", f"{SV}:SdoServer.on_request | handler order", onr.loc(t), f"handlers {names}: specific handlers must precede the general one")

    # ------------------------------------------------------------------ R2 check before effect
    sd = repo.func(LN, "LocalNode.set_data", "C06.R2")
    fs = ff_for(chk, sd, "C06.R2")
    effects = [n for n in fs.cfg.nodes if (n.kind == "stmt" and ("data_store" in src(n.ast)) and not isinstance(n.ast, ast.Raise))
               or (n.kind == "stmt" and any(isinstance(c, ast.Call) and dotted(c.func) == "callback" for c in ast.walk(n.ast)))
               or (n.kind == "for" and "_write_callbacks" in src(n.ast.iter))]
    chk.floor("R2", len(effects), 3, "effects (callbacks, store) in set_data")
    for e in effects:
        after = fs.cfg.reach_from(e)
        late = [n for n in after if n.kind == "stmt" and isinstance(n.ast, ast.Raise)]
        late += [n for n in after if n.kind == "stmt" and node_calls(n, "_find_object")]
        chk.check(not late, "R2", f"{LN}:LocalNode.set_data | no refusal after `{src(e.ast)[:40]}`", sd.loc(e.ast),
                  f"a refusal at line {late[0].lineno if late else 0} is reachable after the write was announced/stored")
    # store happens on every accepted path, with bytes(data)
    stores = [n for n in fs.cfg.nodes if n.kind == "stmt" and isinstance(n.ast, ast.Assign) and src(n.ast.targets[0]) == "self.data_store[index][subindex]"]
    chk.check(len(stores) == 1 and src(stores[0].ast.value) in ("bytes(data)",), "R2", f"{LN}:LocalNode.set_data | stores exactly the payload", sd.loc(),
              f"store is {[src(s.ast) for s in stores]}")
    wit = must_pass(fs.cfg, lambda n: n in stores)
    chk.check(wit is None, "R2", f"{LN}:LocalNode.set_data | accepted write is stored", sd.loc(), f"a normal path returns without storing: {path_text(wit) if wit else ''}")
    gd = repo.func(LN, "LocalNode.get_data", "C06.R2")
    fg = ff_for(chk, gd, "C06.R2")
    cb = [n for n in fg.cfg.nodes if n.kind == "for" and "_read_callbacks" in src(n.ast.iter)]
    for e in cb:
        late = [n for n in fg.cfg.reach_from(e) if n.kind == "stmt" and isinstance(n.ast, ast.Raise)
                and _immediate_guard(gd.node, n.ast) is not None
                and any(k in src(_immediate_guard(gd.node, n.ast)[0]) for k in ("readable", "access_type"))]
        chk.check(not late, "R2", f"{LN}:LocalNode.get_data | access refusal before read callbacks", gd.loc(e.ast), "write-only refusal after the callbacks ran")

    # ------------------------------------------------------------------ R3 abort frame + multiplexer provenance
    abort_frame_and_multiplexer(chk, "R3")

    # ------------------------------------------------------------------ R5 client decoding
    rd = repo.func(CL, "SdoClient.read_response", "C06.R5")
    fr = ff_for(chk, rd, "C06.R5")
    raises = [n for n in own_nodes(rd.node) if isinstance(n, ast.Raise) and "SdoAbortedError" in src(n)]
    chk.floor("R5", len(raises), 1, "raise SdoAbortedError in read_response")
    for r in raises:
        g = [fr.norm(e) for e, p in fr.facts_at(r) if p]
        want = [fr.canon("struct.unpack_from('B', response)[0] == 0x80")]
        cmd_ok = any("== 128" in x or "128 ==" in x for x in g)
        arg = r.exc.args[0] if isinstance(r.exc, ast.Call) and r.exc.args else None
        d = fr.one_def(arg.id) if isinstance(arg, ast.Name) else None
        # `abort_code, = struct.unpack_from("<L", response, 4)`
        code_ok = False
        for n in own_nodes(rd.node):
            if isinstance(n, ast.Assign) and isinstance(n.value, ast.Call) and (dotted(n.value.func) or "").endswith("unpack_from") \
                    and isinstance(n.targets[0], ast.Tuple) and arg is not None and src(n.targets[0].elts[0]) == src(arg):
                a = n.value.args
                code_ok = folder.try_fold(a[0], Scope(rd.mod), None) == "<L" and src(a[1]) == "response" and len(a) == 3 and folder.try_fold(a[2], Scope(rd.mod), None) == 4
        chk.check(cmd_ok, "R5", f"{CL}:SdoClient.read_response | abort recognised", rd.loc(r), f"raise under {g}; expected command byte == 0x80")
        chk.check(code_ok, "R5", f"{CL}:SdoClient.read_response | code field", rd.loc(r), "abort code is not '<L' at offset 4 of the response")
    for ret in [n for n in own_nodes(rd.node) if isinstance(n, ast.Return)]:
        g = [fr.norm(e) for e, p in fr.facts_at(ret) if p]
        chk.check(any("!= 128" in x for x in g), "R5", f"{CL}:SdoClient.read_response | abort never returned as data", rd.loc(ret), f"return under {g}")
    ei = repo.func(EX, "SdoAbortedError.__init__", "C06.R5")
    chk.saw(ei)
    st = [n for n in own_nodes(ei.node) if isinstance(n, ast.Assign) and dotted(n.targets[0]) == "self.code"]
    chk.check(len(st) == 1 and src(st[0].value) == "code", "R5", f"{EX}:SdoAbortedError.__init__ | code stored", ei.loc(), "self.code is not the received code")
    from . import shared as _sh5
    _sh5.done_before_last_exchange(chk, "R5")
    # whatever the 32 bits of an abort frame hold becomes an SdoAbortedError: the constructor refuses no 32-bit code
    pn = [a.arg for a in ei.node.args.args][1:2]
    if pn:
        reject_probes(chk, "R5", ei, [{pn[0]: v} for v in (0, 1, 0x05040001, 0x06090011, 0x7FFFFFFF, 0x80000000, 0xFFFFFFFE, 0xFFFFFFFF)], "every 32-bit abort code")

    # ------------------------------------------------------------------ R6 single writer of data_store
    n_w = 0
    for f in repo.all_funcs():
        for n in own_nodes(f.node):
            w = False
            if isinstance(n, (ast.Assign, ast.AugAssign, ast.AnnAssign, ast.Delete)):
                tg = n.targets if isinstance(n, (ast.Assign, ast.Delete)) else [n.target]
                w = any("data_store" in src(t) for t in tg)
            if isinstance(n, ast.Call) and "data_store" in src(n.func) and src(n.func).rsplit(".", 1)[-1] in ("update", "pop", "clear", "popitem", "__setitem__"):
                w = True
            if w:
                n_w += 1
                chk.check(f.key in (f"{LN}:LocalNode.set_data", f"{LN}:LocalNode.__init__"), "R6", f"{f.key} | writes data_store", f.loc(n),
                          "data_store is written outside LocalNode.set_data: a refused write could change the stored value")
    chk.floor("R6", n_w, 2, "writers of data_store")

    # ------------------------------------------------------------------ R10 every store made on behalf of a remote request asks for the access check
    srv = repo.cls(SV, "SdoServer", "C06.R10")
    onr = repo.func(SV, "SdoServer.on_request", "C06.R10")
    handlers, todo = set(), [onr]
    while todo:
        fcur = todo.pop()
        for c in ast.walk(fcur.node):
            if isinstance(c, ast.Call) and isinstance(c.func, ast.Attribute) and dotted(c.func.value) == "self" and c.func.attr in srv.methods and c.func.attr not in handlers \
                    and c.func.attr not in ("abort", "send_response"):
                handlers.add(c.func.attr)
                todo.append(srv.methods[c.func.attr])
    chk.floor("R10", len(handlers), 5, "request handlers reachable from on_request")
    n_store = 0
    for hn in sorted(handlers):
        hf = srv.methods[hn]
        chk.saw(hf)
        for c in ast.walk(hf.node):
            if not isinstance(c, ast.Call):
                continue
            d = dotted(c.func) or ""
            if d == "self._node.set_data":
                n_store += 1
                kw = {k.arg: folder.try_fold(k.value, Scope(hf.mod), None) for k in c.keywords}
                # a positional argument is bound by LocalNode.set_data's own parameter list (a parameter inserted in front of
                # check_writable shifts what a positional `True` means)
                sd_f = repo.func(LN, "LocalNode.set_data", "C06.R10")
                cw_at = sd_f.params.index("check_writable") - 1 if "check_writable" in sd_f.params else None
                pos = folder.try_fold(c.args[cw_at], Scope(hf.mod), None) if cw_at is not None and len(c.args) > cw_at and not any(isinstance(a_, ast.Starred) for a_ in c.args) else None
                chk.check(kw.get("check_writable") is True or pos is True, "R10", f"{SV}:SdoServer.{hn} | remote write checked against the access type", hf.loc(c),
                          f"`{src(c)[:80]}` stores without check_writable=True: a read-only or constant entry is overwritten instead of answered with 0x06010002")
            elif d in ("self.download", "self.upload") and hn not in ("download", "upload"):
                chk.bad("R10", f"{SV}:SdoServer.{hn} | remote request served through the local application helper", hf.loc(c),
                        f"`{src(c)[:80]}`: SdoServer.{d[5:]}() is the local application's accessor and skips the access check (check_writable/check_readable default to False)")
    chk.floor("R10", n_store, 2, "set_data calls in the request handlers")
    # ------------------------------------------------------------------ R9 implicit array members inherit the access type (shared with C08.R11)
    from . import c08 as _c08
    _c08.implicit_members(chk, "R9")
    # ------------------------------------------------------------------ R11 ODVariable.__len__ per data type (the download length check compares with len(obj); shared with C04.R5)
    from . import c04 as _c04len
    _c04len.bit_length_by_type(chk, "R11")
    # ------------------------------------------------------------------ R2 a request is refused for its own reasons only: every segmented
    # transfer starts from a fresh buffer and toggle 0 (shared clause; a stale toggle makes a well-formed first segment abort with 0x05030000)
    from . import shared as _shared0
    _shared0.server_reset(chk, "R2")
    # ------------------------------------------------------------------ R8 instances are independent (shared clause)
    from . import shared as _shared
    _shared.isolation(chk, "R8", rels=['canopen/sdo/server.py', 'canopen/sdo/base.py', 'canopen/node/local.py', 'canopen/objectdictionary/__init__.py'])


def abort_frame_and_multiplexer(chk, rule: str = "R3"):
    """The server's abort frame is '<BHBL' (0x80, index, subindex, code) and every handler that can abort has recorded the
    multiplexer of *this* request before (shared with C02: every response echoes the addressed multiplexer)."""
    repo, folder = ctx(chk)
    ab = repo.func(SV, "SdoServer.abort", f"{chk.prop}.{rule}")
    packs = [c for c in find_calls(ab.node, "struct.pack")]
    chk.floor(rule, len(packs), 1, "struct.pack in SdoServer.abort")
    for c in packs:
        fmt = folder.try_fold(c.args[0], Scope(ab.mod), None)
        rest = [src(a) for a in c.args[1:]]
        v0 = folder.try_fold(c.args[1], Scope(ab.mod, ab.cls), None) if len(c.args) > 1 else None
        chk.check(fmt == "<BHBL" and v0 == 0x80 and rest[1:] == ["self._index", "self._subindex", "abort_code"], rule, f"{SV}:SdoServer.abort | frame", ab.loc(c),
                  f"abort frame is struct.pack({fmt!r}, {', '.join(rest)}); CiA 301: '<BHBL' (0x80, index, subindex, code)")
    fab = ff_for(chk, ab, f"{chk.prop}.{rule}")
    wit = must_pass(fab.cfg, lambda n: node_calls(n, "self.send_response"))
    chk.check(wit is None, rule, f"{SV}:SdoServer.abort | frame is sent", ab.loc(), f"{path_text(wit) if wit else ''}")
    for fname in ("init_upload", "init_download", "block_download"):
        f = repo.func(SV, f"SdoServer.{fname}", f"{chk.prop}.{rule}")
        ff = ff_for(chk, f, f"{chk.prop}.{rule}")
        req = f.params[1]
        srv_methods = set(repo.cls(SV, "SdoServer", f"{chk.prop}.{rule}").methods)
        risky = [n for n in ff.cfg.nodes if n.kind in ("stmt", "test") and (
            node_calls(n, "self.abort") or any(isinstance(c, ast.Call) and (dotted(c.func) or "").startswith("self._node.") for c in ast.walk(n.ast))
            or isinstance(n.ast, ast.Raise)
            # helpers of the server the handler delegates to can refuse as well
            or any(isinstance(c, ast.Call) and isinstance(c.func, ast.Attribute) and dotted(c.func.value) == "self" and c.func.attr in srv_methods
                   and c.func.attr not in ("send_response", "abort") for c in ast.walk(n.ast)))]
        chk.floor(rule, len(risky), 1, f"statements that can abort in {fname}")
        for attr, pos in (("_index", 1), ("_subindex", 2)):
            stores = [n for n in ff.cfg.nodes if n.kind == "stmt" and isinstance(n.ast, ast.Assign) and any(
                dotted(t) == f"self.{attr}" or (isinstance(t, ast.Tuple) and any(dotted(e) == f"self.{attr}" for e in t.elts)) for t in n.ast.targets)]
            for r in risky:
                wit = must_pass(ff.cfg, lambda n: n in stores, to_nodes=[r])
                chk.check(wit is None, rule, f"{SV}:SdoServer.{fname} | {attr} set before `{src(r.ast)[:40]}`", f.loc(r.ast),
                          f"this statement can abort while self.{attr} still holds the multiplexer of an earlier transfer: {path_text(wit) if wit else ''}")
            for s_ in stores:
                ok = _from_request(ff, s_.ast, attr, pos, req)
                chk.check(ok, rule, f"{SV}:SdoServer.{fname} | {attr} taken from this request", f.loc(s_.ast), f"`{src(s_.ast)}` is not field {pos} of SDO_STRUCT.unpack_from({req})")
    bu = repo.func(SV, "SdoServer.block_upload", f"{chk.prop}.{rule}")
    chk.saw(bu)
    chk.check(any(dotted(c.func) == "self.init_upload" and [src(a) for a in c.args] == [bu.params[1]] for c in ast.walk(bu.node) if isinstance(c, ast.Call)),
              rule, f"{SV}:SdoServer.block_upload | delegates to init_upload", bu.loc(), "block upload is not served through init_upload(data)")


def _immediate_guard(fn, node):
    """(test, polarity) of the innermost `if` whose body/orelse directly contains `node`, else None."""
    for n in ast.walk(fn):
        if isinstance(n, ast.If):
            if any(s is node for s in n.body):
                return (n.test, True)
            if any(s is node for s in n.orelse):
                return (n.test, False)
    return None


def _abort_code(folder, f, r: ast.Raise):
    if isinstance(r.exc, ast.Call) and (dotted(r.exc.func) or "").endswith("SdoAbortedError") and r.exc.args:
        return folder.try_fold(r.exc.args[0], Scope(f.mod, f.cls), None)
    return None


def _from_request(ff, st: ast.Assign, attr: str, pos: int, req: str) -> bool:
    """self.<attr> is field `pos` of SDO_STRUCT.unpack_from(<request>) (directly or through a local)."""
    def is_unpack(v):
        return isinstance(v, ast.Call) and dotted(v.func) == "SDO_STRUCT.unpack_from" and v.args and src(v.args[0]) == req
    t = st.targets[0]
    if isinstance(t, ast.Tuple) and is_unpack(st.value):
        return len(t.elts) == 3 and dotted(t.elts[pos]) == f"self.{attr}"
    if isinstance(st.value, ast.Name):
        for n in ast.walk(ff.func.node):
            if isinstance(n, ast.Assign) and isinstance(n.targets[0], ast.Tuple) and is_unpack(n.value):
                names = [src(e) for e in n.targets[0].elts]
                return len(names) == 3 and names[pos] == st.value.id
    return False


def _eval_access(folder, f, facts, flag, readable_body, writable_body, refuse):
    """Evaluate the refusal guard for every CiA 306 access type with the check flag set."""
    if readable_body is None or writable_body is None:
        return None, "ODVariable.readable/writable are not one-line properties"
    conj = conj_of_facts(facts)
    wrong = []
    for at in ACCESS:
        e = substitute_src(conj, {"obj.writable": writable_body, "obj.readable": readable_body})
        e = substitute_src(e, {"obj.access_type": at, flag: True})
        try:
            v = bool(folder.fold(e, Scope(f.mod, f.cls)))
        except Unfoldable as ex:
            return None, f"guard does not evaluate for access type {at!r}: {ex}"
        if v != refuse(at):
            wrong.append(f"{at!r} is {'refused' if v else 'accepted'}")
    if wrong:
        return False, f"guard `{src(conj)}` decides wrongly for access types: {', '.join(wrong)}"
    return True, f"guard evaluated for access types {ACCESS}"


def _eval_length(folder, f, facts):
    conj = conj_of_facts(facts)
    wrong = []
    numeric = {n: t for n, t in O.DATA_TYPES.items() if t[1] in ("int", "float")}
    for name, (code, kind, bits, signed) in O.DATA_TYPES.items():
        for L in range(0, 10):
            width = bits if bits is not None else 8
            e = substitute_src(conj, {"len(obj)": width, "len(data)": L, "obj.data_type": code, "check_writable": True,
                                       "obj.writable": True})
            try:
                v = bool(folder.fold(e, Scope(f.mod, f.cls)))
            except Unfoldable as ex:
                return None, f"length guard does not evaluate: {ex}"
            want = name in numeric and 8 * L != bits
            if v != want:
                wrong.append(f"{name} with {L} bytes is {'refused' if v else 'accepted'}")
    if wrong:
        return False, f"guard `{src(conj)}` decides wrongly: {', '.join(wrong[:4])}" + (f" (+{len(wrong) - 4} more)" if len(wrong) > 4 else "")
    return True, "guard evaluated for 25 data types x payload lengths 0..9"
