"""Repository-specific static analysis for christiansandberg/canopen (properties C01-C20)."""
