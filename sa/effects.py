"""Package-wide summaries computed from syntax trees only."""
from __future__ import annotations

import ast
from typing import Set

from .fold import dotted


def observational_attrs_of(trees) -> Set[str]:
    """Attribute names that nothing in the package ever reads except to report them: every load of `<obj>.X` is inside a logging
    call, inside __repr__/__str__, or is the whole body of a getter (`return self.X`) that the package itself never uses; in-place
    updates (`self.X += 1`) and plain stores do not count as reads.  Such an attribute (a statistics counter, a time stamp kept
    for the user) cannot influence a frame, a stored value, an exception or a return value of any other operation."""
    stored, loaded = set(), set()
    used_names = set()
    getters = {}          # attribute -> set of getter function names that return it
    dynamic = False
    for tree in trees:
        for n in ast.walk(tree):
            if isinstance(n, ast.Attribute) and isinstance(n.ctx, ast.Load):
                used_names.add(n.attr)
    for tree in trees:
        skip = set()
        for n in ast.walk(tree):
            if isinstance(n, ast.Call) and (dotted(n.func) or "").split(".")[0] in ("logger", "log", "logging", "warnings"):
                skip |= {id(x) for a in list(n.args) + [k.value for k in n.keywords] for x in ast.walk(a)}
            elif isinstance(n, ast.FunctionDef) and n.name in ("__repr__", "__str__"):
                skip |= {id(x) for x in ast.walk(n)}
            elif isinstance(n, ast.FunctionDef):
                body = [s_ for s_ in n.body if not (isinstance(s_, ast.Expr) and isinstance(s_.value, ast.Constant))]
                if len(body) == 1 and isinstance(body[0], ast.Return) and isinstance(body[0].value, ast.Attribute) and isinstance(body[0].value.value, ast.Name) \
                        and body[0].value.value.id == "self" and n.name not in used_names and n.name != body[0].value.attr:
                    getters.setdefault(body[0].value.attr, set()).add(n.name)
                    skip.add(id(body[0].value))
        for n in ast.walk(tree):
            if isinstance(n, ast.Attribute):
                if isinstance(n.ctx, ast.Load):
                    if id(n) not in skip:
                        loaded.add(n.attr)
                else:
                    stored.add(n.attr)
            elif isinstance(n, ast.Call) and isinstance(n.func, ast.Name) and n.func.id in ("getattr", "hasattr", "setattr") and len(n.args) >= 2:
                if isinstance(n.args[1], ast.Constant) and isinstance(n.args[1].value, str):
                    loaded.add(n.args[1].value)
                else:
                    dynamic = True
    if dynamic:
        # a computed attribute name comes from some string of the package (tables of option/attribute names)
        for tree in trees:
            loaded |= {c.value for c in ast.walk(tree) if isinstance(c, ast.Constant) and isinstance(c.value, str)}
    out = stored - loaded
    # a store that is more than a store: a property setter of that name, a store on an object that is not self (its class may be
    # anything), a class that intercepts attribute stores
    for tree in trees:
        for n in ast.walk(tree):
            if isinstance(n, ast.FunctionDef):
                out.discard(n.name)
            elif isinstance(n, ast.ClassDef) and any(isinstance(f_, ast.FunctionDef) and f_.name in ("__setattr__", "__getattr__", "__getattribute__") for f_ in n.body):
                out -= {x.attr for x in ast.walk(n) if isinstance(x, ast.Attribute) and not isinstance(x.ctx, ast.Load)}
            elif isinstance(n, ast.Attribute) and not isinstance(n.ctx, ast.Load) and not (isinstance(n.value, ast.Name) and n.value.id == "self"):
                out.discard(n.attr)
    return out


