"""E4/E7: must-facts (path conditions known true at a node), single-definition substitution,
interval evaluation of integer expressions, attribute write summaries.
"""
from __future__ import annotations

import ast
import copy
from typing import Dict, FrozenSet, List, Optional, Set, Tuple

from .cfg import CFG, Node, forward
from .fold import Folder, Scope, Unfoldable, dotted, names_in, norm, norm_ast
from .loader import Func, Repo

Fact = Tuple[str, bool]

_NEG = {ast.Eq: ast.NotEq, ast.NotEq: ast.Eq, ast.Lt: ast.GtE, ast.GtE: ast.Lt, ast.Gt: ast.LtE,
        ast.LtE: ast.Gt, ast.In: ast.NotIn, ast.NotIn: ast.In, ast.Is: ast.IsNot, ast.IsNot: ast.Is}


def assigned_targets(st: ast.AST) -> Set[str]:
    """Names / dotted attributes / subscript bases (re)bound or mutated by a statement (shallow)."""
    out: Set[str] = set()

    def tgt(t):
        if isinstance(t, ast.Name):
            out.add(t.id)
        elif isinstance(t, ast.Attribute):
            d = dotted(t)
            if d:
                out.add(d)
        elif isinstance(t, ast.Subscript):
            d = dotted(t.value)
            if d:
                out.add(d)
        elif isinstance(t, (ast.Tuple, ast.List)):
            for e in t.elts:
                tgt(e)
        elif isinstance(t, ast.Starred):
            tgt(t.value)

    if isinstance(st, ast.Assign):
        for t in st.targets:
            tgt(t)
    elif isinstance(st, (ast.AugAssign, ast.AnnAssign)):
        tgt(st.target)
    elif isinstance(st, ast.For):
        tgt(st.target)
    elif isinstance(st, ast.With):
        for it in st.items:
            if it.optional_vars is not None:
                tgt(it.optional_vars)
    elif isinstance(st, ast.Delete):
        for t in st.targets:
            tgt(t)
    elif isinstance(st, ast.ExceptHandler):
        if st.name:
            out.add(st.name)
    for n in ast.walk(st) if isinstance(st, ast.AST) else []:
        if isinstance(n, ast.NamedExpr):
            tgt(n.target)
    return out


class AttrWrites:
    """Which self.<attr> a method may write, transitively through self-calls (and super() calls)."""

    def __init__(self, repo: Repo):
        self.repo = repo
        self._memo: Dict[str, Set[str]] = {}

    def of(self, func: Func) -> Set[str]:
        if func.key in self._memo:
            return self._memo[func.key]
        self._memo[func.key] = set()
        out: Set[str] = set()
        for n in ast.walk(func.node):
            if isinstance(n, (ast.Assign, ast.AugAssign, ast.AnnAssign, ast.Delete, ast.For)):
                for t in assigned_targets(n):
                    if t.startswith("self."):
                        out.add(t)
            if isinstance(n, ast.Call) and func.cls is not None:
                d = dotted(n.func)
                if d and (d.startswith("self.") and d.count(".") == 1 or d.startswith("super().")):
                    mname = d.split(".", 1)[1]
                    if d.startswith("super()."):
                        callee = None
                        for b in self.repo.mro(func.cls)[1:]:
                            if mname in b.methods:
                                callee = b.methods[mname]
                                break
                    else:
                        callee = self.repo.method(func.cls, mname)
                    if callee is not None and callee is not func:
                        out |= self.of(callee)
                    # mutating container methods on self attributes
            if isinstance(n, ast.Call):
                d = dotted(n.func)
                if d and d.startswith("self.") and d.count(".") == 2 and d.rsplit(".", 1)[1] in (
                        "append", "extend", "clear", "pop", "remove", "insert", "update", "setdefault", "add"):
                    out.add(d.rsplit(".", 1)[0])
        self._memo[func.key] = out
        return out


class FuncFacts:
    """Per-function analysis context: CFG, must-facts, single-definition locals."""

    def __init__(self, repo: Repo, folder: Folder, func: Func, rule: str = "E4", writes: Optional[AttrWrites] = None):
        self.repo, self.folder, self.func = repo, folder, func
        self.scope = Scope(func.mod, func.cls)
        self.cfg = CFG(func.node, rule)
        self.writes = writes or AttrWrites(repo)
        self._fact_ast: Dict[str, ast.expr] = {}
        self._in = None
        self._defs = None

    # ---------------------------------------------------------------- single definitions
    def single_defs(self) -> Dict[str, ast.expr]:
        if self._defs is not None:
            return self._defs
        counts: Dict[str, int] = {}
        values: Dict[str, ast.expr] = {}
        params = set(self.func.params)
        written_attrs: Set[str] = set()
        for n in ast.walk(self.func.node):
            if isinstance(n, (ast.FunctionDef, ast.Lambda)) and n is not self.func.node:
                continue
            if isinstance(n, (ast.Assign, ast.AugAssign, ast.AnnAssign, ast.For, ast.With, ast.NamedExpr,
                              ast.ExceptHandler, ast.Delete)):
                for t in assigned_targets(n):
                    counts[t] = counts.get(t, 0) + 1
                    if "." in t:
                        written_attrs.add(t)
                if isinstance(n, ast.Assign) and len(n.targets) == 1 and isinstance(n.targets[0], ast.Name):
                    values[n.targets[0].id] = n.value
            if isinstance(n, ast.Call):
                d = dotted(n.func)
                if d and self.func.cls is not None and (d.startswith("self.") and d.count(".") == 1):
                    callee = self.repo.method(self.func.cls, d.split(".", 1)[1])
                    if callee is not None:
                        written_attrs |= self.writes.of(callee)
        out = {}
        for name, v in values.items():
            if counts.get(name, 0) != 1 or name in params:
                continue
            ok = True
            for fn in names_in(v):
                base = fn.split(".")[0]
                if "." in fn:
                    if any(fn == w or fn.startswith(w + ".") or w.startswith(fn + ".") for w in written_attrs):
                        ok = False
                elif counts.get(fn, 0) > 1 or (counts.get(fn, 0) == 1 and fn in params):
                    ok = False
                elif fn == name:
                    ok = False
            for c in ast.walk(v):
                # results of calls are not substituted unless pure builtins
                if isinstance(c, ast.Call):
                    d = dotted(c.func) or ""
                    if d not in ("len", "min", "max", "int", "bool", "divmod", "abs", "isinstance"):
                        ok = False
            if ok:
                out[name] = v
        self._defs = out
        return out

    def one_def(self, name: str) -> Optional[ast.expr]:
        """Value of the only assignment `name = <expr>` in the function (calls allowed), else None."""
        hits = []
        for n in ast.walk(self.func.node):
            if isinstance(n, (ast.Assign, ast.AugAssign, ast.AnnAssign, ast.For, ast.With, ast.NamedExpr)):
                if name in assigned_targets(n):
                    hits.append(n)
        if len(hits) == 1 and isinstance(hits[0], ast.Assign) and len(hits[0].targets) == 1 \
                and isinstance(hits[0].targets[0], ast.Name) and name not in self.func.params:
            return hits[0].value
        return None

    def def_at(self, name: str, at: ast.AST) -> Optional[ast.expr]:
        """Value of the unique plain assignment `name = <expr>` reaching statement `at`, provided the names it reads
        have the same reaching definitions at both places (so the expression still denotes the same value)."""
        from .rules.common import ReachingDefs
        rd = getattr(self, "_rd", None)
        if rd is None:
            rd = ReachingDefs(self.cfg)
            self._rd = rd
        nodes = self.cfg.nodes_of(at)
        if not nodes:
            return None
        use = nodes[0]
        defs = rd.defs_at(use, name)
        if len(defs) != 1 or defs[0] is None:
            return None
        d = defs[0]
        if not (isinstance(d, ast.Assign) and len(d.targets) == 1 and isinstance(d.targets[0], ast.Name)):
            return None
        dn = self.cfg.nodes_of(d)
        if not dn:
            return None
        for fn in names_in(d.value):
            if fn == name:
                return None
            a = [id(x) for x in rd.defs_at(dn[0], fn)]
            b = [id(x) for x in rd.defs_at(use, fn)]
            if a != b:
                return None
        return d.value

    def raw_def_at(self, name: str, at: ast.AST) -> Optional[ast.expr]:
        """Value of the unique plain assignment reaching `at`, without the freshness check of def_at (use only for
        properties of the value that later mutation of its sources cannot change, e.g. the length of a slice copy)."""
        from .rules.common import ReachingDefs
        rd = getattr(self, "_rd", None)
        if rd is None:
            rd = ReachingDefs(self.cfg)
            self._rd = rd
        nodes = self.cfg.nodes_of(at)
        if not nodes:
            return None
        defs = rd.defs_at(nodes[0], name)
        if len(defs) == 1 and isinstance(defs[0], ast.Assign) and len(defs[0].targets) == 1 and isinstance(defs[0].targets[0], ast.Name):
            return defs[0].value
        return None

    def canon(self, text: str) -> str:
        """Normal form of an expression given as source text (to compare with norm(expr, subst=False))."""
        return norm(ast.parse(text, mode="eval").body, self.folder, self.scope, None)

    def is_form(self, e: ast.expr, *forms: str, subst: bool = False) -> bool:
        got = self.norm(e, subst=subst)
        return any(got == self.canon(f) for f in forms)

    def norm(self, e: ast.expr, subst: bool = True) -> str:
        return norm(e, self.folder, self.scope, self.single_defs() if subst else None)

    def norm_ast(self, e: ast.expr, subst: bool = True) -> ast.expr:
        return norm_ast(e, self.folder, self.scope, self.single_defs() if subst else None)

    # ---------------------------------------------------------------- must-facts
    def _decompose(self, test: ast.expr, pol: bool) -> List[Tuple[ast.expr, bool]]:
        if isinstance(test, ast.UnaryOp) and isinstance(test.op, ast.Not):
            return self._decompose(test.operand, not pol)
        if isinstance(test, ast.BoolOp):
            if isinstance(test.op, ast.And) and pol or isinstance(test.op, ast.Or) and not pol:
                out = []
                for v in test.values:
                    out += self._decompose(v, pol)
                return out
            return [(test, pol)]
        if isinstance(test, ast.Compare) and len(test.ops) > 1 and pol:
            out = []
            left = test.left
            for op, right in zip(test.ops, test.comparators):
                out.append((ast.Compare(left=left, ops=[op], comparators=[right]), True))
                left = right
            return out
        if isinstance(test, ast.NamedExpr):
            return [(test.target, pol)]
        return [(test, pol)]

    def _mk(self, test: ast.expr, pol: bool) -> List[Fact]:
        out = []
        for e, p in self._decompose(test, pol):
            if isinstance(e, ast.Constant):
                continue
            if isinstance(e, ast.Compare) and len(e.ops) == 1 and not p and type(e.ops[0]) in _NEG:
                e = ast.Compare(left=e.left, ops=[_NEG[type(e.ops[0])]()], comparators=e.comparators)
                p = True
            e = ast.fix_missing_locations(copy.deepcopy(e))
            key = self.norm(e, subst=False)
            self._fact_ast.setdefault(key, e)
            out.append((key, p))
        return out

    def _kill(self, facts: FrozenSet[Fact], node: Node) -> FrozenSet[Fact]:
        st = node.ast
        if st is None:
            return facts
        killed = set(assigned_targets(st)) if isinstance(st, (ast.stmt, ast.ExceptHandler)) else set()
        # calls to own methods may write own attributes
        if self.func.cls is not None:
            probe = st.iter if isinstance(st, ast.For) else st
            if isinstance(st, ast.With):
                probe = ast.Tuple(elts=[i.context_expr for i in st.items], ctx=ast.Load())
            if isinstance(st, ast.ExceptHandler):
                probe = None
            if probe is not None:
                for c in ast.walk(probe):
                    if isinstance(c, ast.Call):
                        d = dotted(c.func)
                        if d and ((d.startswith("self.") and d.count(".") == 1) or d.startswith("super().")):
                            callee = self.repo.method(self.func.cls, d.split(".", 1)[1])
                            if callee is not None:
                                killed |= self.writes.of(callee)
        if not killed:
            return facts
        out = set()
        for key, pol in facts:
            e = self._fact_ast[key]
            ns = names_in(e)
            hit = False
            for k in killed:
                for n in ns:
                    if n == k or n.startswith(k + ".") or k.startswith(n + "."):
                        hit = True
            if not hit:
                out.add((key, pol))
        return frozenset(out)

    def facts_in(self) -> Dict[Node, Optional[FrozenSet[Fact]]]:
        if self._in is not None:
            return self._in

        def transfer(n: Node, st):
            out = self._kill(st, n) if n.kind in ("stmt", "for", "with", "handler") else st
            if n.kind == "stmt" and isinstance(n.ast, ast.Assert):
                out = out | frozenset(self._mk(n.ast.test, True))
            return out

        def edge(p: Node, lab, out_state, in_state):
            if p.kind == "test" and lab in ("T", "F"):
                return out_state | frozenset(self._mk(p.ast, lab == "T"))
            if lab == "exc":
                return in_state if in_state is not None else out_state
            return out_state

        IN, _ = forward(self.cfg, frozenset(), transfer, lambda a, b: a & b, edge)
        self._in = IN
        return IN

    def facts_at(self, a: ast.AST) -> List[Tuple[ast.expr, bool]]:
        """Facts known on entry to the CFG node of statement/expression `a` (intersection over its copies)."""
        nodes = self.cfg.nodes_of(a)
        IN = self.facts_in()
        acc = None
        for n in nodes:
            f = IN.get(n)
            if f is None:
                continue
            acc = f if acc is None else (acc & f)
        if acc is None:
            return []
        return [(self._fact_ast[k], p) for k, p in sorted(acc)]

    def stmt_of(self, inner: ast.AST) -> ast.AST:
        """Innermost statement (or test expression owning a CFG node) that contains `inner`."""
        best = None
        for n in self.cfg.nodes:
            if n.ast is None:
                continue
            cand = n.ast
            if isinstance(cand, (ast.For,)):
                probe = [cand.iter, cand.target]
            elif isinstance(cand, ast.With):
                probe = [i.context_expr for i in cand.items]
            elif isinstance(cand, ast.ExceptHandler):
                probe = []
            else:
                probe = [cand]
            for p in probe:
                for sub in ast.walk(p):
                    if sub is inner:
                        best = cand
        if best is None:
            from .loader import AnalysisError
            raise AnalysisError(self.cfg.rule, f"expression at line {getattr(inner, 'lineno', '?')} in "
                                               f"{self.func.qualname} has no CFG node")
        return best

    # ---------------------------------------------------------------- intervals
    def interval(self, e: ast.expr, at: Optional[ast.AST] = None, env: Optional[Dict[str, int]] = None,
                 depth: int = 0) -> Tuple[Optional[int], Optional[int]]:
        """[lo, hi] (None = unbounded) of integer expression `e` at statement `at`."""
        facts = self.facts_at(at) if at is not None else []
        return _Interval(self, facts, env or {}, at).ev(e, depth)


class _Interval:
    def __init__(self, ff: FuncFacts, facts, env, at=None):
        self.ff, self.facts, self.env, self.at = ff, facts, env, at
        self.defs = ff.single_defs()

    def const(self, e):
        try:
            sc = Scope(self.ff.scope.mod, self.ff.scope.cls, self.env or None)
            v = self.ff.folder.fold(e, sc)
            if isinstance(v, bool):
                return int(v)
            if isinstance(v, int):
                return v
        except Unfoldable:
            pass
        return None

    def ev(self, e: ast.expr, depth=0):
        if depth > 12:
            return (None, None)
        c = self.const(e)
        if c is not None:
            return (c, c)
        lo, hi = self._structural(e, depth)
        # refine by facts about this very expression
        key = self.ff.norm(e)
        for fe, pol in self.facts:
            if not isinstance(fe, ast.Compare) or len(fe.ops) != 1 or not pol:
                # `x is None` etc. carry no interval
                continue
            l, r, op = fe.left, fe.comparators[0], type(fe.ops[0])
            lk, rk = self.ff.norm(l), self.ff.norm(r)
            if lk == key:
                b = self.ev(r, depth + 1) if rk != key else (None, None)
                lo, hi = _refine(lo, hi, op, b, left=True)
            elif rk == key:
                b = self.ev(l, depth + 1)
                lo, hi = _refine(lo, hi, op, b, left=False)
        return (lo, hi)

    def _len_alias(self, a):
        """An expression with the same length as `a` (copies and conditional copies of one buffer)."""
        def base_of(x):
            if isinstance(x, ast.Call):
                d = dotted(x.func) or ""
                if isinstance(x.func, ast.Attribute) and x.func.attr in ("tobytes",) and not x.args:
                    return x.func.value
                if d in ("bytes", "bytearray", "memoryview") and len(x.args) == 1:
                    return x.args[0]
                return None
            if isinstance(x, ast.IfExp):
                l, r = base_of(x.body) or x.body, base_of(x.orelse) or x.orelse
                if src_(l) == src_(r):
                    return l
                return None
            return None
        if isinstance(a, ast.Name):
            d = self.ff.one_def(a.id)
            if d is not None:
                b = base_of(d)
                if b is not None:
                    return b
        return base_of(a)

    def _structural(self, e, depth):
        ev = lambda x: self.ev(x, depth + 1)  # noqa
        if isinstance(e, ast.Name) and e.id in self.defs:
            return ev(self.defs[e.id])
        if isinstance(e, ast.Name) and self.at is not None:
            d = self.ff.def_at(e.id, self.at)
            if d is not None and not any(isinstance(c, ast.Call) and (dotted(c.func) or "") not in ("len", "min", "max", "int", "bool", "abs")
                                         for c in ast.walk(d)):
                return ev(d)
        if isinstance(e, ast.Call):
            d = dotted(e.func)
            if d == "len" and len(e.args) == 1:
                a = e.args[0]
                hi = None
                alias = self._len_alias(a)
                if alias is not None and src_(alias) != src_(a):
                    return self.ev(ast.Call(func=ast.Name(id="len", ctx=ast.Load()), args=[alias], keywords=[]), depth + 1)
                if isinstance(a, ast.Name) and a.id in self.defs:
                    a = self.defs[a.id]
                elif isinstance(a, ast.Name) and self.at is not None:
                    rdv = self.ff.raw_def_at(a.id, self.at)
                    if isinstance(rdv, ast.Subscript) and isinstance(rdv.slice, ast.Slice):
                        a = rdv          # a slice is a copy: its length is fixed at creation
                if isinstance(a, ast.Subscript) and isinstance(a.slice, ast.Slice) and a.slice.step is None:
                    lo_s = self.ev(a.slice.lower, depth + 1) if a.slice.lower is not None else (0, 0)
                    hi_s = self.ev(a.slice.upper, depth + 1) if a.slice.upper is not None else (None, None)
                    if lo_s[0] is not None and lo_s[0] >= 0 and hi_s[1] is not None and hi_s[1] >= 0:
                        hi = max(0, hi_s[1] - lo_s[0])
                return (0, hi)
            if d == "min" and len(e.args) == 2 and not e.keywords:
                a, b = ev(e.args[0]), ev(e.args[1])
                return (_min(a[0], b[0]), _min_hi(a[1], b[1]))
            if d == "max" and len(e.args) == 2 and not e.keywords:
                a, b = ev(e.args[0]), ev(e.args[1])
                return (_max_lo(a[0], b[0]), _max(a[1], b[1]))
            if d in ("int", "bool") and len(e.args) == 1:
                if d == "bool":
                    return (0, 1)
                return ev(e.args[0])
        if isinstance(e, ast.BinOp):
            a, b = ev(e.left), ev(e.right)
            if isinstance(e.op, ast.Add):
                return (_add(a[0], b[0]), _add(a[1], b[1]))
            if isinstance(e.op, ast.Sub):
                return (_sub(a[0], b[1]), _sub(a[1], b[0]))
            if isinstance(e.op, ast.BitAnd):
                his = [x[1] for x in (a, b) if x[0] is not None and x[0] >= 0 and x[1] is not None]
                if his:
                    return (0, min(his))
                return (None, None)
            if isinstance(e.op, ast.RShift):
                if a[0] is not None and a[0] >= 0 and b[0] is not None and b[0] >= 0:
                    return (0 if b[1] is None else a[0] >> b[1], None if a[1] is None else a[1] >> b[0])
                return (None, None)
            if isinstance(e.op, ast.LShift):
                if a[0] is not None and a[0] >= 0 and b[0] is not None and b[0] == b[1]:
                    return (a[0] << b[0], None if a[1] is None else a[1] << b[0])
                return (None, None)
            if isinstance(e.op, ast.Mult):
                if None not in a and None not in b:
                    ps = [a[0] * b[0], a[0] * b[1], a[1] * b[0], a[1] * b[1]]
                    return (min(ps), max(ps))
            if isinstance(e.op, ast.FloorDiv):
                if a[0] is not None and a[0] >= 0 and b[0] is not None and b[0] == b[1] and b[0] > 0:
                    return (a[0] // b[0], None if a[1] is None else a[1] // b[0])
            if isinstance(e.op, ast.Mod):
                if b[0] is not None and b[0] == b[1] and b[0] > 0:
                    return (0, b[0] - 1)
        if isinstance(e, ast.IfExp):
            a, b = ev(e.body), ev(e.orelse)
            return (_min(a[0], b[0]), _max(a[1], b[1]))
        return (None, None)


def src_(e):
    try:
        return ast.unparse(e)
    except Exception:  # noqa
        return ""


def _min(a, b):
    return None if a is None or b is None else min(a, b)


def _max(a, b):
    return None if a is None or b is None else max(a, b)


def _min_hi(a, b):
    if a is None:
        return b
    if b is None:
        return a
    return min(a, b)


def _max_lo(a, b):
    if a is None:
        return b
    if b is None:
        return a
    return max(a, b)


def _add(a, b):
    return None if a is None or b is None else a + b


def _sub(a, b):
    return None if a is None or b is None else a - b


def _refine(lo, hi, op, b, left: bool):
    blo, bhi = b
    if not left:
        op = {ast.Lt: ast.Gt, ast.Gt: ast.Lt, ast.LtE: ast.GtE, ast.GtE: ast.LtE}.get(op, op)
    if op is ast.Lt and bhi is not None:
        hi = bhi - 1 if hi is None else min(hi, bhi - 1)
    elif op is ast.LtE and bhi is not None:
        hi = bhi if hi is None else min(hi, bhi)
    elif op is ast.Gt and blo is not None:
        lo = blo + 1 if lo is None else max(lo, blo + 1)
    elif op is ast.GtE and blo is not None:
        lo = blo if lo is None else max(lo, blo)
    elif op is ast.Eq and blo is not None and blo == bhi:
        lo = blo if lo is None else max(lo, blo)
        hi = bhi if hi is None else min(hi, bhi)
    return lo, hi
