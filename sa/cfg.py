"""E3: statement-level control-flow graph for one function, dominators, generic dataflow.

Node kinds: entry, exit (normal return / fall off), raise (exception leaves the function),
stmt (simple statement), test (if/while condition; out-edges 'T'/'F'), for (loop header;
out-edges 'loop'/'done'), with (context expression), handler (except clause), match is not used
by the repository and is rejected (AnalysisError), as is anything else the builder does not know.

Exceptional edges (label 'exc'): from every node that lies in a `try` body to every handler of that
try (implicit exceptions), from an explicit `raise` to the matching handler (by exception name) or to
all handlers plus the enclosing target.  A `finally` body is copied once per continuation kind.
"""
from __future__ import annotations

import ast
from collections import defaultdict, deque
from dataclasses import dataclass, field
from typing import Callable, Dict, List, Optional, Set, Tuple

from .loader import AnalysisError

SIMPLE = (ast.Assign, ast.AugAssign, ast.AnnAssign, ast.Expr, ast.Pass, ast.Delete, ast.Assert,
          ast.Import, ast.ImportFrom, ast.Global, ast.Nonlocal, ast.FunctionDef, ast.ClassDef)


@dataclass(eq=False)
class Node:
    id: int
    kind: str
    ast: Optional[ast.AST] = None
    succs: List[Tuple["Node", Optional[str]]] = field(default_factory=list)
    preds: List[Tuple["Node", Optional[str]]] = field(default_factory=list)
    in_try: Tuple[int, ...] = ()

    @property
    def lineno(self) -> int:
        return getattr(self.ast, "lineno", 0)

    def __repr__(self):
        return f"<{self.id}:{self.kind}@{self.lineno}>"


class CFG:
    def __init__(self, fn: ast.FunctionDef, rule: str = "E3"):
        self.fn = fn
        self.rule = rule
        self.nodes: List[Node] = []
        self.entry = self._new("entry")
        self.exit = self._new("exit")
        self.raise_exit = self._new("raise")
        self._loops: List[Tuple[Node, List]] = []          # (continue target, break-ends list)
        self._handlers: List[List[Node]] = []               # stack of handler-entry lists
        self._finals: List[List[ast.stmt]] = []             # stack of finally bodies
        ends = self._block(fn.body, [(self.entry, None)])
        for n, lab in ends:
            self._edge(n, self.exit, lab)
        self._by_ast: Dict[int, List[Node]] = defaultdict(list)
        for n in self.nodes:
            if n.ast is not None:
                self._by_ast[id(n.ast)].append(n)
        self._dom = None
        self._pdom = None

    # ---------------------------------------------------------------- construction
    def _new(self, kind: str, node: Optional[ast.AST] = None) -> Node:
        n = Node(len(self.nodes), kind, node)
        self.nodes.append(n)
        return n

    def _edge(self, a: Node, b: Node, label: Optional[str] = None) -> None:
        if (b, label) not in a.succs:
            a.succs.append((b, label))
            b.preds.append((a, label))

    def _link(self, ends, node: Node) -> None:
        for n, lab in ends:
            self._edge(n, node, lab)

    def _exc_targets(self, exc_name: Optional[str] = None) -> List[Node]:
        """Where an exception raised here goes."""
        if self._handlers:
            hs = self._handlers[-1]
            if exc_name is not None:
                for h in hs:
                    t = h.ast.type
                    names = []
                    if t is None:
                        return [h]
                    for e in (t.elts if isinstance(t, ast.Tuple) else [t]):
                        names.append(e.attr if isinstance(e, ast.Attribute) else getattr(e, "id", None))
                    if exc_name in names or "Exception" in names or "BaseException" in names:
                        return [h]
                return list(hs) + self._outer_exc()
            return list(hs)
        return []

    def _outer_exc(self) -> List[Node]:
        saved = self._handlers
        try:
            if len(saved) > 1:
                self._handlers = saved[:-1]
                return self._exc_targets()
            return [self.raise_exit]
        finally:
            self._handlers = saved

    def _attach_exc(self, n: Node) -> None:
        if self._handlers and n.kind in ("stmt", "test", "for", "with"):
            for h in self._handlers[-1]:
                self._edge(n, h, "exc")

    def _through_finals(self, ends, upto: int = 0):
        """Route `ends` through copies of every pending finally body (innermost first)."""
        for body in reversed(self._finals[upto:]):
            saved_f, self._finals = self._finals, self._finals[: self._finals.index(body)]
            try:
                ends = self._block(body, ends)
            finally:
                self._finals = saved_f
        return ends

    def _block(self, stmts: List[ast.stmt], ends):
        for st in stmts:
            if not ends:
                break        # unreachable code after return/raise: not represented
            ends = self._stmt(st, ends)
        return ends

    def _stmt(self, st: ast.stmt, ends):
        if isinstance(st, ast.Return):
            n = self._new("stmt", st)
            self._link(ends, n)
            self._attach_exc(n)
            out = self._through_finals([(n, None)])
            for e, lab in out:
                self._edge(e, self.exit, lab)
            return []
        if isinstance(st, ast.Raise):
            n = self._new("stmt", st)
            self._link(ends, n)
            name = None
            if st.exc is not None:
                f = st.exc.func if isinstance(st.exc, ast.Call) else st.exc
                name = f.attr if isinstance(f, ast.Attribute) else getattr(f, "id", None)
            targets = self._exc_targets(name)
            if targets:
                for t in targets:
                    self._edge(n, t, "exc")
            else:
                out = self._through_finals([(n, "exc")])
                for e, lab in out:
                    self._edge(e, self.raise_exit, lab)
            return []
        if isinstance(st, SIMPLE):
            n = self._new("stmt", st)
            self._link(ends, n)
            self._attach_exc(n)
            return [(n, None)]
        if isinstance(st, ast.If):
            t = self._new("test", st.test)
            t.owner = st  # type: ignore[attr-defined]
            self._link(ends, t)
            self._attach_exc(t)
            a = self._block(st.body, [(t, "T")])
            b = self._block(st.orelse, [(t, "F")]) if st.orelse else [(t, "F")]
            return a + b
        if isinstance(st, ast.While):
            t = self._new("test", st.test)
            t.owner = st  # type: ignore[attr-defined]
            self._link(ends, t)
            self._attach_exc(t)
            breaks: List = []
            self._loops.append((t, breaks))
            body_ends = self._block(st.body, [(t, "T")])
            self._loops.pop()
            self._link(body_ends, t)
            const_true = isinstance(st.test, ast.Constant) and bool(st.test.value)
            out = [] if const_true else [(t, "F")]
            if st.orelse:
                out = self._block(st.orelse, out)
            return out + breaks
        if isinstance(st, ast.For):
            h = self._new("for", st)
            self._link(ends, h)
            self._attach_exc(h)
            breaks = []
            self._loops.append((h, breaks))
            body_ends = self._block(st.body, [(h, "loop")])
            self._loops.pop()
            self._link(body_ends, h)
            out = [(h, "done")]
            if st.orelse:
                out = self._block(st.orelse, out)
            return out + breaks
        if isinstance(st, ast.Break):
            n = self._new("stmt", st)
            self._link(ends, n)
            self._loops[-1][1].append((n, None))
            return []
        if isinstance(st, ast.Continue):
            n = self._new("stmt", st)
            self._link(ends, n)
            self._edge(n, self._loops[-1][0])
            return []
        if isinstance(st, ast.With):
            n = self._new("with", st)
            self._link(ends, n)
            self._attach_exc(n)
            return self._block(st.body, [(n, None)])
        if isinstance(st, ast.Try):
            return self._try(st, ends)
        raise AnalysisError(self.rule, f"statement kind {type(st).__name__} at line {st.lineno} "
                                       f"in {self.fn.name} is not modelled by the CFG builder")

    def _try(self, st: ast.Try, ends):
        handlers = [self._new("handler", h) for h in st.handlers]
        if st.finalbody:
            self._finals.append(st.finalbody)
        if handlers:
            self._handlers.append(handlers)
        body_ends = self._block(st.body, ends)
        if handlers:
            self._handlers.pop()
        if st.orelse:
            body_ends = self._block(st.orelse, body_ends)
        out = list(body_ends)
        for hn in handlers:
            out += self._block(hn.ast.body, [(hn, None)])
        if st.finalbody:
            self._finals.pop()
            if not handlers:
                # exceptions in the body run the finally body and propagate
                pass
            out = self._block(st.finalbody, out)
        return out

    # ---------------------------------------------------------------- queries
    def nodes_of(self, a: ast.AST) -> List[Node]:
        return self._by_ast.get(id(a), [])

    def node_of(self, a: ast.AST) -> Node:
        ns = self.nodes_of(a)
        if not ns:
            raise AnalysisError(self.rule, f"no CFG node for {type(a).__name__} at line {getattr(a, 'lineno', '?')}")
        return ns[0]

    def stmt_nodes(self):
        return [n for n in self.nodes if n.kind in ("stmt", "test", "for", "with", "handler")]

    def reachable(self) -> Set[Node]:
        seen = {self.entry}
        dq = deque([self.entry])
        while dq:
            n = dq.popleft()
            for s, _ in n.succs:
                if s not in seen:
                    seen.add(s)
                    dq.append(s)
        return seen

    def dominators(self) -> Dict[Node, Set[Node]]:
        if self._dom is None:
            self._dom = _dominators(self.nodes, self.entry, lambda n: [p for p, _ in n.preds], self.reachable())
        return self._dom

    def dominates(self, a: Node, b: Node) -> bool:
        return a in self.dominators().get(b, set())

    def reach_from(self, start: Node, avoid: Optional[Callable[[Node], bool]] = None,
                   skip_exc: bool = False) -> Set[Node]:
        """Nodes reachable from `start` (exclusive) without passing through nodes for which avoid() holds."""
        seen: Set[Node] = set()
        dq = deque([start])
        while dq:
            n = dq.popleft()
            for s, lab in n.succs:
                if skip_exc and lab == "exc":
                    continue
                if s in seen:
                    continue
                seen.add(s)
                if avoid is not None and avoid(s):
                    continue
                dq.append(s)
        return seen

    def stats(self) -> Tuple[int, int]:
        return len(self.nodes), sum(len(n.succs) for n in self.nodes)


def _dominators(nodes, entry, preds, reachable):
    all_nodes = set(reachable)
    dom = {n: set(all_nodes) for n in all_nodes}
    dom[entry] = {entry}
    changed = True
    order = [n for n in nodes if n in all_nodes]
    while changed:
        changed = False
        for n in order:
            if n is entry:
                continue
            ps = [p for p in preds(n) if p in all_nodes]
            if not ps:
                new = {n}
            else:
                new = set.intersection(*(dom[p] for p in ps)) | {n}
            if new != dom[n]:
                dom[n] = new
                changed = True
    return dom


# ------------------------------------------------------------------------------------------------
# generic forward dataflow

def forward(cfg: CFG, init, transfer: Callable, join: Callable, edge_transfer: Optional[Callable] = None,
            max_iter: int = 100000):
    """Worklist fixpoint.  IN[n] = join over preds p of edge(p, label, OUT[p]); OUT[n] = transfer(n, IN[n]).

    Returns (IN, OUT) dicts.  `None` is the unreachable/bottom state and is never passed to callbacks.
    """
    IN: Dict[Node, object] = {n: None for n in cfg.nodes}
    OUT: Dict[Node, object] = {n: None for n in cfg.nodes}
    IN[cfg.entry] = init
    OUT[cfg.entry] = transfer(cfg.entry, init)
    work = deque(s for s, _ in cfg.entry.succs)
    queued = set(work)
    it = 0
    while work:
        it += 1
        if it > max_iter:
            raise AnalysisError(cfg.rule, f"dataflow did not converge in {cfg.fn.name}")
        n = work.popleft()
        queued.discard(n)
        acc = None
        for p, lab in n.preds:
            o = OUT[p]
            if o is None:
                continue
            if edge_transfer is not None:
                o = edge_transfer(p, lab, o, IN[p])
                if o is None:
                    continue
            acc = o if acc is None else join(acc, o)
        if acc is None:
            continue
        if IN[n] is not None and acc == IN[n] and OUT[n] is not None:
            continue
        IN[n] = acc
        new_out = transfer(n, acc)
        if new_out != OUT[n]:
            OUT[n] = new_out
            for s, _ in n.succs:
                if s not in queued:
                    queued.add(s)
                    work.append(s)
    return IN, OUT


# ------------------------------------------------------------------------------------------------
# typestate: DFA x CFG product

def typestate(cfg: CFG, start_states, step: Callable, exc_sees_effect: bool = True):
    """step(node, dfa_state) -> iterable of next dfa states (may include the string 'ERR:<why>').

    Returns (states_at_exit, states_at_raise, errors) where errors is a list of (node, state, why)."""
    errors = []

    def transfer(n, st):
        out = set()
        for s in st:
            for t in step(n, s):
                if isinstance(t, str) and t.startswith("ERR:"):
                    errors.append((n, s, t[4:]))
                else:
                    out.add(t)
        return frozenset(out)

    def edge(p, lab, out_state, in_state):
        if lab == "exc" and not exc_sees_effect:
            return in_state
        return out_state

    IN, OUT = forward(cfg, frozenset(start_states), transfer, lambda a, b: a | b, edge)
    seen = set()
    uniq = []
    for n, s, why in errors:
        k = (n.id, s, why)
        if k not in seen:
            seen.add(k)
            uniq.append((n, s, why))
    return IN[cfg.exit] or frozenset(), IN[cfg.raise_exit] or frozenset(), uniq, IN
