"""Thorough tier: the checker run on variants of the current tree (DESIGN 6.2).  Variants are computed from /repo's
current source by AST edits, handed to the rules through an in-memory overlay, and never executed or written into /repo.

 * breaking variants: one statement deleted, one comparison operator moved by one, one integer constant changed, one
   `if` test negated, two adjacent statements swapped -- in the functions the property's rules analysed;
 * equivalence variants (must stay silent): operands of commutative operators swapped, `x |= y` <-> `x = x | y`,
   comparison sides swapped, a no-op statement inserted, integer constants re-spelled as equal expressions;
 * regression variants: every 'fix:' commit recorded for the property in known_findings.json is reverse-applied and the
   rule must report the recorded key again.

A silent breaking variant is not necessarily a miss (deleting a log call keeps behaviour); the counts and the list of
silent variants are evidence for review.  An alarm on an equivalence variant is a false alarm of the checker and is listed.
"""
from __future__ import annotations

import ast
import copy
import importlib
import json
import os
import random
import subprocess
from concurrent.futures import ProcessPoolExecutor
from typing import Dict, List, Tuple

from .loader import AnalysisError, Repo
from .report import Checker, HOLDS, UNRECOGNISED, VERIF, VIOLATED, load_known

MAX_BREAKING = int(os.environ.get("VERIF_SELFTEST_MAX", "320"))
MAX_EQUIV = int(os.environ.get("VERIF_SELFTEST_MAX_EQ", "120"))


# --------------------------------------------------------------------------------------------- variant generation
def _func_node(tree: ast.Module, qual: str):
    parts = qual.split(".")
    cur = tree
    for i, p in enumerate(parts):
        want_setter = False
        if p == "setter" and i > 0:
            continue
        nxt = None
        is_setter = i + 1 < len(parts) and parts[i + 1] == "setter"
        for n in (cur.body if hasattr(cur, "body") else []):
            if isinstance(n, (ast.FunctionDef, ast.ClassDef)) and n.name == p:
                if isinstance(n, ast.FunctionDef):
                    deco = [ast.unparse(d) for d in n.decorator_list]
                    if is_setter != any(d.endswith(".setter") for d in deco):
                        continue
                nxt = n
                break
        if nxt is None:
            # nested function (e.g. read._raw_from): search deeper
            for n in ast.walk(cur):
                if isinstance(n, ast.FunctionDef) and n.name == p and n is not cur:
                    nxt = n
                    break
        if nxt is None:
            return None
        cur = nxt
    return cur if isinstance(cur, ast.FunctionDef) else None


def _blocks(fn: ast.FunctionDef):
    """All statement lists inside fn (not descending into nested defs)."""
    out = []

    def rec(node):
        for fld in ("body", "orelse", "finalbody"):
            b = getattr(node, fld, None)
            if isinstance(b, list) and b and isinstance(b[0], ast.stmt):
                out.append(b)
                for st in b:
                    if not isinstance(st, (ast.FunctionDef, ast.ClassDef)):
                        rec(st)
        for h in getattr(node, "handlers", []) or []:
            out.append(h.body)
            for st in h.body:
                rec(st)
    rec(fn)
    return out


_CMP_SHIFT = {ast.Lt: ast.LtE, ast.LtE: ast.Lt, ast.Gt: ast.GtE, ast.GtE: ast.Gt, ast.Eq: ast.NotEq, ast.NotEq: ast.Eq,
              ast.Is: ast.IsNot, ast.IsNot: ast.Is, ast.In: ast.NotIn, ast.NotIn: ast.In}


def breaking_variants(src_text: str, qual: str):
    """Yield (description, new module source)."""
    base = ast.parse(src_text)
    fn0 = _func_node(base, qual)
    if fn0 is None:
        return
    # 1. statement deletion / adjacent swap
    nblocks = len(_blocks(fn0))
    for bi in range(nblocks):
        blen = len(_blocks(fn0)[bi])
        for si in range(blen):
            st0 = _blocks(fn0)[bi][si]
            if isinstance(st0, ast.Expr) and isinstance(st0.value, ast.Constant):
                continue                                   # docstring
            if isinstance(st0, ast.Expr) and isinstance(st0.value, ast.Call) and ast.unparse(st0.value.func).startswith("logger."):
                continue                                   # logging never matters to a property
            t = copy.deepcopy(base)
            blk = _blocks(_func_node(t, qual))[bi]
            if len(blk) == 1:
                blk[si] = ast.Pass()
            else:
                del blk[si]
            yield (f"delete `{ast.unparse(st0)[:70]}` (line {st0.lineno})", _unparse(t))
            if si + 1 < blen:
                st1 = _blocks(fn0)[bi][si + 1]
                if not any(isinstance(x, (ast.Return, ast.Raise)) for x in (st0, st1)) and not (isinstance(st1, ast.Expr) and isinstance(st1.value, ast.Call) and ast.unparse(st1.value.func).startswith("logger.")):
                    t = copy.deepcopy(base)
                    blk = _blocks(_func_node(t, qual))[bi]
                    blk[si], blk[si + 1] = blk[si + 1], blk[si]
                    yield (f"swap lines {st0.lineno} and {st1.lineno}", _unparse(t))
    # 2. expression-level edits: walk in a stable order
    nodes0 = [n for n in ast.walk(fn0)]
    for idx, n in enumerate(nodes0):
        if isinstance(n, ast.Compare):
            for oi, op in enumerate(n.ops):
                if type(op) in _CMP_SHIFT:
                    t = copy.deepcopy(base)
                    m = [x for x in ast.walk(_func_node(t, qual))][idx]
                    m.ops[oi] = _CMP_SHIFT[type(op)]()
                    yield (f"`{ast.unparse(n)[:60]}`: {type(op).__name__} -> {_CMP_SHIFT[type(op)].__name__} (line {n.lineno})", _unparse(t))
        elif isinstance(n, ast.Constant) and isinstance(n.value, int) and not isinstance(n.value, bool) and not _in_logging(fn0, n):
            for nv in {n.value + 1, n.value - 1 if n.value > 0 else n.value + 2, n.value ^ 0x10 if n.value > 8 else n.value + 3}:
                t = copy.deepcopy(base)
                m = [x for x in ast.walk(_func_node(t, qual))][idx]
                m.value = nv
                yield (f"constant {n.value} -> {nv} (line {n.lineno})", _unparse(t))
        elif isinstance(n, (ast.If, ast.While)) and not (isinstance(n.test, ast.Constant)):
            t = copy.deepcopy(base)
            m = [x for x in ast.walk(_func_node(t, qual))][idx]
            m.test = ast.UnaryOp(op=ast.Not(), operand=m.test)
            yield (f"negate `{ast.unparse(n.test)[:60]}` (line {n.lineno})", _unparse(t))
        elif isinstance(n, ast.BoolOp):
            t = copy.deepcopy(base)
            m = [x for x in ast.walk(_func_node(t, qual))][idx]
            m.op = ast.Or() if isinstance(n.op, ast.And) else ast.And()
            yield (f"`{ast.unparse(n)[:60]}`: and <-> or (line {n.lineno})", _unparse(t))
        elif isinstance(n, ast.BinOp) and isinstance(n.op, (ast.LShift, ast.RShift, ast.Add, ast.Sub, ast.BitOr, ast.BitAnd)) and not _in_logging(fn0, n):
            swap = {ast.LShift: ast.RShift, ast.RShift: ast.LShift, ast.Add: ast.Sub, ast.Sub: ast.Add, ast.BitOr: ast.BitAnd, ast.BitAnd: ast.BitOr}[type(n.op)]
            t = copy.deepcopy(base)
            m = [x for x in ast.walk(_func_node(t, qual))][idx]
            m.op = swap()
            yield (f"`{ast.unparse(n)[:60]}`: {type(n.op).__name__} -> {swap.__name__} (line {n.lineno})", _unparse(t))


def _in_logging(fn, node) -> bool:
    for c in ast.walk(fn):
        if isinstance(c, ast.Call) and ast.unparse(c.func).startswith(("logger.", "logging.")):
            if any(x is node for x in ast.walk(c)):
                return True
        if isinstance(c, ast.Raise) and c.exc is not None and any(x is node for x in ast.walk(c.exc)) and isinstance(node, ast.Constant) and not isinstance(getattr(node, "value", None), int):
            return True
    return False


def equivalence_variants(src_text: str, qual: str):
    base = ast.parse(src_text)
    fn0 = _func_node(base, qual)
    if fn0 is None:
        return
    nodes0 = [n for n in ast.walk(fn0)]
    for idx, n in enumerate(nodes0):
        if isinstance(n, ast.BinOp) and isinstance(n.op, (ast.BitOr, ast.BitAnd, ast.Add, ast.Mult)) and not _is_stringy(n):
            t = copy.deepcopy(base)
            m = [x for x in ast.walk(_func_node(t, qual))][idx]
            m.left, m.right = m.right, m.left
            yield (f"swap operands of `{ast.unparse(n)[:60]}` (line {n.lineno})", _unparse(t))
        elif isinstance(n, ast.Compare) and len(n.ops) == 1 and isinstance(n.ops[0], (ast.Eq, ast.NotEq)):
            t = copy.deepcopy(base)
            m = [x for x in ast.walk(_func_node(t, qual))][idx]
            m.left, m.comparators = m.comparators[0], [m.left]
            yield (f"swap sides of `{ast.unparse(n)[:60]}` (line {n.lineno})", _unparse(t))
        elif isinstance(n, ast.Compare) and len(n.ops) == 1 and isinstance(n.ops[0], (ast.Lt, ast.LtE, ast.Gt, ast.GtE)):
            t = copy.deepcopy(base)
            m = [x for x in ast.walk(_func_node(t, qual))][idx]
            sw = {ast.Lt: ast.Gt, ast.Gt: ast.Lt, ast.LtE: ast.GtE, ast.GtE: ast.LtE}[type(n.ops[0])]
            m.left, m.comparators, m.ops = m.comparators[0], [m.left], [sw()]
            yield (f"mirror `{ast.unparse(n)[:60]}` (line {n.lineno})", _unparse(t))
        elif isinstance(n, ast.AugAssign) and isinstance(n.op, (ast.BitOr, ast.Add, ast.BitXor, ast.BitAnd)) and isinstance(n.target, (ast.Name, ast.Attribute)):
            t = copy.deepcopy(base)
            fn = _func_node(t, qual)
            for blk in _blocks(fn):
                for i, st in enumerate(blk):
                    if isinstance(st, ast.AugAssign) and st.lineno == n.lineno and ast.unparse(st) == ast.unparse(n):
                        load = copy.deepcopy(st.target)
                        load.ctx = ast.Load()
                        blk[i] = ast.Assign(targets=[st.target], value=ast.BinOp(left=load, op=st.op, right=st.value), lineno=st.lineno)
            yield (f"expand `{ast.unparse(n)[:60]}` (line {n.lineno})", _unparse(t))
        elif isinstance(n, ast.Constant) and isinstance(n.value, int) and not isinstance(n.value, bool) and n.value in (8, 16, 0x10, 0x80, 4, 2):
            t = copy.deepcopy(base)
            fn = _func_node(t, qual)
            class R(ast.NodeTransformer):
                def __init__(s):
                    s.k = -1
                def visit(s, node):
                    s.k += 1
                    return super().visit(node)
            # replace by index among walk order: rebuild by transformer over parents
            target = [x for x in ast.walk(fn)][idx]
            sh = {8: 3, 16: 4, 0x80: 7, 4: 2, 2: 1}[n.value]
            new = ast.BinOp(left=ast.Constant(value=1), op=ast.LShift(), right=ast.Constant(value=sh))
            if _replace(fn, target, new):
                yield (f"spell {n.value} as 1 << {sh} (line {n.lineno})", _unparse(t))
    # polarity inversion of if/else
    for idx, n in enumerate(nodes0):
        if isinstance(n, ast.If) and n.orelse and not (len(n.orelse) == 1 and isinstance(n.orelse[0], ast.If)):
            t = copy.deepcopy(base)
            m = [x for x in ast.walk(_func_node(t, qual))][idx]
            m.test = ast.UnaryOp(op=ast.Not(), operand=m.test)
            m.body, m.orelse = m.orelse, m.body
            yield (f"invert polarity of `if {ast.unparse(n.test)[:50]}` (line {n.lineno})", _unparse(t))
    # consistent renaming of one local
    params = {a.arg for a in fn0.args.args + fn0.args.kwonlyargs + fn0.args.posonlyargs}
    locals_ = []
    for n in ast.walk(fn0):
        if isinstance(n, ast.Name) and isinstance(n.ctx, ast.Store) and n.id not in params and n.id not in locals_ and not n.id.startswith("_"):
            locals_.append(n.id)
    nested_params = set()
    for n in ast.walk(fn0):
        if isinstance(n, (ast.FunctionDef, ast.Lambda)) and n is not fn0:
            a_ = n.args
            nested_params |= {x.arg for x in a_.posonlyargs + a_.args + a_.kwonlyargs}
            if isinstance(n, ast.FunctionDef):
                nested_params.add(n.name)
    globals_ = {x for n in ast.walk(fn0) if isinstance(n, (ast.Global, ast.Nonlocal)) for x in n.names}
    if True:
        for name in locals_[:6]:
            if name in globals_ or name in nested_params:
                continue
            t = copy.deepcopy(base)
            fn = _func_node(t, qual)
            for n in ast.walk(fn):
                if isinstance(n, ast.Name) and n.id == name:
                    n.id = name + "_r"
            yield (f"rename local `{name}`", _unparse(t))
    # annotations added to / removed from every plain assignment of the function
    t = copy.deepcopy(base)
    fn = _func_node(t, qual)
    k = 0
    for blk in _blocks(fn):
        for i, st in enumerate(blk):
            if isinstance(st, ast.Assign) and len(st.targets) == 1 and isinstance(st.targets[0], (ast.Name, ast.Attribute)):
                blk[i] = ast.AnnAssign(target=st.targets[0], annotation=ast.Name(id="object", ctx=ast.Load()), value=st.value, simple=int(isinstance(st.targets[0], ast.Name)), lineno=st.lineno)
                k += 1
            elif isinstance(st, ast.AnnAssign) and st.value is not None:
                blk[i] = ast.Assign(targets=[st.target], value=st.value, lineno=st.lineno)
                k += 1
    if k:
        yield (f"toggle type annotations on {k} assignments", _unparse(t))
    # extract variable: a call-free sub-expression of a simple statement is hoisted into a fresh local right before it
    done = 0
    for bi, blk0 in enumerate(_blocks(fn0)):
        for si, st0 in enumerate(blk0):
            if done >= 6 or not isinstance(st0, (ast.Assign, ast.AugAssign, ast.Expr, ast.Return)):
                continue
            val0 = st0.value
            if val0 is None or any(isinstance(x, (ast.Lambda, ast.ListComp, ast.SetComp, ast.DictComp, ast.GeneratorExp, ast.NamedExpr, ast.Yield, ast.YieldFrom, ast.Await, ast.IfExp, ast.BoolOp)) for x in ast.walk(val0)):
                continue
            if isinstance(st0, ast.Expr) and isinstance(val0, ast.Call) and ast.unparse(val0.func).startswith("logger."):
                continue
            cands = []
            for e in ast.walk(val0):
                if e is val0 and isinstance(st0, ast.Assign) and isinstance(st0.targets[0], ast.Name):
                    continue            # hoisting the whole right-hand side of `x = e` only introduces an alias
                if isinstance(e, (ast.BinOp, ast.Compare, ast.Subscript)) or (isinstance(e, ast.Attribute) and isinstance(e.ctx, ast.Load)):
                    if any(isinstance(x, ast.Call) for x in ast.walk(e)):
                        continue
                    if isinstance(e, ast.Attribute) and any(isinstance(p_, ast.Call) and p_.func is e for p_ in ast.walk(val0)):
                        continue        # the callee expression of a call
                    if any(isinstance(p_, ast.Attribute) and p_.value is e and any(isinstance(c_, ast.Call) and c_.func is p_ for c_ in ast.walk(val0)) for p_ in ast.walk(val0)):
                        continue        # receiver of a method call
                    epos = (e.lineno, e.col_offset)
                    if any(isinstance(c_, ast.Call) and (c_.lineno, c_.col_offset) < epos and not any(x is e for x in ast.walk(c_)) for c_ in ast.walk(val0)):
                        continue        # a call would run before the hoisted read
                    if isinstance(st0, ast.AugAssign) and ast.unparse(st0.target) in ast.unparse(e):
                        continue
                    cands.append(e)
            if not cands:
                continue
            e0 = max(cands, key=lambda x: len(ast.unparse(x)))
            t = copy.deepcopy(base)
            blk = _blocks(_func_node(t, qual))[bi]
            st = blk[si]
            target = next(x for x in ast.walk(st.value) if type(x) is type(e0) and getattr(x, "lineno", None) == e0.lineno and getattr(x, "col_offset", None) == e0.col_offset
                          and ast.unparse(x) == ast.unparse(e0))
            tmp = f"hoisted_{done}"
            if target is st.value:
                st.value = ast.Name(id=tmp, ctx=ast.Load())
            elif not _replace(st.value, target, ast.Name(id=tmp, ctx=ast.Load())):
                continue
            blk.insert(si, ast.Assign(targets=[ast.Name(id=tmp, ctx=ast.Store())], value=target, lineno=st.lineno))
            done += 1
            yield (f"extract `{ast.unparse(e0)[:50]}` of line {st0.lineno} into a local", _unparse(t))
    # two adjacent, independent, call-free assignments change places
    def _rw(st):
        reads = {ast.unparse(x) for x in ast.walk(st.value) if isinstance(x, (ast.Name, ast.Attribute)) and isinstance(getattr(x, "ctx", None), ast.Load)} - {"self"}
        writes = set()
        for tg in st.targets:
            if isinstance(tg, (ast.Name, ast.Attribute)):
                writes.add(ast.unparse(tg))
            else:
                writes.add("*")
        return reads, writes
    swaps = 0
    for bi, blk0 in enumerate(_blocks(fn0)):
        for si in range(len(blk0) - 1):
            a, b = blk0[si], blk0[si + 1]
            if swaps >= 5 or not (isinstance(a, ast.Assign) and isinstance(b, ast.Assign)):
                continue
            if any(isinstance(x, (ast.Call, ast.Subscript, ast.Await, ast.Yield, ast.NamedExpr)) for st in (a, b) for x in ast.walk(st)):
                continue
            ra, wa = _rw(a)
            rb, wb = _rw(b)
            pref = lambda ws, names: any(n == w or n.startswith(w + ".") or w.startswith(n + ".") for w in ws for n in names)  # noqa
            if "*" in wa | wb or pref(wa, rb | wb) or pref(wb, ra):
                continue
            t = copy.deepcopy(base)
            blk = _blocks(_func_node(t, qual))[bi]
            blk[si], blk[si + 1] = blk[si + 1], blk[si]
            swaps += 1
            yield (f"swap independent assignments at lines {a.lineno} and {b.lineno}", _unparse(t))
    # no-op insertion at the top of the function
    t = copy.deepcopy(base)
    fn = _func_node(t, qual)
    pos = 1 if fn.body and isinstance(fn.body[0], ast.Expr) and isinstance(fn.body[0].value, ast.Constant) else 0
    fn.body.insert(pos, ast.Expr(value=ast.Call(func=ast.Attribute(value=ast.Name(id="logger", ctx=ast.Load()), attr="debug", ctx=ast.Load()),
                                                 args=[ast.Constant(value="selftest no-op")], keywords=[])))
    yield ("insert a logging statement at the top", _unparse(t))


def _is_stringy(n: ast.BinOp) -> bool:
    return any(isinstance(x, (ast.JoinedStr,)) or (isinstance(x, ast.Constant) and isinstance(x.value, (str, bytes))) for x in ast.walk(n)) or \
        any(isinstance(x, ast.Call) and ast.unparse(x.func).endswith(("ljust", "pack", "join")) for x in ast.walk(n)) or \
        any(isinstance(x, ast.Attribute) and x.attr in ("_exp_header",) for x in ast.walk(n)) or \
        any(isinstance(x, ast.Name) and x.id in ("buffer", "text") for x in ast.walk(n))


def _replace(root, target, new) -> bool:
    for parent in ast.walk(root):
        for fld, val in ast.iter_fields(parent):
            if val is target:
                setattr(parent, fld, new)
                return True
            if isinstance(val, list):
                for i, v in enumerate(val):
                    if v is target:
                        val[i] = new
                        return True
    return False


def _unparse(t: ast.Module) -> str:
    ast.fix_missing_locations(t)
    return ast.unparse(t)


# --------------------------------------------------------------------------------------------- evaluation
def _evaluate(args) -> Tuple[str, str, List[str]]:
    prop, root, rel, new_src, desc = args
    try:
        ast.parse(new_src)
    except SyntaxError:
        return ("invalid", desc, [])
    try:
        repo = Repo(root, overlay={rel: new_src})
        mod = importlib.import_module(f"sa.rules.{prop.lower()}")
        chk = Checker(prop, repo, "thorough")
        mod.run(chk)
    except AnalysisError as e:
        return ("unrecognised", desc, [f"{e.rule}: {e.msg}"[:160]])
    except RecursionError:
        return ("crash", desc, ["RecursionError"])
    except Exception as e:  # noqa
        import traceback
        tb = traceback.extract_tb(e.__traceback__)[-1]
        return ("crash", desc, [f"{type(e).__name__}: {e} at {os.path.basename(tb.filename)}:{tb.lineno}"[:200]])
    bad = [r.key for r in chk.results if r.verdict == VIOLATED]
    unk = [r.key for r in chk.results if r.verdict == UNRECOGNISED]
    if bad:
        return ("violated", desc, bad[:3])
    if unk:
        return ("unrecognised", desc, unk[:3])
    return ("silent", desc, [])


def run_for(chk: Checker, prop: str) -> Dict:
    root = chk.repo.root
    seed = int(os.environ.get("VERIF_SEED", "0") or 0)
    rng = random.Random(seed * 1000 + int(prop[1:]))
    funcs = sorted(chk.analysed_functions)
    breaking, equiv = [], []
    for key in funcs:
        rel, qual = key.split(":", 1)
        m = chk.repo.by_rel.get(rel)
        if m is None:
            continue
        for desc, src_ in breaking_variants(m.src, qual):
            breaking.append((prop, root, rel, src_, f"{key}: {desc}"))
        for desc, src_ in equivalence_variants(m.src, qual):
            equiv.append((prop, root, rel, src_, f"{key}: {desc}"))
    n_break_total, n_eq_total = len(breaking), len(equiv)
    if len(breaking) > MAX_BREAKING:
        breaking = rng.sample(breaking, MAX_BREAKING)
    if len(equiv) > MAX_EQUIV:
        equiv = rng.sample(equiv, MAX_EQUIV)
    workers = min(16, os.cpu_count() or 4)
    with ProcessPoolExecutor(workers) as ex:
        res_b = list(ex.map(_evaluate, breaking, chunksize=8))
        res_e = list(ex.map(_evaluate, equiv, chunksize=8))
    count = lambda rs, k: sum(1 for r in rs if r[0] == k)  # noqa
    silent = [r[1] for r in res_b if r[0] == "silent"]
    crashes = [(r[1], r[2]) for r in res_b + res_e if r[0] == "crash"]
    false_alarms = [(r[1], r[2]) for r in res_e if r[0] == "violated"]
    eq_unrec = [(r[1], r[2]) for r in res_e if r[0] == "unrecognised"]
    # regression variants from the recorded fixes
    regress = []
    for k in load_known():
        if k.get("property") != prop or k.get("status") != "fixed" or not k.get("commit"):
            continue
        regress.append(_regression(prop, root, k))
    out = {
        "selftest": {
            "functions_mutated": funcs,
            "breaking_variants_generated": n_break_total, "breaking_variants_checked": len(res_b),
            "breaking_detected": count(res_b, "violated"), "breaking_unrecognised": count(res_b, "unrecognised"),
            "breaking_silent": len(silent), "breaking_silent_list": silent[:80],
            "equivalence_variants_generated": n_eq_total, "equivalence_variants_checked": len(res_e),
            "equivalence_silent": count(res_e, "silent"), "equivalence_false_alarms": false_alarms[:40],
            "equivalence_unrecognised": eq_unrec[:40],
            "checker_crashes": crashes[:40],
            "regression_variants": regress,
            "samples": [{"variant": r[1], "verdict": r[0], "keys": r[2]} for r in res_b[:12]],
            "note": "a silent breaking variant is a syntactic change the property's structural clauses do not speak about "
                    "(often behaviour-preserving for the property); the list is kept for review",
        }
    }
    for r in regress:
        if r["verdict"].startswith("NOT reported"):
            chk.unk("selftest", f"regression {r['commit']}", "-", f"reverting {r['commit']} does not make the rule report {r['key']!r}: {r['verdict']}")
    return out


def _regression(prop, root, k) -> Dict:
    commit = k["commit"]
    try:
        files = subprocess.run(["git", "-C", "/repo", "diff", "--name-only", f"{commit}~1", commit, "--", "canopen"], capture_output=True, text=True, timeout=30)
        if files.returncode != 0:
            return {"commit": commit, "key": k["key"], "verdict": "skipped: git history not available"}
        overlay = {}
        for rel in files.stdout.split():
            cur_path = os.path.join(root, rel)
            diff = subprocess.run(["git", "-C", "/repo", "diff", f"{commit}~1", commit, "--", rel], capture_output=True, text=True, timeout=30).stdout
            import tempfile
            with tempfile.TemporaryDirectory(prefix="verif-selftest.") as d:
                os.makedirs(os.path.dirname(os.path.join(d, rel)), exist_ok=True)
                with open(cur_path) as fh, open(os.path.join(d, rel), "w") as out:
                    out.write(fh.read())
                p = subprocess.run(["patch", "-R", "-p1", "-s", "-d", d], input=diff, capture_output=True, text=True)
                if p.returncode != 0:
                    return {"commit": commit, "key": k["key"], "verdict": "skipped: fix no longer reverse-applies (code changed since)"}
                overlay[rel] = open(os.path.join(d, rel)).read()
        repo = Repo(root, overlay=overlay)
        mod = importlib.import_module(f"sa.rules.{prop.lower()}")
        c2 = Checker(prop, repo, "thorough")
        try:
            mod.run(c2)
        except AnalysisError as e:
            return {"commit": commit, "key": k["key"], "verdict": f"analysis-error: {e}"}
        keys = [r.key for r in c2.results if r.verdict == VIOLATED]
        if k["key"] in keys:
            return {"commit": commit, "key": k["key"], "verdict": "reported"}
        if keys:
            return {"commit": commit, "key": k["key"], "verdict": "reported", "as": keys[:3]}
        return {"commit": commit, "key": k["key"], "verdict": "NOT reported"}
    except Exception as e:  # noqa
        return {"commit": commit, "key": k["key"], "verdict": f"skipped: {type(e).__name__}: {e}"}
