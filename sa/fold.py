"""E2 constant folder and expression normal forms.

`Folder.fold(expr, scope)` returns the Python value of a *closed* expression or raises Unfoldable.
Nothing is guessed: names that are bound more than once, calls other than the few modelled
constructors, and anything depending on run-time state are Unfoldable.
"""
from __future__ import annotations

import ast
import operator
import struct as _struct
from dataclasses import dataclass
from typing import Any, Dict, Optional

from .loader import Cls, Mod, Repo


class Unfoldable(Exception):
    pass


_ISINSTANCE_TYPES = {"int": int, "float": float, "str": str, "bytes": bytes, "bool": bool, "bytearray": bytearray, "list": list, "tuple": tuple, "dict": dict,
                  "memoryview": memoryview, "set": set, "frozenset": frozenset, "range": range, "complex": complex}


class AbsentAttribute(Unfoldable):
    """Reading an attribute that the probe object (RecordVal) does not have: the program would raise AttributeError."""


class RecordVal:
    """A probe object for specialisation: named fields with concrete values; a field that is not listed does not exist
    (`getattr(o, name, default)` gives the default, `o.name` is an AttributeError).  `isa` lists the class names the object
    is an instance of."""

    def __init__(self, fields, isa=()):
        self.fields = dict(fields)
        self.isa = tuple(isa)

    def __repr__(self):
        return f"<probe {'/'.join(self.isa) or 'object'} {self.fields}>"


@dataclass(frozen=True)
class StructVal:
    fmt: str

    @property
    def size(self) -> int:
        return _struct.calcsize(self.fmt)

    @property
    def format(self) -> str:
        return self.fmt


@dataclass(frozen=True)
class PackerVal:
    """IntegerN(width) / UnsignedN(width) of objectdictionary.datatypes."""
    width: int
    signed: bool

    @property
    def size(self) -> int:
        return self.width // 8

    @property
    def format(self) -> str:
        return self.fmt

    @property
    def fmt(self) -> str:
        """Format of the wider standard struct the packer derives from (model of IntegerN/UnsignedN.__init__,
        whose threshold chain is verified by C04.R3)."""
        letters = "bhlq" if self.signed else "BHLQ"
        for bits, l in zip((8, 16, 32, 64), letters):
            if self.width <= bits:
                return l if bits == 8 else "<" + l
        return "?"


@dataclass
class Scope:
    mod: Mod
    cls: Optional[Cls] = None
    env: Optional[Dict[str, Any]] = None      # local name -> python value (already folded)


_BIN = {
    ast.Add: operator.add, ast.Sub: operator.sub, ast.Mult: operator.mul,
    ast.FloorDiv: operator.floordiv, ast.Mod: operator.mod, ast.LShift: operator.lshift,
    ast.RShift: operator.rshift, ast.BitOr: operator.or_, ast.BitAnd: operator.and_,
    ast.BitXor: operator.xor, ast.Div: operator.truediv, ast.Pow: operator.pow,
}
_UN = {ast.USub: operator.neg, ast.UAdd: operator.pos, ast.Invert: operator.invert, ast.Not: operator.not_}
_CMP = {
    ast.Eq: operator.eq, ast.NotEq: operator.ne, ast.Lt: operator.lt, ast.LtE: operator.le,
    ast.Gt: operator.gt, ast.GtE: operator.ge,
    ast.In: lambda a, b: a in b, ast.NotIn: lambda a, b: a not in b,
    ast.Is: operator.is_, ast.IsNot: operator.is_not,
}
_BUILTIN_TYPES = {"int": int, "str": str, "bool": bool, "float": float, "bytes": bytes}


class Folder:
    def __init__(self, repo: Repo):
        self.repo = repo
        self._busy = set()

    # ------------------------------------------------------------ names
    def lookup_name(self, name: str, scope: Scope):
        """Return ('val', value) | ('mod', Mod) | ('cls', Cls) or raise Unfoldable."""
        if scope.env is not None and name in scope.env:
            return ("val", scope.env[name])
        if scope.cls is not None:
            # class-level names are visible unqualified only inside the class body itself
            if name in scope.cls.consts and getattr(scope, "in_class_body", False):
                inner = Scope(scope.cls.mod, scope.cls)
                inner.in_class_body = True
                return ("val", self.fold(scope.cls.consts[name], inner))
        return self._lookup_module_name(name, scope.mod)

    def _lookup_module_name(self, name: str, mod: Mod, depth: int = 0):
        if depth > 8:
            raise Unfoldable(name)
        if name in mod.classes:
            return ("cls", mod.classes[name])
        if name in mod.consts:
            if name in mod.multi_assigned:
                raise Unfoldable(f"{name} assigned more than once in {mod.rel}")
            key = (mod.name, name)
            if key in self._busy:
                raise Unfoldable(f"cyclic constant {name}")
            self._busy.add(key)
            try:
                return ("val", self.fold(mod.consts[name], Scope(mod)))
            finally:
                self._busy.discard(key)
        imp = mod.imports.get(name)
        if imp is not None:
            if imp[0] == "mod":
                target = self.repo.modules.get(imp[1])
                if target is not None:
                    return ("mod", target)
                return ("extmod", imp[1])
            target = self.repo.modules.get(imp[1])
            if target is None:
                return ("ext", f"{imp[1]}.{imp[2]}")
            sub = self.repo.modules.get(f"{imp[1]}.{imp[2]}")
            if sub is not None and imp[2] not in target.consts and imp[2] not in target.classes:
                return ("mod", sub)
            return self._lookup_module_name(imp[2], target, depth + 1)
        for s in mod.stars:
            target = self.repo.modules.get(s)
            if target is None:
                continue
            try:
                return self._lookup_module_name(name, target, depth + 1)
            except Unfoldable:
                continue
        if name in _BUILTIN_TYPES:
            return ("val", _BUILTIN_TYPES[name])
        if name in ("True", "False", "None"):
            return ("val", {"True": True, "False": False, "None": None}[name])
        raise Unfoldable(f"name {name} not closed in {mod.rel}")

    def _lookup_attr(self, expr: ast.Attribute, scope: Scope):
        base = expr.value
        if isinstance(base, ast.Name) and base.id in ("self", "cls") and scope.cls is not None:
            hit = self.repo.class_const(scope.cls, expr.attr)
            if hit is None:
                raise Unfoldable(f"self.{expr.attr} is not a class constant")
            if expr.attr in self._instance_assigned(scope.cls):
                raise Unfoldable(f"self.{expr.attr} is (re)bound on instances")
            c, e = hit
            return ("val", self.fold(e, _class_body_scope(c)))
        if isinstance(base, ast.Name):
            kind, obj = self.lookup_name(base.id, scope)[:2]
        elif isinstance(base, ast.Attribute):
            kind, obj = self._lookup_attr(base, scope)[:2]
        else:
            raise Unfoldable("attribute base")
        if kind == "mod":
            # submodule or name inside module
            sub = self.repo.modules.get(f"{obj.name}.{expr.attr}")
            try:
                return self._lookup_module_name(expr.attr, obj)
            except Unfoldable:
                if sub is not None:
                    return ("mod", sub)
                raise
        if kind == "cls":
            hit = self.repo.class_const(obj, expr.attr)
            if hit is None:
                raise Unfoldable(f"{obj.name}.{expr.attr} is not a class constant")
            c, e = hit
            return ("val", self.fold(e, _class_body_scope(c)))
        if kind == "extmod":
            return ("ext", f"{obj}.{expr.attr}")
        if kind == "ext":
            return ("ext", f"{obj}.{expr.attr}")
        if kind == "val" and isinstance(obj, (StructVal, PackerVal)) and expr.attr == "size":
            return ("val", obj.size)
        if kind == "val" and isinstance(obj, (StructVal, PackerVal)) and expr.attr == "format":
            return ("val", obj.fmt)
        if kind == "val" and isinstance(obj, RecordVal):
            if expr.attr in obj.fields:
                return ("val", obj.fields[expr.attr])
            raise AbsentAttribute(f"probe object has no attribute {expr.attr}")
        raise Unfoldable("attribute of value")

    def _instance_assigned(self, cls: Cls):
        """Attributes written through `self.` in any method of the class hierarchy (they shadow class constants)."""
        memo = getattr(self, "_ia_memo", None)
        if memo is None:
            memo = self._ia_memo = {}
        key = (cls.mod.name, cls.name)
        if key in memo:
            return memo[key]
        out = set()
        for c in self.repo.mro(cls):
            for m in c.methods.values():
                for n in ast.walk(m.node):
                    tgts = []
                    if isinstance(n, ast.Assign):
                        tgts = n.targets
                    elif isinstance(n, (ast.AugAssign, ast.AnnAssign)):
                        tgts = [n.target]
                    elif isinstance(n, ast.Delete):
                        tgts = n.targets
                    for t in tgts:
                        for e in (t.elts if isinstance(t, (ast.Tuple, ast.List)) else [t]):
                            while isinstance(e, ast.Subscript):
                                e = e.value
                            if isinstance(e, ast.Attribute) and isinstance(e.value, ast.Name) and e.value.id == "self":
                                out.add(e.attr)
        memo[key] = out
        return out

    # ------------------------------------------------------------ fold
    def fold(self, expr: ast.expr, scope: Scope) -> Any:
        if isinstance(expr, ast.Constant):
            return expr.value
        if isinstance(expr, ast.Name):
            kind, obj = self.lookup_name(expr.id, scope)[:2]
            if kind == "val":
                return obj
            raise Unfoldable(f"{expr.id} is a {kind}")
        if isinstance(expr, ast.Attribute):
            try:
                kind, obj = self._lookup_attr(expr, scope)[:2]
            except Unfoldable:
                if isinstance(expr.value, (ast.Subscript, ast.Call)):
                    base = self.fold(expr.value, scope)
                    if isinstance(base, (StructVal, PackerVal)) and expr.attr == "size":
                        return base.size
                    if isinstance(base, (StructVal, PackerVal)) and expr.attr == "format":
                        return base.fmt
                raise
            if kind == "val":
                return obj
            raise Unfoldable("attribute is not a value")
        if isinstance(expr, ast.BinOp) and type(expr.op) in _BIN:
            a, b = self.fold(expr.left, scope), self.fold(expr.right, scope)
            try:
                return _BIN[type(expr.op)](a, b)
            except Exception as e:  # noqa
                raise Unfoldable(str(e))
        if isinstance(expr, ast.UnaryOp) and type(expr.op) in _UN:
            return _UN[type(expr.op)](self.fold(expr.operand, scope))
        if isinstance(expr, (ast.Tuple, ast.List, ast.Set)):
            items = []
            for e in expr.elts:
                if isinstance(e, ast.Starred):
                    v = self.fold(e.value, scope)
                    if not isinstance(v, (list, tuple, range, frozenset, bytes, str, dict)):
                        raise Unfoldable("starred value is not a sequence")
                    items.extend(v)
                else:
                    items.append(self.fold(e, scope))
            if isinstance(expr, ast.Tuple):
                return tuple(items)
            return items if isinstance(expr, ast.List) else frozenset(items)
        if isinstance(expr, ast.Dict):
            out = {}
            for k, v in zip(expr.keys, expr.values):
                if k is None:
                    raise Unfoldable("dict unpacking")
                out[self.fold(k, scope)] = self.fold(v, scope)
            return out
        if isinstance(expr, ast.IfExp):
            t = self.fold(expr.test, scope)
            return self.fold(expr.body if t else expr.orelse, scope)
        if isinstance(expr, ast.Compare) and len(expr.ops) == 1 and type(expr.ops[0]) in _CMP:
            l_, r_ = self.fold(expr.left, scope), self.fold(expr.comparators[0], scope)
            try:
                return _CMP[type(expr.ops[0])](l_, r_)
            except TypeError as e:
                raise Unfoldable(str(e))
        if isinstance(expr, ast.Compare) and len(expr.ops) > 1 and all(type(o) in _CMP for o in expr.ops):
            left = self.fold(expr.left, scope)
            for op, c in zip(expr.ops, expr.comparators):
                right = self.fold(c, scope)
                try:
                    if not _CMP[type(op)](left, right):
                        return False
                except TypeError as e:
                    raise Unfoldable(str(e))
                left = right
            return True
        if isinstance(expr, ast.BoolOp):
            # operands are evaluated left to right and only as far as needed, as the language does (`x is None or k in x`)
            is_and = isinstance(expr.op, ast.And)
            out = is_and
            for e in expr.values:
                out = self.fold(e, scope)
                if bool(out) != is_and:
                    break
            return out
        if isinstance(expr, ast.Call):
            return self._fold_call(expr, scope)
        if isinstance(expr, (ast.DictComp, ast.ListComp, ast.SetComp, ast.GeneratorExp)):
            return self._fold_comp(expr, scope)
        if isinstance(expr, ast.Subscript) and not isinstance(expr.slice, ast.Slice):
            base = self.fold(expr.value, scope)
            key = self.fold(expr.slice, scope)
            try:
                return base[key]
            except Exception as e:  # noqa
                raise Unfoldable(str(e))
        if isinstance(expr, ast.JoinedStr):
            parts = []
            for v in expr.values:
                if isinstance(v, ast.Constant):
                    parts.append(str(v.value))
                    continue
                val = self.fold(v.value, scope)
                if not isinstance(val, (int, str, float, bytes, bool, type(None))):
                    raise Unfoldable("f-string value")
                if v.conversion == 114:
                    val = repr(val)
                elif v.conversion == 115:
                    val = str(val)
                elif v.conversion == 97:
                    val = ascii(val)
                spec = self.fold(v.format_spec, scope) if v.format_spec is not None else ""
                try:
                    parts.append(format(val, spec))
                except Exception as e:  # noqa
                    raise Unfoldable(str(e))
            return "".join(parts)
        raise Unfoldable(type(expr).__name__)

    def _fold_call(self, expr: ast.Call, scope: Scope) -> Any:
        fn = expr.func
        name = None
        if isinstance(fn, ast.Name):
            name = fn.id
            try:
                kind, obj = self.lookup_name(fn.id, scope)[:2]
            except Unfoldable:
                kind, obj = None, None
        elif isinstance(fn, ast.Attribute):
            name = fn.attr
            try:
                kind, obj = self._lookup_attr(fn, scope)[:2]
            except Unfoldable:
                kind, obj = None, None
        else:
            raise Unfoldable("call")
        if kind == "ext" and obj == "struct.Struct" and len(expr.args) == 1:
            fmt = self.fold(expr.args[0], scope)
            if isinstance(fmt, str):
                try:
                    _struct.calcsize(fmt)
                except _struct.error as e:
                    raise Unfoldable(str(e))
                return StructVal(fmt)
        if kind == "cls" and obj.name in ("IntegerN", "UnsignedN") and len(expr.args) == 1:
            w = self.fold(expr.args[0], scope)
            if isinstance(w, int):
                return PackerVal(w, obj.name == "IntegerN")
        if kind == "ext" and obj == "operator.index" and len(expr.args) == 1 and not expr.keywords:
            v = self.fold(expr.args[0], scope)
            if isinstance(v, int):
                return int(v)
            raise Unfoldable("operator.index of a non-integer")
        if kind == "ext" and obj == "struct.calcsize" and len(expr.args) == 1:
            return _struct.calcsize(self.fold(expr.args[0], scope))
        if isinstance(fn, ast.Name) and fn.id == "range" and not expr.keywords:
            args = [self.fold(a, scope) for a in expr.args]
            if all(isinstance(a, int) for a in args):
                return range(*args)
        if isinstance(fn, ast.Name) and fn.id in ("list", "tuple", "set", "frozenset") and len(expr.args) <= 1:
            if not expr.args:
                return {"list": list, "tuple": tuple, "set": frozenset, "frozenset": frozenset}[fn.id]()
            v = self.fold(expr.args[0], scope)
            return {"list": list, "tuple": tuple, "set": frozenset, "frozenset": frozenset}[fn.id](v)
        if isinstance(fn, ast.Name) and fn.id == "len" and len(expr.args) == 1:
            return len(self.fold(expr.args[0], scope))
        if isinstance(fn, ast.Name) and fn.id in ("getattr", "hasattr") and len(expr.args) in (2, 3) and not expr.keywords:
            v = self.fold(expr.args[0], scope)
            if isinstance(v, RecordVal):
                nm = self.fold(expr.args[1], scope)
                if fn.id == "hasattr":
                    return nm in v.fields
                if nm in v.fields:
                    return v.fields[nm]
                if len(expr.args) == 3:
                    return self.fold(expr.args[2], scope)
                raise AbsentAttribute(f"probe object has no attribute {nm}")
            raise Unfoldable(f"{fn.id} of a value that is not a probe object")
        if isinstance(fn, ast.Name) and fn.id == "isinstance" and len(expr.args) == 2 and not expr.keywords:
            # isinstance(<folded value>, <built-in type or tuple of them>)
            v = self.fold(expr.args[0], scope)
            tt = expr.args[1].elts if isinstance(expr.args[1], ast.Tuple) else [expr.args[1]]
            if isinstance(v, RecordVal):
                names = [dotted(t) for t in tt]
                if any(n is None for n in names):
                    raise Unfoldable("isinstance with an unnamed type")
                return any(n.split(".")[-1] in v.isa for n in names)
            types = []
            for t in tt:
                if isinstance(t, ast.Name) and t.id in _ISINSTANCE_TYPES and not (scope.env is not None and t.id in scope.env) and t.id not in scope.mod.consts and t.id not in scope.mod.classes:
                    types.append(_ISINSTANCE_TYPES[t.id])
                else:
                    raise Unfoldable("isinstance with a type that is not a built-in")
            if isinstance(v, (int, float, str, bytes, bool, bytearray, list, tuple, dict, frozenset, range, type(None))):
                return isinstance(v, tuple(types))
            raise Unfoldable("isinstance of a non-literal")
        if isinstance(fn, ast.Name) and fn.id in ("min", "max", "abs", "int", "bool", "all", "any", "sum", "sorted", "hex", "round", "divmod", "pow") and expr.args and not expr.keywords \
                and not (scope.env is not None and fn.id in scope.env):
            args = [self.fold(a, scope) for a in expr.args]
            try:
                return {"min": min, "max": max, "abs": abs, "int": int, "bool": bool, "all": all, "any": any, "sum": sum,
                        "sorted": sorted, "hex": hex, "round": round, "divmod": divmod, "pow": pow}[fn.id](*args)
            except Exception as e:  # noqa
                raise Unfoldable(str(e))
        if kind == "ext" and obj == "re.sub" and len(expr.args) == 3 and not expr.keywords:
            import re as _re
            a = [self.fold(x, scope) for x in expr.args]
            if all(isinstance(x, str) for x in a):
                try:
                    return _re.sub(a[0], a[1], a[2])
                except _re.error as e:
                    raise Unfoldable(str(e))
        if isinstance(fn, ast.Attribute) and fn.attr in ("replace", "upper", "lower", "strip", "lstrip", "rstrip", "startswith", "endswith", "removeprefix",
                                                         "removesuffix", "split", "partition", "rpartition", "find", "index", "count", "zfill", "isupper", "hex", "join", "splitlines", "rsplit", "title",
                                                         "capitalize", "casefold", "center", "ljust", "rjust", "isdigit", "islower", "expandtabs") and not expr.keywords:
            try:
                base = self.fold(fn.value, scope)
            except Unfoldable:
                base = None
            if isinstance(base, (str, bytes)):
                args = [self.fold(x, scope) for x in expr.args]
                try:
                    return getattr(base, fn.attr)(*args)
                except Exception as e:  # noqa
                    raise Unfoldable(str(e))
        if isinstance(fn, ast.Name) and fn.id in ("float", "str", "repr", "bytes", "len") and len(expr.args) == 1 and not expr.keywords and fn.id != "len":
            v = self.fold(expr.args[0], scope)
            try:
                return {"float": float, "str": str, "repr": repr, "bytes": bytes}[fn.id](v)
            except Exception as e:  # noqa
                raise Unfoldable(str(e))
        if isinstance(fn, ast.Attribute) and isinstance(fn.value, ast.Name) and fn.value.id in ("bytes", "bytearray", "int") and not expr.keywords \
                and (fn.value.id, fn.attr) in (("bytes", "hex"), ("bytes", "fromhex"), ("bytearray", "fromhex"), ("int", "from_bytes"), ("int", "to_bytes")):
            try:
                got = self.lookup_name(fn.value.id, scope)
                shadowed = not (got[0] == "val" and got[1] in (bytes, bytearray, int))
            except Unfoldable:
                shadowed = False
            if not shadowed:
                args = [self.fold(a, scope) for a in expr.args]
                try:
                    return getattr({"bytes": bytes, "bytearray": bytearray, "int": int}[fn.value.id], fn.attr)(*args)
                except Exception as e:  # noqa
                    raise Unfoldable(str(e))
        if isinstance(fn, ast.Attribute) and fn.attr in ("items", "keys", "values") and not expr.args:
            base = self.fold(fn.value, scope)
            if isinstance(base, dict):
                return list(getattr(base, fn.attr)())
        if isinstance(fn, ast.Attribute) and fn.attr == "get" and 1 <= len(expr.args) <= 2:
            base = self.fold(fn.value, scope)
            if isinstance(base, dict):
                return base.get(*[self.fold(a, scope) for a in expr.args])
        raise Unfoldable(f"call {name}")

    def _fold_comp(self, expr, scope: Scope):
        results = []

        def bind(target, value, env):
            if isinstance(target, ast.Name):
                env[target.id] = value
            elif isinstance(target, (ast.Tuple, ast.List)):
                vals = list(value)
                if len(vals) != len(target.elts):
                    raise Unfoldable("unpack")
                for t, v in zip(target.elts, vals):
                    bind(t, v, env)
            else:
                raise Unfoldable("comprehension target")

        def rec(gens, env):
            if not gens:
                sc = Scope(scope.mod, scope.cls, env)
                if getattr(scope, "in_class_body", False):
                    sc.in_class_body = True
                if isinstance(expr, ast.DictComp):
                    results.append((self.fold(expr.key, sc), self.fold(expr.value, sc)))
                else:
                    results.append(self.fold(expr.elt, sc))
                return
            g = gens[0]
            sc = Scope(scope.mod, scope.cls, env)
            if getattr(scope, "in_class_body", False):
                sc.in_class_body = True
            it = self.fold(g.iter, sc)
            n = 0
            for item in it:
                n += 1
                if n > 100000:
                    raise Unfoldable("comprehension too large")
                e2 = dict(env)
                bind(g.target, item, e2)
                sc2 = Scope(scope.mod, scope.cls, e2)
                if getattr(scope, "in_class_body", False):
                    sc2.in_class_body = True
                if all(self.fold(c, sc2) for c in g.ifs):
                    rec(gens[1:], e2)
        rec(expr.generators, dict(scope.env or {}))
        if isinstance(expr, ast.DictComp):
            return dict(results)
        if isinstance(expr, ast.SetComp):
            return frozenset(results)
        return list(results)

    def try_fold(self, expr: ast.expr, scope: Scope, default=None):
        try:
            return self.fold(expr, scope)
        except Unfoldable:
            return default
        except RecursionError:
            return default

    def is_ext(self, expr: ast.expr, scope: Scope) -> Optional[str]:
        """Dotted name of an external (non-repository) symbol, e.g. 'struct.pack', else None."""
        try:
            if isinstance(expr, ast.Name):
                r = self.lookup_name(expr.id, scope)
            elif isinstance(expr, ast.Attribute):
                r = self._lookup_attr(expr, scope)
            else:
                return None
        except Unfoldable:
            return None
        if r[0] == "ext":
            return r[1]
        if r[0] == "extmod":
            return r[1]
        return None


def _class_body_scope(c: Cls) -> Scope:
    s = Scope(c.mod, c)
    s.in_class_body = True  # type: ignore[attr-defined]
    return s


# ---------------------------------------------------------------------------------------------
# helpers on syntax

def dotted(expr: ast.AST) -> Optional[str]:
    """'self.sdo_client.request_response' for Attribute/Name chains, else None."""
    parts = []
    while isinstance(expr, ast.Attribute):
        parts.append(expr.attr)
        expr = expr.value
    if isinstance(expr, ast.Name):
        parts.append(expr.id)
        return ".".join(reversed(parts))
    if isinstance(expr, ast.Call) and isinstance(expr.func, ast.Name) and expr.func.id == "super":
        parts.append("super()")
        return ".".join(reversed(parts))
    return None


def call_name(node: ast.AST) -> Optional[str]:
    if isinstance(node, ast.Call):
        return dotted(node.func)
    return None


def calls_in(node: ast.AST):
    for n in ast.walk(node):
        if isinstance(n, ast.Call):
            yield n


def names_in(node: ast.AST):
    """Names and maximal dotted attribute chains read or written in `node` (the base name of a chain is not
    reported separately: `self.x` yields 'self.x', not 'self')."""
    out = set()

    def rec(n):
        if isinstance(n, ast.Attribute):
            d = dotted(n)
            if d and not d.startswith("super()"):
                out.add(d)
                return
        if isinstance(n, ast.Name):
            out.add(n.id)
            return
        for c in ast.iter_child_nodes(n):
            rec(c)
    rec(node)
    return out


def src(node: ast.AST) -> str:
    try:
        return ast.unparse(node)
    except Exception:  # noqa
        return type(node).__name__


class Normalizer(ast.NodeTransformer):
    """Normal form used to compare expressions: folded constants, sorted commutative operands,
    `not (a == b)` -> `a != b`, comparison with constant on the right."""

    _COMM = (ast.BitOr, ast.BitAnd, ast.BitXor, ast.Add, ast.Mult)
    _NEG = {ast.Eq: ast.NotEq, ast.NotEq: ast.Eq, ast.Lt: ast.GtE, ast.GtE: ast.Lt,
            ast.Gt: ast.LtE, ast.LtE: ast.Gt, ast.In: ast.NotIn, ast.NotIn: ast.In,
            ast.Is: ast.IsNot, ast.IsNot: ast.Is}
    _SWAP = {ast.Lt: ast.Gt, ast.Gt: ast.Lt, ast.LtE: ast.GtE, ast.GtE: ast.LtE,
             ast.Eq: ast.Eq, ast.NotEq: ast.NotEq}

    def __init__(self, folder: Folder, scope: Scope, subst: Optional[Dict[str, ast.expr]] = None):
        self.folder = folder
        self.scope = scope
        self.subst = subst or {}

    def _const(self, node):
        if isinstance(node, ast.Constant):
            return node
        v = self.folder.try_fold(node, self.scope, default=Unfoldable)
        if v is not Unfoldable and isinstance(v, (int, str, bytes, bool, float, type(None))):
            return ast.Constant(value=v)
        return None

    def visit(self, node):
        if isinstance(node, ast.expr) and not isinstance(node, (ast.Constant, ast.Starred)):
            if isinstance(node, (ast.Name, ast.Attribute, ast.BinOp, ast.UnaryOp)):
                c = self._const(node)
                if c is not None:
                    return c
            if isinstance(node, ast.Name) and node.id in self.subst:
                return self.visit(self.subst[node.id])
        return super().visit(node)

    def visit_BinOp(self, node: ast.BinOp):
        self.generic_visit(node)
        if isinstance(node.op, self._COMM):
            ops = self._flatten(node, type(node.op))
            ops.sort(key=lambda e: ast.dump(e))
            out = ops[0]
            for o in ops[1:]:
                out = ast.BinOp(left=out, op=node.op, right=o)
            return out
        return node

    def _flatten(self, node, op):
        if isinstance(node, ast.BinOp) and isinstance(node.op, op):
            return self._flatten(node.left, op) + self._flatten(node.right, op)
        return [node]

    def visit_UnaryOp(self, node: ast.UnaryOp):
        self.generic_visit(node)
        if isinstance(node.op, ast.Not) and isinstance(node.operand, ast.Compare) and len(node.operand.ops) == 1:
            op = type(node.operand.ops[0])
            if op in self._NEG:
                return self.visit_Compare(ast.Compare(left=node.operand.left, ops=[self._NEG[op]()],
                                                      comparators=node.operand.comparators))
        if isinstance(node.op, ast.Not) and isinstance(node.operand, ast.UnaryOp) and isinstance(node.operand.op, ast.Not):
            return node.operand.operand
        return node

    def visit_Compare(self, node: ast.Compare):
        self.generic_visit(node)
        if len(node.ops) == 1 and type(node.ops[0]) in self._SWAP:
            l, r = node.left, node.comparators[0]
            if isinstance(l, ast.Constant) and not isinstance(r, ast.Constant):
                return ast.Compare(left=r, ops=[self._SWAP[type(node.ops[0])]()], comparators=[l])
            if type(node.ops[0]) in (ast.Gt, ast.GtE) and not isinstance(l, ast.Constant) and not isinstance(r, ast.Constant):
                # between two non-constants only < and <= are used
                return ast.Compare(left=r, ops=[self._SWAP[type(node.ops[0])]()], comparators=[l])
            if type(node.ops[0]) in (ast.Eq, ast.NotEq) and not isinstance(r, ast.Constant):
                if ast.dump(l) > ast.dump(r):
                    return ast.Compare(left=r, ops=node.ops, comparators=[l])
        return node


def norm(expr: ast.expr, folder: Folder, scope: Scope, subst=None) -> str:
    import copy
    e = Normalizer(folder, scope, subst).visit(copy.deepcopy(expr))
    ast.fix_missing_locations(e)
    return ast.unparse(e)


def norm_ast(expr: ast.expr, folder: Folder, scope: Scope, subst=None) -> ast.expr:
    import copy
    e = Normalizer(folder, scope, subst).visit(copy.deepcopy(expr))
    ast.fix_missing_locations(e)
    return e
