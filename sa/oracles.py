"""Standard tables (DESIGN §3): the 'standard-conformant peer' of the properties, as data.

Entries are addressed by *role*; which repository name fills a role is a slot value in the rule.
"""

# ---- CiA 301 data types: name -> (object code, kind, bits, signed)
DATA_TYPES = {
    "BOOLEAN": (0x01, "bool", 8, False),        # encoded in one byte by this library
    "INTEGER8": (0x02, "int", 8, True),
    "INTEGER16": (0x03, "int", 16, True),
    "INTEGER32": (0x04, "int", 32, True),
    "UNSIGNED8": (0x05, "int", 8, False),
    "UNSIGNED16": (0x06, "int", 16, False),
    "UNSIGNED32": (0x07, "int", 32, False),
    "REAL32": (0x08, "float", 32, True),
    "VISIBLE_STRING": (0x09, "str", None, None),
    "OCTET_STRING": (0x0A, "bytes", None, None),
    "UNICODE_STRING": (0x0B, "str", None, None),
    "TIME_OF_DAY": (0x0C, "other", None, None),
    "TIME_DIFFERENCE": (0x0D, "other", None, None),
    "DOMAIN": (0x0F, "bytes", None, None),
    "INTEGER24": (0x10, "int", 24, True),
    "REAL64": (0x11, "float", 64, True),
    "INTEGER40": (0x12, "int", 40, True),
    "INTEGER48": (0x13, "int", 48, True),
    "INTEGER56": (0x14, "int", 56, True),
    "INTEGER64": (0x15, "int", 64, True),
    "UNSIGNED24": (0x16, "int", 24, False),
    "UNSIGNED40": (0x18, "int", 40, False),
    "UNSIGNED48": (0x19, "int", 48, False),
    "UNSIGNED56": (0x1A, "int", 56, False),
    "UNSIGNED64": (0x1B, "int", 64, False),
}
SIGNED = {n for n, v in DATA_TYPES.items() if v[1] == "int" and v[3]}
UNSIGNED = {n for n, v in DATA_TYPES.items() if v[1] == "int" and not v[3]}
FLOATS = {"REAL32", "REAL64"}
DATA = {"VISIBLE_STRING", "OCTET_STRING", "UNICODE_STRING", "DOMAIN"}
# struct format letters: letter -> (bits, signed, kind)
FMT = {"b": (8, True, "int"), "B": (8, False, "int"), "h": (16, True, "int"), "H": (16, False, "int"),
       "l": (32, True, "int"), "L": (32, False, "int"), "i": (32, True, "int"), "I": (32, False, "int"),
       "q": (64, True, "int"), "Q": (64, False, "int"), "f": (32, True, "float"), "d": (64, True, "float"),
       "?": (8, False, "bool")}
TEXT_CODECS = {"VISIBLE_STRING": {"ascii", "us-ascii", "us_ascii"},
               "UNICODE_STRING": {"utf_16_le", "utf-16-le", "utf-16le", "utf_16le", "utf16le"}}

# ---- CiA 301 SDO abort codes by condition role
ABORT = {
    "toggle": 0x05030000, "timeout": 0x05040000, "command": 0x05040001, "crc": 0x05040004,
    "read_wo": 0x06010001, "write_ro": 0x06010002, "no_object": 0x06020000, "length": 0x06070010,
    "no_subindex": 0x06090011, "general": 0x08000000,
}
ABORT_NO_VALUE = {0x060A0023, 0x08000024}

# ---- CiA 301 SDO command specifiers (value of bits 7..5)
CCS = {"download_segment": 0, "download_initiate": 1, "upload_initiate": 2, "upload_segment": 3,
       "abort": 4, "block_upload": 5, "block_download": 6}
SCS = {"upload_segment": 0, "download_segment": 1, "upload_initiate": 2, "download_initiate": 3,
       "abort": 4, "block_download": 5, "block_upload": 6}

# ---- NMT (CiA 301 7.3.2)
NMT_COMMAND_TO_STATE = {1: 5, 2: 4, 128: 127, 129: 0, 130: 0}
NMT_STATE_NUMBERS = {0: "INITIALISING", 4: "STOPPED", 5: "OPERATIONAL", 127: "PRE-OPERATIONAL"}
NMT_COMMAND_NAMES = {"OPERATIONAL": 1, "STOPPED": 2, "PRE-OPERATIONAL": 128, "RESET": 129,
                     "RESET COMMUNICATION": 130}

# ---- EMCY error classes (CiA 301 table 21): (code, mask) of every class the standard defines
EMCY_CLASSES = [
    (0x0000, 0xFF00, "reset"), (0x1000, 0xFF00, "generic"), (0x2000, 0xF000, "current"),
    (0x3000, 0xF000, "voltage"), (0x4000, 0xF000, "temperature"), (0x5000, 0xFF00, "hardware"),
    (0x6000, 0xF000, "software"), (0x7000, 0xFF00, "modules"), (0x8000, 0xF000, "monitoring"),
    (0x9000, 0xFF00, "external"), (0xF000, 0xFF00, "additional functions"), (0xFF00, 0xFF00, "device specific"),
]
EMCY_KEYWORDS = {
    "reset": ("reset", "no error"), "generic": ("generic",), "current": ("current",), "voltage": ("voltage",),
    "temperature": ("temperature",), "hardware": ("hardware",), "software": ("software",),
    "modules": ("module",), "monitoring": ("monitoring",), "external": ("external",),
    "additional functions": ("additional function",), "device specific": ("device specific",),
}

# ---- predefined connection set
SERVICES_NODE = {0x80, 0x180, 0x280, 0x380, 0x480, 0x580, 0x700}
SDO_RX, SDO_TX = 0x600, 0x580
HEARTBEAT_BASE, EMCY_BASE = 0x700, 0x80
RPDO_BASE, TPDO_BASE = 0x200, 0x180
MAX_STD_ID = 0x7FF

# ---- PDO communication record
PDO_SUBS = {"cob_id": 1, "trans_type": 2, "inhibit_time": 3, "event_timer": 5, "sync_start_value": 6}
PDO_NOT_VALID_BIT, PDO_NO_RTR_BIT = 31, 30

# ---- CiA 305 LSS command specifiers by service role
LSS_CS = {
    "switch_state_global": 0x04, "configure_node_id": 0x11, "configure_bit_timing": 0x13,
    "activate_bit_timing": 0x15, "store_configuration": 0x17,
    "switch_selective_vendor": 0x40, "switch_selective_product": 0x41, "switch_selective_revision": 0x42,
    "switch_selective_serial": 0x43, "switch_selective_response": 0x44,
    "identify_remote_vendor": 0x46, "identify_remote_product": 0x47, "identify_remote_rev_low": 0x48,
    "identify_remote_rev_high": 0x49, "identify_remote_serial_low": 0x4A, "identify_remote_serial_high": 0x4B,
    "identify_non_configured_remote": 0x4C, "identify_slave": 0x4F, "identify_non_configured_slave": 0x50,
    "fast_scan": 0x51, "inquire_vendor": 0x5A, "inquire_product": 0x5B, "inquire_revision": 0x5C,
    "inquire_serial": 0x5D, "inquire_node_id": 0x5E,
}
LSS_TX, LSS_RX = 0x7E5, 0x7E4
LSS_CONFIRMED = {0x11, 0x13, 0x17, 0x43, 0x51, 0x5A, 0x5B, 0x5C, 0x5D, 0x5E}

# ---- CiA 402 statusword patterns: state -> (mask, value)
CIA402_SW = {
    "NOT READY TO SWITCH ON": (0x4F, 0x00), "SWITCH ON DISABLED": (0x4F, 0x40),
    "READY TO SWITCH ON": (0x6F, 0x21), "SWITCHED ON": (0x6F, 0x23), "OPERATION ENABLED": (0x6F, 0x27),
    "QUICK STOP ACTIVE": (0x6F, 0x07), "FAULT REACTION ACTIVE": (0x4F, 0x0F), "FAULT": (0x4F, 0x08),
}
# controlword command -> (mask, value) on bits 7,3,2,1,0
CIA402_CMD = {
    "shutdown": (0x87, 0x06), "switch_on": (0x8F, 0x07), "enable_operation": (0x8F, 0x0F),
    "disable_voltage": (0x82, 0x00), "quick_stop": (0x86, 0x02), "disable_operation": (0x8F, 0x07),
    "fault_reset": (0x80, 0x80),
}
# (from, to) -> command that triggers it in a conformant drive; None = automatic
CIA402_TRANSITIONS = {
    ("START", "NOT READY TO SWITCH ON"): None,
    ("NOT READY TO SWITCH ON", "SWITCH ON DISABLED"): None,
    ("SWITCH ON DISABLED", "READY TO SWITCH ON"): "shutdown",
    ("READY TO SWITCH ON", "SWITCHED ON"): "switch_on",
    ("SWITCHED ON", "OPERATION ENABLED"): "enable_operation",
    ("OPERATION ENABLED", "SWITCHED ON"): "disable_operation",
    ("SWITCHED ON", "READY TO SWITCH ON"): "shutdown",
    ("READY TO SWITCH ON", "SWITCH ON DISABLED"): "disable_voltage",
    ("OPERATION ENABLED", "READY TO SWITCH ON"): "shutdown",
    ("OPERATION ENABLED", "SWITCH ON DISABLED"): "disable_voltage",
    ("SWITCHED ON", "SWITCH ON DISABLED"): "disable_voltage",
    ("OPERATION ENABLED", "QUICK STOP ACTIVE"): "quick_stop",
    ("QUICK STOP ACTIVE", "SWITCH ON DISABLED"): "disable_voltage",
    ("FAULT REACTION ACTIVE", "FAULT"): None,
    ("FAULT", "SWITCH ON DISABLED"): "fault_reset",
    ("QUICK STOP ACTIVE", "OPERATION ENABLED"): "enable_operation",
}
CIA402_COMMANDABLE = ["SWITCH ON DISABLED", "READY TO SWITCH ON", "SWITCHED ON", "OPERATION ENABLED",
                      "QUICK STOP ACTIVE"]
CIA402_UNCOMMANDABLE = ["NOT READY TO SWITCH ON", "FAULT REACTION ACTIVE", "FAULT"]
CIA402_MODES = {"NO MODE": 0, "PROFILED POSITION": 1, "VELOCITY": 2, "PROFILED VELOCITY": 3,
                "PROFILED TORQUE": 4, "HOMING": 6, "INTERPOLATED POSITION": 7,
                "CYCLIC SYNCHRONOUS POSITION": 8, "CYCLIC SYNCHRONOUS VELOCITY": 9,
                "CYCLIC SYNCHRONOUS TORQUE": 10}

# ---- CiA 306 DeviceInfo: option -> value type
DEVICE_INFO = {
    "VendorName": str, "VendorNumber": int, "ProductName": str, "ProductNumber": int,
    "RevisionNumber": int, "OrderCode": str, "SimpleBootUpMaster": bool, "SimpleBootUpSlave": bool,
    "Granularity": int, "DynamicChannelsSupported": (int, bool), "GroupMessaging": bool,
    "NrOfRXPDO": int, "NrOfTXPDO": int, "LSS_Supported": bool,
}

# CiA 306 4.5.1 [DeviceInfo]: BaudRate_10 ... BaudRate_1000 (kbit/s), the eight CiA 301 bit rates
EDS_BAUDRATES = [10, 20, 50, 125, 250, 500, 800, 1000]
