"""Results, evidence, exit codes (DESIGN §1.3, §1.5, §6.3)."""
from __future__ import annotations

import json
import os
import sys
import time
from dataclasses import dataclass, field
from typing import Any, Dict, List, Optional

HOLDS, VIOLATED, UNRECOGNISED = "HOLDS", "VIOLATED", "UNRECOGNISED"

VERIF = os.path.dirname(os.path.dirname(os.path.abspath(__file__)))


@dataclass
class Result:
    rule: str                 # e.g. "C04.R1"
    verdict: str              # HOLDS | VIOLATED | UNRECOGNISED
    construct: str            # module:QualifiedFunction | normalised construct  (no line numbers)
    where: str                # file:line for the reader
    detail: str = ""

    @property
    def key(self) -> str:
        return f"{self.rule} | {self.construct}"


class Checker:
    """Collects rule-instance results for one property."""

    def __init__(self, prop: str, repo, tier: str):
        self.prop = prop
        self.repo = repo
        self.tier = tier
        self.results: List[Result] = []
        self.analysed_functions: set = set()
        self.analysed_tables: List[str] = []
        self.cfg_nodes = 0
        self.cfg_edges = 0
        self.product_states = 0
        self.floors: Dict[str, tuple] = {}
        self.fixtures: List[dict] = []
        self.notes: List[str] = []

    # ---- recording
    def ok(self, rule, construct, where, detail=""):
        self.results.append(Result(f"{self.prop}.{rule}", HOLDS, construct, where, detail))

    def bad(self, rule, construct, where, detail=""):
        self.results.append(Result(f"{self.prop}.{rule}", VIOLATED, construct, where, detail))

    def unk(self, rule, construct, where, detail=""):
        self.results.append(Result(f"{self.prop}.{rule}", UNRECOGNISED, construct, where, detail))

    def check(self, cond: bool, rule, construct, where, detail_bad="", detail_ok=""):
        if cond:
            self.ok(rule, construct, where, detail_ok)
        else:
            self.bad(rule, construct, where, detail_bad)
        return cond

    def floor(self, rule: str, found: int, minimum: int, what: str):
        """Discovery floor: fewer constructs found than confirmed by hand => the recogniser lost sight."""
        self.floors[f"{self.prop}.{rule}"] = (found, minimum, what)
        if found < minimum:
            self.unk(rule, f"discovery floor: {what}", "-",
                     f"found {found} < {minimum} expected; the pattern no longer matches the code")

    def fixture(self, rule: str, name: str, fired: bool):
        """Positive fixture for rules whose expected violation count is zero."""
        self.fixtures.append({"rule": f"{self.prop}.{rule}", "fixture": name, "fired": fired})
        if not fired:
            self.unk(rule, f"fixture {name}", "-", "the built-in violating fixture was not flagged; recogniser broken")

    def saw(self, func):
        self.analysed_functions.add(func.key if hasattr(func, "key") else str(func))

    def saw_cfg(self, cfg):
        n, e = cfg.stats()
        self.cfg_nodes += n
        self.cfg_edges += e


# --------------------------------------------------------------------------------------------------

def load_known() -> List[dict]:
    p = os.path.join(VERIF, "known_findings.json")
    if not os.path.exists(p):
        return []
    with open(p) as fh:
        return json.load(fh).get("findings", [])


def _validate_evidence(ev: dict) -> None:
    """Hand-rolled check of /root/.vp/EVIDENCE.schema.json (jsonschema is not in /venv)."""
    for k in ("property_id", "tier", "seed", "level", "coverage", "wall_s"):
        if k not in ev:
            raise ValueError(f"evidence lacks {k}")
    assert ev["tier"] in ("quick", "thorough")
    assert isinstance(ev["seed"], int)
    assert ev["level"] == "other"
    cov = ev["coverage"]
    assert isinstance(cov.get("explanation"), str) and cov["explanation"].strip()
    for k in ("evaluations", "distinct_nontrivial", "obligations", "discharged"):
        assert isinstance(cov.get(k), int) and cov[k] >= 0, k
    assert isinstance(cov.get("samples"), list) and cov["samples"]
    assert isinstance(ev["wall_s"], (int, float))
    assert isinstance(ev.get("assumptions", []), list)


def finish(chk: Checker, started: float, explanation: str, assumptions: List[str],
           extra: Optional[Dict[str, Any]] = None) -> int:
    known = load_known()
    known_keys = {(k["property"], k["key"]): k for k in known if k.get("status") == "known"}
    out_lines: List[str] = []
    violations, known_hits, unrec = [], [], []
    for r in chk.results:
        if r.verdict == VIOLATED:
            if (chk.prop, r.key) in known_keys:
                known_hits.append(r)
            else:
                violations.append(r)
        elif r.verdict == UNRECOGNISED:
            unrec.append(r)
    os.makedirs(os.path.join(VERIF, "evidence"), exist_ok=True)
    replay_dir = os.path.join(VERIF, "evidence", "replay")
    for r in known_hits:
        out_lines.append(f"KNOWN-FINDING: property={chk.prop} {r.key} at {r.where}: {r.detail}")
    exit_code = 0
    if unrec:
        for r in unrec:
            out_lines.append(f"ANALYSIS-ERROR property={chk.prop} rule={r.rule} construct={r.construct!r} "
                             f"at {r.where}: {r.detail}")
        exit_code = 2
    if violations:
        os.makedirs(replay_dir, exist_ok=True)
        for i, r in enumerate(violations):
            path = os.path.join(replay_dir, f"{chk.prop}-{i}.json")
            with open(path, "w") as fh:
                json.dump({"property": chk.prop, "rule": r.rule, "key": r.key, "construct": r.construct,
                           "where": r.where, "explanation": r.detail, "repo": chk.repo.root,
                           "replay": f"/venv/bin/python /verif/check {chk.prop} --replay {path}"}, fh, indent=1)
            out_lines.append(f"VIOLATION property={chk.prop} replay={path}")
            out_lines.append(f"  rule={r.rule} construct={r.construct!r} at {r.where}: {r.detail}")
        exit_code = 1
    holds = [r for r in chk.results if r.verdict == HOLDS]
    distinct = {(r.rule, r.construct) for r in chk.results}
    samples = []
    seen_rules = set()
    for r in chk.results:
        if r.rule not in seen_rules or r.verdict != HOLDS:
            seen_rules.add(r.rule)
            samples.append({"rule": r.rule, "verdict": r.verdict, "construct": r.construct,
                            "where": r.where, "detail": r.detail[:300]})
    rules = sorted({r.rule for r in chk.results})
    cov = {
        "explanation": explanation,
        "evaluations": len(chk.results),
        "distinct_nontrivial": len(distinct),
        "rule": "one evaluation = one rule instance bound to a construct discovered in /repo's current source "
                "(call site, emission site, table row, guard, handle assignment, writer/reader pair); distinct = "
                "distinct (rule, normalised construct) pairs; an instance is non-trivial when the rule's pattern "
                "matched a construct (vacuous matches are not recorded; discovery floors fail the run instead)",
        "obligations": len(chk.results),
        "discharged": len(holds),
        "checker_cmd": f"/venv/bin/python /verif/check {chk.prop} --tier {chk.tier}",
        "trusted_base": ["CPython ast parser", "struct.calcsize for extracted format strings",
                         "the standard tables embedded in /verif/sa/oracles.py (CiA 301/305/306/402)",
                         "the checker's own recognisers (self-tested by mutation in the thorough tier)"],
        "samples": samples[:60],
        "exhaustive": False,
        "rules": rules,
        "rule_instance_counts": {ru: sum(1 for r in chk.results if r.rule == ru) for ru in rules},
        "units_parsed": chk.repo.units(),
        "functions_analysed": sorted(chk.analysed_functions),
        "tables_evaluated": chk.analysed_tables,
        "cfg_nodes": chk.cfg_nodes, "cfg_edges": chk.cfg_edges, "typestate_product_states": chk.product_states,
        "discovery_floors": {k: {"found": v[0], "minimum": v[1], "what": v[2]} for k, v in chk.floors.items()},
        "fixtures": chk.fixtures,
        "known_findings_reported": [r.key for r in known_hits],
        "unrecognised": [r.key for r in unrec],
        "repo_root": chk.repo.root,
        "notes": chk.notes,
    }
    if extra:
        cov.update(extra)
    ev = {
        "property_id": chk.prop, "tier": chk.tier, "seed": int(os.environ.get("VERIF_SEED", "0") or 0),
        "level": "other", "coverage": cov, "assumptions": assumptions,
        "wall_s": round(time.time() - started, 3), "violations": len(violations),
    }
    _validate_evidence(ev)
    if os.environ.get("VERIF_NO_EVIDENCE") != "1":
        with open(os.path.join(VERIF, "evidence", f"{chk.prop}.json"), "w") as fh:
            json.dump(ev, fh, indent=1)
    summary = (f"{chk.prop} [{chk.tier}] rules={len(rules)} instances={len(chk.results)} holds={len(holds)} "
               f"violated={len(violations)} known={len(known_hits)} unrecognised={len(unrec)} "
               f"functions={len(chk.analysed_functions)} wall={ev['wall_s']}s")
    out_lines.append(summary)
    print("\n".join(out_lines))
    sys.stdout.flush()
    return exit_code
